"""E1 -- repository model: parsed modules, imports, classes, functions, call resolution.

Everything is derived from the *source text* of <repo>/sigpy with the stdlib ``ast`` module.
Nothing from sigpy is imported or executed.
"""
import ast
import copy
import hashlib
import os
import re


class AnchorMissing(Exception):
    """An anchor (module / class / function) a rule is about no longer exists."""


class Unrecognised(Exception):
    """A construct does not match any idiom the recogniser knows (-> ANALYSIS-ERROR, never VIOLATION)."""

    def __init__(self, msg, node=None, mod=None):
        super().__init__(msg)
        self.node = node
        self.mod = mod


def unparse(n):
    try:
        return ast.unparse(n)
    except Exception:  # pragma: no cover
        return "<%s>" % type(n).__name__


def norm_text(node_or_str):
    """Normalised statement text: used as finding key (never line numbers)."""
    s = node_or_str if isinstance(node_or_str, str) else unparse(node_or_str)
    return re.sub(r"\s+", " ", s).strip()


# ----------------------------------------------------------------------------------------------
# build scoping: keep the CPU build that the test-suite runs
# ----------------------------------------------------------------------------------------------
def _is_gpu_flag(test):
    """config.cupy_enabled / config.cudnn_enabled / config.nccl_enabled (possibly and-ed)."""
    if isinstance(test, ast.Attribute) and isinstance(test.value, ast.Name) and test.value.id == "config":
        return test.attr in ("cupy_enabled", "cudnn_enabled", "nccl_enabled", "mpi4py_enabled", "pytorch_enabled")
    if isinstance(test, ast.BoolOp) and isinstance(test.op, ast.And):
        return any(_is_gpu_flag(v) for v in test.values)
    return False


def _is_xp_eq_np(test):
    """`xp == np` / `np == xp` / `get_array_module(x) == np` / `xp is np` -- CPU arm."""
    if not (isinstance(test, ast.Compare) and len(test.ops) == 1 and isinstance(test.ops[0], (ast.Eq, ast.Is))):
        return False
    l, r = test.left, test.comparators[0]
    return (isinstance(r, ast.Name) and r.id == "np") or (isinstance(l, ast.Name) and l.id == "np")


def _is_xp_ne_np(test):
    """`xp != np` / `not (xp == np)` -- GPU arm first."""
    if isinstance(test, ast.UnaryOp) and isinstance(test.op, ast.Not):
        return _is_xp_eq_np(test.operand)
    if isinstance(test, ast.Compare) and len(test.ops) == 1 and isinstance(test.ops[0], (ast.NotEq, ast.IsNot)):
        l, r = test.left, test.comparators[0]
        return (isinstance(r, ast.Name) and r.id == "np") or (isinstance(l, ast.Name) and l.id == "np")
    return False


def _is_not_gpu_flag(test):
    return isinstance(test, ast.UnaryOp) and isinstance(test.op, ast.Not) and _is_gpu_flag(test.operand) and not isinstance(test.operand, ast.BoolOp)


class _Pruner(ast.NodeTransformer):
    def __init__(self):
        self.pruned = 0

    def visit_If(self, node):
        self.generic_visit(node)
        if _is_gpu_flag(node.test):
            self.pruned += 1
            return node.orelse or [ast.copy_location(ast.Pass(), node)]
        if _is_not_gpu_flag(node.test):
            self.pruned += 1
            return node.body
        if _is_xp_eq_np(node.test) and node.orelse:
            # keep the test for def-use purposes but drop the GPU arm
            self.pruned += 1
            return node.body
        if _is_xp_ne_np(node.test) and node.orelse:
            self.pruned += 1
            return node.orelse
        if _is_xp_eq_np(node.test) and not node.orelse:
            # `if xp == np: return cpu(..)` followed by the GPU code: on the CPU build the test holds, what follows the return is dropped below
            self.pruned += 1
            return node.body
        if _is_xp_ne_np(node.test) and not node.orelse:
            # `if xp != np: <GPU work>; return ...` followed by the CPU code: the whole statement is the GPU arm
            self.pruned += 1
            return [ast.copy_location(ast.Pass(), node)]
        return node


def _drop_unreachable(tree):
    """statements that follow an unconditional return / raise / break / continue in the same block never run (they appear when the
    CPU-build pruning splices the body of `if xp == np: return ..` into the enclosing block)"""
    for n in ast.walk(tree):
        for fld in ("body", "orelse", "finalbody"):
            blk = getattr(n, fld, None)
            if isinstance(blk, list):
                for i, st in enumerate(blk):
                    if isinstance(st, (ast.Return, ast.Raise, ast.Break, ast.Continue)) and i + 1 < len(blk):
                        del blk[i + 1:]
                        break


# ----------------------------------------------------------------------------------------------
def _body_hash(node):
    """digest of a function body with docstring dropped and every private name blanked (same definition as tools/gen_known.py)"""
    n = copy.deepcopy(node)
    if n.body and isinstance(n.body[0], ast.Expr) and isinstance(n.body[0].value, ast.Constant) and isinstance(n.body[0].value.value, str):
        n.body = n.body[1:]
    for x in ast.walk(n):
        if isinstance(x, ast.Name) and x.id.startswith("_"):
            x.id = "_"
        elif isinstance(x, ast.Attribute) and x.attr.startswith("_"):
            x.attr = "_"
    return hashlib.sha256("".join(ast.dump(b) for b in n.body).encode()).hexdigest()[:16]


def _expand_kw_splats(tree):
    """`f(x, **h(a))` where h is a function of the same module whose body is `return {"k1": e1, "k2": e2}` (string keys, parameters used as
    plain names) reads `f(x, k1=e1[a], k2=e2[a])`: a keyword bundle factored into a helper is the keywords it abbreviates"""
    helpers = {}
    for n in tree.body:
        if isinstance(n, ast.FunctionDef) and not n.decorator_list and not n.args.vararg and not n.args.kwarg and not n.args.kwonlyargs:
            body = [b for b in n.body if not (isinstance(b, ast.Expr) and isinstance(b.value, ast.Constant))]
            if len(body) == 1 and isinstance(body[0], ast.Return) and isinstance(body[0].value, ast.Dict) and body[0].value.keys \
                    and all(isinstance(k, ast.Constant) and isinstance(k.value, str) and k.value.isidentifier() for k in body[0].value.keys):
                helpers[n.name] = n
    if not helpers:
        return tree

    class X(ast.NodeTransformer):
        def visit_Call(self, node):
            self.generic_visit(node)
            new_kw = []
            for k in node.keywords:
                h = helpers.get(k.value.func.id) if (k.arg is None and isinstance(k.value, ast.Call) and isinstance(k.value.func, ast.Name)) else None
                if h is None or k.value.keywords or any(isinstance(a, ast.Starred) for a in k.value.args) or len(k.value.args) != len(h.args.args):
                    new_kw.append(k)
                    continue
                sub = {p.arg: a for p, a in zip(h.args.args, k.value.args)}
                d = [b for b in h.body if isinstance(b, ast.Return)][0].value

                class S(ast.NodeTransformer):
                    def visit_Name(self, nm):
                        if isinstance(nm.ctx, ast.Load) and nm.id in sub:
                            return copy.deepcopy(sub[nm.id])
                        return nm
                for key, val in zip(d.keys, d.values):
                    v = S().visit(copy.deepcopy(val))
                    new_kw.append(ast.copy_location(ast.keyword(arg=key.value, value=ast.copy_location(v, k.value)), k))
            node.keywords = new_kw
            return node
    return X().visit(tree)


def _expand_method_kw_splats(tree):
    """`f(x, **self._opts())` where _opts is a method of the same class whose body is `return {"k1": e1, ...}` (string keys) reads
    `f(x, k1=e1, ...)` -- the method form of the keyword bundle handled by _expand_kw_splats (run after private bases are flattened)"""
    for cls in [n for n in tree.body if isinstance(n, ast.ClassDef)]:
        helpers = {}
        for n in cls.body:
            if isinstance(n, ast.FunctionDef) and len(n.args.args) == 1 and not n.args.vararg and not n.args.kwarg and not n.args.kwonlyargs:
                body = [b for b in n.body if not (isinstance(b, ast.Expr) and isinstance(b.value, ast.Constant))]
                if len(body) == 1 and isinstance(body[0], ast.Return) and isinstance(body[0].value, ast.Dict) and body[0].value.keys \
                        and all(isinstance(k, ast.Constant) and isinstance(k.value, str) and k.value.isidentifier() for k in body[0].value.keys):
                    helpers[n.name] = (n.args.args[0].arg, body[0].value)
        if not helpers:
            continue

        class X(ast.NodeTransformer):
            def visit_Call(self, node):
                self.generic_visit(node)
                new_kw = []
                for k in node.keywords:
                    v = k.value
                    if k.arg is None and isinstance(v, ast.Call) and not v.args and not v.keywords and isinstance(v.func, ast.Attribute) \
                            and isinstance(v.func.value, ast.Name) and v.func.value.id == "self" and v.func.attr in helpers:
                        selfname, d = helpers[v.func.attr]
                        for key, val in zip(d.keys, d.values):
                            vv = copy.deepcopy(val)
                            if selfname != "self":
                                for x in ast.walk(vv):
                                    if isinstance(x, ast.Name) and x.id == selfname:
                                        x.id = "self"
                            new_kw.append(ast.copy_location(ast.keyword(arg=key.value, value=ast.copy_location(vv, v)), k))
                    else:
                        new_kw.append(k)
                node.keywords = new_kw
                return node
        for i, n in enumerate(cls.body):
            if isinstance(n, ast.FunctionDef):
                cls.body[i] = X().visit(n)
    return tree


class Mod:
    def __init__(self, name, path, src, tree, raw_tree, pruned):
        self.name = name
        self.path = path
        self.src = src
        self.tree = tree  # CPU-build tree
        self.raw_tree = raw_tree
        self.pruned = pruned
        self.imports = {}  # local alias -> dotted target
        self.all = None
        self.is_pkg = path.endswith("__init__.py")


class Func:
    def __init__(self, qual, node, mod, cls=None, parent=None):
        self.qual = qual
        self.node = node
        self.mod = mod
        self.cls = cls  # Cls or None
        self.parent = parent  # enclosing Func or None
        self.name = node.name

    @property
    def params(self):
        a = self.node.args
        return [x.arg for x in a.posonlyargs + a.args]

    @property
    def all_params(self):
        a = self.node.args
        out = [x.arg for x in a.posonlyargs + a.args]
        if a.vararg:
            out.append("*" + a.vararg.arg)
        out += [x.arg for x in a.kwonlyargs]
        if a.kwarg:
            out.append("**" + a.kwarg.arg)
        return out

    @property
    def defaults(self):
        """param -> default ast node"""
        a = self.node.args
        ps = a.posonlyargs + a.args
        d = {}
        for p, v in zip(ps[len(ps) - len(a.defaults):], a.defaults):
            d[p.arg] = v
        for p, v in zip(a.kwonlyargs, a.kw_defaults):
            if v is not None:
                d[p.arg] = v
        return d

    @property
    def body(self):
        b = self.node.body
        if b and isinstance(b[0], ast.Expr) and isinstance(b[0].value, ast.Constant) and isinstance(b[0].value.value, str):
            return b[1:]
        return b

    @property
    def docstring(self):
        return ast.get_docstring(self.node) or ""

    def loc(self, node=None):
        n = node if node is not None else self.node
        return "%s:%s" % (self.mod.path, getattr(n, "lineno", "?"))

    def __repr__(self):
        return "<Func %s>" % self.qual


class Cls:
    def __init__(self, qual, node, mod):
        self.qual = qual
        self.node = node
        self.mod = mod
        self.name = node.name
        self.base_quals = []
        self.methods = {}

    def __repr__(self):
        return "<Cls %s>" % self.qual


def _canon_numpy_alias(tree):
    """`import numpy` / `import numpy as <anything>` is read as `import numpy as np` (the spelling of the pinned tree and of the rules' reference
    texts), with every use of the alias renamed -- unless the module binds `np` to something else"""
    alias = None
    for n in tree.body:
        if isinstance(n, ast.Import):
            for a in n.names:
                if a.name == "numpy":
                    alias = a.asname or "numpy"
    if alias is None or alias == "np":
        return tree
    for n in ast.walk(tree):
        if (isinstance(n, ast.Name) and n.id == "np") or (isinstance(n, ast.arg) and n.arg == "np") or \
                (isinstance(n, (ast.Import, ast.ImportFrom)) and any((a.asname or a.name) == "np" for a in n.names)):
            return tree
    for n in ast.walk(tree):
        if isinstance(n, ast.Import):
            for a in n.names:
                if a.name == "numpy":
                    a.asname = "np"
        elif isinstance(n, ast.Name) and n.id == alias:
            n.id = "np"
    return tree


def _kw_to_pos(c, fn):
    ps = list(fn.params)
    while len(c.args) < len(ps):
        nxt = [k for k in c.keywords if k.arg == ps[len(c.args)]]
        if len(nxt) != 1:
            break
        c.keywords.remove(nxt[0])
        c.args.append(nxt[0].value)


class _InlineXp(ast.NodeTransformer):
    """`device.xp.clip(..)` / `backend.get_array_module(x).zeros(..)` used without a local name are read like `xp.clip(..)` / `xp.zeros(..)`:
    the array module (numpy on the analysed CPU build) has one spelling whether or not it is bound to a local first"""
    def visit_Attribute(self, node):
        self.generic_visit(node)
        v = node.value
        if isinstance(v, ast.Attribute) and v.attr == "xp" and isinstance(v.ctx, ast.Load):
            node.value = ast.copy_location(ast.Name("xp", ast.Load()), v)
        elif isinstance(v, ast.Call) and ((isinstance(v.func, ast.Attribute) and v.func.attr == "get_array_module") or
                                          (isinstance(v.func, ast.Name) and v.func.id == "get_array_module")):
            node.value = ast.copy_location(ast.Name("xp", ast.Load()), v)
        return node


class _StripAnnotations(ast.NodeTransformer):
    """type annotations carry no behaviour: `x: T = v` is read as `x = v`, a bare declaration `x: T` as nothing, and annotations of parameters
    and results are dropped (so adding or changing type hints changes nothing any rule sees)"""
    def _fn(self, node):
        self.generic_visit(node)
        for a in node.args.posonlyargs + node.args.args + node.args.kwonlyargs + [x for x in (node.args.vararg, node.args.kwarg) if x is not None]:
            a.annotation = None
        node.returns = None
        return node
    visit_FunctionDef = _fn
    visit_AsyncFunctionDef = _fn

    def visit_AnnAssign(self, node):
        self.generic_visit(node)
        if node.value is None:
            return ast.copy_location(ast.Pass(), node)
        return ast.copy_location(ast.Assign(targets=[node.target], value=node.value), node)


class Model:
    def __init__(self, repo):
        self.repo = os.path.abspath(repo)
        self.pkg_root = os.path.join(self.repo, "sigpy")
        if not os.path.isdir(self.pkg_root):
            raise AnchorMissing("package directory %s not found" % self.pkg_root)
        self.mods = {}
        self.funcs = {}
        self.classes = {}
        self.pruned_arms = 0
        self.renamed = {}
        self._digest = hashlib.sha256()
        self._load()
        self._index()
        self._canon_keywords()

    def _canon_keywords(self):
        """`prod(shape=s)` is read as `prod(s)`: at every call that resolves to a module-level function of the package (no *args / **kwargs), keyword
        arguments that continue the positional ones in parameter order are moved into the positional list -- one spelling per call"""
        for f in list(self.funcs.values()):
            for c in ast.walk(f.node):
                if not isinstance(c, ast.Call) or not c.keywords or any(isinstance(a, ast.Starred) for a in c.args) or any(k.arg is None for k in c.keywords):
                    continue
                try:
                    tgt = self.resolve_call(f, c)
                except Exception:
                    continue
                if not tgt or tgt[0] != "repo":
                    continue
                fn = tgt[1]
                if not isinstance(fn, Func) or fn.cls is not None or fn.node.args.vararg is not None or fn.node.args.kwarg is not None or fn.node.args.posonlyargs:
                    continue
                _kw_to_pos(c, fn)
        # module-level statements (registries filled at import time): bare-name calls of functions of the same module
        for mn, m in self.mods.items():
            for st in m.tree.body:
                if isinstance(st, (ast.FunctionDef, ast.AsyncFunctionDef, ast.ClassDef)):
                    continue
                for c in ast.walk(st):
                    if isinstance(c, ast.Call) and c.keywords and isinstance(c.func, ast.Name) and not any(isinstance(a, ast.Starred) for a in c.args) \
                            and not any(k.arg is None for k in c.keywords):
                        fn = self.funcs.get(mn + "." + c.func.id)
                        if isinstance(fn, Func) and fn.cls is None and fn.node.args.vararg is None and fn.node.args.kwarg is None and not fn.node.args.posonlyargs:
                            _kw_to_pos(c, fn)

    # -------------------------------------------------------------- loading
    def _load(self):
        for root, dirs, files in os.walk(self.pkg_root):
            dirs.sort()
            for f in sorted(files):
                if not f.endswith(".py"):
                    continue
                path = os.path.join(root, f)
                rel = os.path.relpath(path, self.repo)
                name = rel[:-3].replace(os.sep, ".")
                if name.endswith(".__init__"):
                    name = name[: -len(".__init__")]
                with open(path, encoding="utf-8") as fh:
                    src = fh.read()
                self._digest.update(rel.encode())
                self._digest.update(src.encode())
                raw = ast.parse(src, filename=path)  # SyntaxError -> analysis error upstream
                pr = _Pruner()
                tree = pr.visit(_InlineXp().visit(_canon_numpy_alias(_StripAnnotations().visit(copy.deepcopy(raw)))))
                tree = _expand_kw_splats(tree)
                if pr.pruned:
                    _drop_unreachable(tree)
                ast.fix_missing_locations(tree)
                self.pruned_arms += pr.pruned
                self.mods[name] = Mod(name, rel, src, tree, raw, pr.pruned)
        self._unrename()
        self._flatten_private_bases()
        for m in self.mods.values():
            m.tree = _expand_method_kw_splats(m.tree)
            ast.fix_missing_locations(m.tree)

    def _flatten_private_bases(self):
        """A *new* private base class or mixin (`class _BlockLinop(Linop)` holding code shared by Hstack / Vstack / Diag) is a way of writing the subclasses
        shorter: each subclass is read as if it defined the inherited methods itself (they are copied down, the private base's own bases take
        its place), and the private base is marked abstract -- it is not an operator / prox / algorithm of its own and the class enumerations
        of the rules skip it.  Only classes the pinned tree did not have are treated this way (known_sigs.txt lists the pinned ones)."""
        path = os.path.join(os.path.dirname(os.path.abspath(__file__)), "known_sigs.txt")
        pinned_classes = set()
        try:
            for ln in open(path):
                if ln.strip() and not ln.startswith("#"):
                    q = ln.split("|", 1)[0]
                    parts = q.split(".")
                    if len(parts) >= 3 and parts[-2][:1].isupper() or (len(parts) >= 3 and parts[-2].startswith("_") and parts[-2][1:2].isupper()):
                        pinned_classes.add(".".join(parts[:-1]))
        except OSError:
            return
        self.abstract = set()
        for mname, m in self.mods.items():
            classes = {n.name: n for n in m.tree.body if isinstance(n, ast.ClassDef)}
            new_private = {nm for nm in classes if nm.startswith("_") and (mname + "." + nm) not in pinned_classes}
            if not new_private:
                continue
            done = set()

            def flatten(cname):
                if cname in done:
                    return
                done.add(cname)
                c = classes[cname]
                new_bases = []
                for b in c.bases:
                    if isinstance(b, ast.Name) and b.id in new_private and b.id != cname:
                        flatten(b.id)
                        pb = classes[b.id]
                        own = {x.name for x in c.body if isinstance(x, ast.FunctionDef)} | \
                            {t.id for x in c.body if isinstance(x, ast.Assign) for t in x.targets if isinstance(t, ast.Name)}
                        for item in pb.body:
                            if isinstance(item, ast.FunctionDef) and item.name not in own:
                                cp = copy.deepcopy(item)
                                # `Base.helper(...)` spelled with the private base's name refers to the copy in this class
                                for x in ast.walk(cp):
                                    if isinstance(x, ast.Attribute) and isinstance(x.value, ast.Name) and x.value.id == b.id:
                                        x.value.id = cname
                                c.body.append(cp)
                            elif isinstance(item, ast.Assign) and all(isinstance(t, ast.Name) and t.id not in own for t in item.targets):
                                c.body.append(copy.deepcopy(item))
                        for x in ast.walk(c):
                            if isinstance(x, ast.Attribute) and isinstance(x.value, ast.Name) and x.value.id == b.id and x is not b:
                                x.value.id = cname
                        new_bases.extend(pb.bases)
                        self.abstract.add(mname + "." + b.id)
                    else:
                        new_bases.append(b)
                c.bases = new_bases or c.bases
            for cname in list(classes):
                if cname not in new_private:
                    flatten(cname)

    def _unrename(self):
        """A private helper (function or method, single leading underscore) that an edit has *renamed* is presented under the name the rules were
        written against: a pinned private name that is no longer defined in its module / class is matched with a definition there that the
        pinned tree did not have, with the same parameter list and the most similar set of callee names (unique best match required).  The
        renaming is undone in the model's syntax trees (definition and every reference in the package), so that rules, reference texts and
        term names see one spelling.  Public names are API and are never matched."""
        path = os.path.join(os.path.dirname(os.path.abspath(__file__)), "known_sigs.txt")
        try:
            rows = [ln.rstrip("\n").split("|") for ln in open(path) if ln.strip() and not ln.startswith("#")]
        except OSError:
            return
        pinned = {}
        for r in rows:
            if len(r) < 4:
                continue
            q, ps, cs, bh = r[:4]
            cont, name = q.rsplit(".", 1)
            pinned.setdefault(cont, {})[name] = (ps.split(",") if ps else [], set(cs.split(",")) if cs else set(), bh)
        current = {}

        def callees(node):
            out = set()
            for n in ast.walk(node):
                if isinstance(n, ast.Call):
                    f = n.func
                    out.add(f.id if isinstance(f, ast.Name) else (f.attr if isinstance(f, ast.Attribute) else "?"))
            return out
        for mname, m in self.mods.items():
            for n in m.tree.body:
                if isinstance(n, ast.FunctionDef):
                    current.setdefault(mname, {})[n.name] = n
                elif isinstance(n, ast.ClassDef):
                    for x in n.body:
                        if isinstance(x, ast.FunctionDef):
                            current.setdefault(mname + "." + n.name, {})[x.name] = x
        all_defined = {nm for d in current.values() for nm in d}
        private = lambda nm: nm.startswith("_") and not nm.startswith("__")
        renames = {}
        for cont, names in pinned.items():
            cur = current.get(cont, {})
            missing = [nm for nm in names if nm not in cur and private(nm)]
            unknown = [nm for nm in cur if nm not in names and private(nm)]
            if not missing or not unknown:
                continue
            scored = []
            import difflib
            for mnm in missing:
                ps, cs, bh = names[mnm]
                for u in unknown:
                    node = cur[u]
                    ups = [a.arg for a in node.args.posonlyargs + node.args.args + node.args.kwonlyargs]
                    if ups != ps:
                        continue
                    ucs = callees(node)
                    # an unchanged body (private names blanked) is the best evidence of a pure rename; otherwise similarity of the callee sets,
                    # then of the names themselves (a rename usually keeps a recognisable stem), tells siblings (fftn / ifftn) apart
                    inter, union = len(cs & ucs), len(cs | ucs) or 1
                    same_body = 1.0 if _body_hash(node) == bh else 0.0
                    scored.append((same_body * 10 + inter / union + 0.5 * difflib.SequenceMatcher(None, mnm, u).ratio(), mnm, u))
            scored.sort(reverse=True)
            used_m, used_u = set(), set()
            for sc, mnm, u in scored:
                if mnm in used_m or u in used_u:
                    continue
                rivals = [x for x in scored if (x[1] == mnm or x[2] == u) and (x[1], x[2]) != (mnm, u) and x[1] not in used_m and x[2] not in used_u]
                if any(abs(x[0] - sc) < 1e-9 for x in rivals):
                    continue      # ambiguous: leave both unmatched (the vanished anchor is then reported as such)
                if sc < 0.6 and rivals:
                    continue
                used_m.add(mnm)
                used_u.add(u)
                if u in renames and renames[u] != mnm:
                    renames[u] = None
                elif mnm not in all_defined:
                    renames[u] = mnm
        renames = {u: mnm for u, mnm in renames.items() if mnm is not None}
        self._unmove(pinned, current, private)
        self._unrename_params(pinned, current, renames, private)
        if not renames:
            return
        self.renamed = dict(renames)

        class R(ast.NodeTransformer):
            def visit_FunctionDef(self, node):
                self.generic_visit(node)
                if node.name in renames:
                    node.name = renames[node.name]
                return node

            def visit_Name(self, node):
                if node.id in renames:
                    node.id = renames[node.id]
                return node

            def visit_Attribute(self, node):
                self.generic_visit(node)
                if node.attr in renames:
                    node.attr = renames[node.attr]
                return node
        for m in self.mods.values():
            m.tree = R().visit(m.tree)

    def _unmove(self, pinned, current, private):
        """a private helper that an edit has moved to another module and imports back under its name (`from sigpy._kernels import _poisson`) is read
        where the rules know it: its definition is copied into the importing module's tree (the import is dropped), so that its qualified name,
        the names of the calls to it and the module-level context it is analysed in are the pinned ones"""
        for cont, names in pinned.items():
            m = self.mods.get(cont)
            if m is None:
                continue
            cur = current.get(cont, {})
            for nm, (ps, cs, bh) in names.items():
                if nm in cur or not private(nm):
                    continue
                src = None
                for node in m.tree.body:
                    if isinstance(node, ast.ImportFrom):
                        for a in node.names:
                            if (a.asname or a.name) == nm:
                                base = node.module or ""
                                if node.level:
                                    parts = cont.split(".")
                                    if not m.is_pkg:
                                        parts = parts[:-1]
                                    if node.level > 1:
                                        parts = parts[: -(node.level - 1)]
                                    base = ".".join(parts + ([node.module] if node.module else []))
                                src = (node, a, base, a.name)
                if src is None:
                    continue
                node, alias, base, orig = src
                other = self.mods.get(base)
                if other is None:
                    continue
                defs = [d for d in other.tree.body if isinstance(d, ast.FunctionDef) and d.name == orig]
                if len(defs) != 1:
                    continue
                ups = [a.arg for a in defs[0].args.posonlyargs + defs[0].args.args + defs[0].args.kwonlyargs]
                if ups != ps:
                    continue
                cp = copy.deepcopy(defs[0])
                cp.name = nm
                m.tree.body.append(cp)
                node.names = [a for a in node.names if a is not alias]
                if not node.names:
                    m.tree.body.remove(node)
                cur[nm] = cp
                self.moved_back = getattr(self, "moved_back", []) + ["%s.%s <- %s.%s" % (cont, nm, base, orig)]

    def _unrename_params(self, pinned, current, renames, private):
        """parameters of a private helper that an edit has renamed (same count, same order) get the names the rules know: inside the helper and in
        keyword arguments at its call sites (callee recognised by its short name).  Public functions are API: their parameter names are not touched."""
        todo = {}     # short function name (as currently spelled) -> {new param: old param}
        for cont, names in pinned.items():
            cur = current.get(cont, {})
            back = {v: k for k, v in renames.items()}
            for nm, (ps, cs, bh) in names.items():
                if not private(nm):
                    continue
                cur_name = nm if nm in cur else back.get(nm)
                node = cur.get(cur_name) if cur_name else None
                if node is None or node.args.vararg or node.args.kwarg:
                    continue
                ups = [a.arg for a in node.args.posonlyargs + node.args.args + node.args.kwonlyargs]
                if ups == ps or len(ups) != len(ps):
                    continue
                mp = {u: p_ for u, p_ in zip(ups, ps) if u != p_}
                if set(mp.values()) & (set(ups) - set(mp)):
                    continue      # an old name is still in use for another parameter: not a plain renaming
                local_stores = {x.id for x in ast.walk(node) if isinstance(x, ast.Name) and isinstance(x.ctx, ast.Store)}
                if set(mp.values()) & local_stores:
                    continue      # the old name is a local of the new body
                for a in node.args.posonlyargs + node.args.args + node.args.kwonlyargs:
                    a.arg = mp.get(a.arg, a.arg)
                for x in ast.walk(node):
                    if isinstance(x, ast.Name) and x.id in mp:
                        x.id = mp[x.id]
                if cur_name in todo and todo[cur_name] != mp:
                    todo[cur_name] = None
                else:
                    todo.setdefault(cur_name, mp)
        todo = {k: v for k, v in todo.items() if v}
        if not todo:
            return
        self.renamed_params = todo

        class K(ast.NodeTransformer):
            def visit_Call(self, node):
                self.generic_visit(node)
                f = node.func
                nm = f.id if isinstance(f, ast.Name) else (f.attr if isinstance(f, ast.Attribute) else None)
                if nm in todo:
                    for k in node.keywords:
                        if k.arg in todo[nm]:
                            k.arg = todo[nm][k.arg]
                return node
        for m in self.mods.values():
            m.tree = K().visit(m.tree)

    @property
    def digest(self):
        return self._digest.hexdigest()[:16]

    def _index(self):
        for m in self.mods.values():
            self._index_imports(m)
            self._collect(m, m.tree, m.name, None, None)
        for c in self.classes.values():
            for b in c.node.bases:
                q = self.resolve_name(c.mod, b)
                c.base_quals.append(q)

    def _index_imports(self, m):
        for n in ast.walk(m.tree):
            if isinstance(n, ast.Import):
                for a in n.names:
                    if a.asname:
                        m.imports[a.asname] = a.name
                    else:
                        m.imports[a.name.split(".")[0]] = a.name.split(".")[0]
            elif isinstance(n, ast.ImportFrom):
                base = n.module or ""
                if n.level:
                    parts = m.name.split(".")
                    if not m.is_pkg:
                        parts = parts[:-1]
                    if n.level > 1:
                        parts = parts[: -(n.level - 1)]
                    base = ".".join(parts + ([n.module] if n.module else []))
                for a in n.names:
                    if a.name == "*":
                        m.imports.setdefault("*", [])
                        m.imports["*"].append(base)
                    else:
                        m.imports[a.asname or a.name] = base + "." + a.name
        for n in m.tree.body:
            if isinstance(n, ast.Assign) and len(n.targets) == 1 and isinstance(n.targets[0], ast.Name) and n.targets[0].id == "__all__":
                if isinstance(n.value, (ast.List, ast.Tuple)):
                    m.all = [e.value for e in n.value.elts if isinstance(e, ast.Constant)]

    def _collect(self, m, node, prefix, cls, parent):
        for n in ast.iter_child_nodes(node):
            if isinstance(n, (ast.FunctionDef, ast.AsyncFunctionDef)):
                q = prefix + "." + n.name
                f = Func(q, n, m, cls if parent is None else None, parent)
                if parent is None and cls is not None:
                    f.cls = cls
                    cls.methods[n.name] = f
                elif parent is not None:
                    f.cls = parent.cls
                self.funcs[q] = f
                self._collect(m, n, q, None, f)
            elif isinstance(n, ast.ClassDef):
                q = prefix + "." + n.name
                c = Cls(q, n, m)
                self.classes[q] = c
                self._collect(m, n, q, c, None)
            elif isinstance(n, (ast.If, ast.For, ast.While, ast.With, ast.Try)):
                self._collect(m, n, prefix, cls, parent)

    # -------------------------------------------------------------- array-module names
    def _is_xp_expr(self, e, func, known):
        """expression evaluating to the array module: <anything>.xp, get_array_module(..), a name already known as such, np itself"""
        if isinstance(e, ast.Attribute) and e.attr == "xp":
            return True
        if isinstance(e, ast.Call):
            f = e.func
            nm = f.attr if isinstance(f, ast.Attribute) else (f.id if isinstance(f, ast.Name) else None)
            return nm == "get_array_module"
        if isinstance(e, ast.Name):
            if e.id in known or e.id == "xp":
                return True
            return func is not None and func.mod.imports.get(e.id) in ("numpy",)
        return False

    def xp_names(self, func):
        """names that denote the array module (numpy on the analysed CPU build) inside `func`: locals bound from `<dev>.xp` /
        `get_array_module(..)` (in the function or an enclosing one), and parameters that receive such a value at every call site.
        Decided from bindings, not from the spelling of the name (the historical spelling `xp` is kept as a fallback for snippets)."""
        if func is None:
            return {"xp"}
        cache = self.__dict__.setdefault("_xp_cache", {})
        if func.qual in cache:
            return cache[func.qual]
        cache[func.qual] = {"xp"}  # recursion guard
        names = {"xp"}
        if func.parent is not None:
            names |= self.xp_names(func.parent)
        bound_other = set()
        for n in ast.walk(func.node):
            if isinstance(n, ast.Assign) and len(n.targets) == 1 and isinstance(n.targets[0], ast.Name):
                if self._is_xp_expr(n.value, func, names):
                    names.add(n.targets[0].id)
                else:
                    bound_other.add(n.targets[0].id)
            elif isinstance(n, ast.withitem) and isinstance(n.optional_vars, ast.Name):
                bound_other.add(n.optional_vars.id)
        # parameters: every call site in the package passes an array module
        sites = self.__dict__.setdefault("_call_sites", None)
        if sites is None:
            sites = {}
            for g in self.funcs.values():
                for c in ast.walk(g.node):
                    if isinstance(c, ast.Call) and isinstance(c.func, ast.Name):
                        sites.setdefault(c.func.id, []).append((g, c))
            self._call_sites = sites
        if func.cls is None or func.parent is not None:
            for i, p in enumerate(func.params):
                calls = [(g, c) for g, c in sites.get(func.name, []) if self.resolve_call(g, c) == ("repo", func)]
                if not calls:
                    continue
                ok = True
                for g, c in calls:
                    arg = c.args[i] if i < len(c.args) else next((k.value for k in c.keywords if k.arg == p), None)
                    if arg is None or not self._is_xp_expr(arg, g, self.xp_names(g) if g is not func else names):
                        ok = False
                if ok:
                    names.add(p)
        names -= {n for n in bound_other if n != "xp" and n not in func.params}
        cache[func.qual] = names
        return names

    # -------------------------------------------------------------- lookup
    def mod(self, name):
        if name not in self.mods:
            raise AnchorMissing("module %s not found" % name)
        return self.mods[name]

    def _moved(self, qual):
        """a function that an edit has moved to another module and imports back under the same name is still the function the rules mean:
        `from sigpy._kernels import _spline_kernel` in sigpy/interp.py makes sigpy.interp._spline_kernel that function"""
        if "." not in qual:
            return None
        mod, name = qual.rsplit(".", 1)
        m = self.mods.get(mod)
        if m is None:
            return None
        tgt = m.imports.get(name)
        if isinstance(tgt, str) and tgt in self.funcs and tgt != qual:
            return self.funcs[tgt]
        return None

    def func(self, qual):
        if qual not in self.funcs:
            f = self._moved(qual)
            if f is not None:
                return f
            raise AnchorMissing("function %s not found" % qual)
        return self.funcs[qual]

    def has_func(self, qual):
        return qual in self.funcs or self._moved(qual) is not None

    def cls(self, qual):
        if qual not in self.classes:
            raise AnchorMissing("class %s not found" % qual)
        return self.classes[qual]

    def method(self, cls, name, inherit=True):
        """Find method through the single-inheritance MRO; returns Func or None."""
        c = cls if isinstance(cls, Cls) else self.cls(cls)
        seen = set()
        while c is not None and c.qual not in seen:
            seen.add(c.qual)
            if name in c.methods:
                return c.methods[name]
            if not inherit:
                return None
            nxt = None
            for b in c.base_quals:
                if b in self.classes:
                    nxt = self.classes[b]
                    break
            c = nxt
        return None

    def subclasses(self, base_qual, direct_only=False):
        out = []
        for c in self.classes.values():
            if c.qual == base_qual or c.qual in getattr(self, "abstract", ()):
                continue
            if self.is_subclass(c, base_qual):
                out.append(c)
        return sorted(out, key=lambda c: (c.mod.name, c.node.lineno))

    def is_subclass(self, c, base_qual):
        seen = set()
        stack = [c]
        while stack:
            x = stack.pop()
            if x.qual in seen:
                continue
            seen.add(x.qual)
            if x.qual == base_qual:
                return True
            for b in x.base_quals:
                if b in self.classes:
                    stack.append(self.classes[b])
        return False

    # -------------------------------------------------------------- name resolution
    def _package_export(self, pkg, name, depth=0):
        """Resolve `pkg.name` where pkg is a sigpy package/module: submodule, definition or star re-export."""
        if depth > 4:
            return None
        full = pkg + "." + name
        if full in self.mods or full in self.funcs or full in self.classes:
            return full
        m = self.mods.get(pkg)
        if m is None:
            return None
        if name in m.imports and name != "*":
            tgt = m.imports[name]
            return self._canon(tgt, depth + 1)
        for star in m.imports.get("*", []):
            sm = self.mods.get(star)
            if sm is None:
                continue
            if sm.all is not None and name not in sm.all:
                continue
            r = self._package_export(star, name, depth + 1)
            if r:
                return r
        return None

    def _canon(self, dotted, depth=0):
        """Canonicalise a dotted path that starts at an importable root."""
        parts = dotted.split(".")
        if parts[0] != "sigpy":
            return dotted
        cur = "sigpy"
        for i, p in enumerate(parts[1:], start=1):
            nxt = self._package_export(cur, p, depth)
            if nxt is None:
                return cur + "." + ".".join(parts[i:])
            cur = nxt
        return cur

    def dotted(self, e):
        parts = []
        while isinstance(e, ast.Attribute):
            parts.append(e.attr)
            e = e.value
        if isinstance(e, ast.Name):
            parts.append(e.id)
            return list(reversed(parts))
        return None

    def resolve_name(self, mod, e, func=None):
        """Resolve a Name/Attribute chain to a dotted canonical target.

        Returns e.g. 'sigpy.util.resize', 'numpy.fft.fftn', 'xp.fft.fftn' -> 'numpy.fft.fftn'
        (xp is the array module: numpy on the analysed CPU build), or None.
        """
        parts = self.dotted(e)
        if parts is None:
            return None
        head = parts[0]
        if head == "xp" or (func is not None and head in self.xp_names(func)):
            return "numpy." + ".".join(parts[1:]) if len(parts) > 1 else "numpy"
        # local (nested) function / same-module definition
        if len(parts) == 1:
            f = func
            while f is not None:
                q = f.qual + "." + head
                if q in self.funcs:
                    return q
                f = f.parent
            q = mod.name + "." + head
            if q in self.funcs or q in self.classes:
                return q
        if head in mod.imports and head != "*":
            return self._canon(mod.imports[head] + ("." + ".".join(parts[1:]) if len(parts) > 1 else ""))
        if len(parts) > 1:
            q = mod.name + "." + head
            if q in self.classes:
                return q + "." + ".".join(parts[1:])
        return None

    def resolve_call(self, func, call):
        """Classify the callee of `call` made inside `func` (a Func) .

        Returns (kind, target):
          ('repo', Func) | ('class', Cls) | ('ext', 'numpy.fft.fftn') | ('self', 'name', Func|None)
          | ('method', attrname) | ('opaque', text)
        """
        f = call.func
        mod = func.mod
        if isinstance(f, ast.Attribute) and isinstance(f.value, ast.Name) and f.value.id == "self" and func.cls is not None:
            m = self.method(func.cls, f.attr)
            if m is not None:
                return ("repo", m)
            return ("selfattr", f.attr)
        if isinstance(f, ast.Attribute) and isinstance(f.value, ast.Call) and isinstance(f.value.func, ast.Name) and f.value.func.id == "super":
            if func.cls is not None:
                for b in func.cls.base_quals:
                    if b in self.classes:
                        m = self.method(self.classes[b], f.attr)
                        if m is not None:
                            return ("repo", m)
            return ("opaque", unparse(f))
        q = self.resolve_name(mod, f, func) if isinstance(f, (ast.Name, ast.Attribute)) else None
        if q is not None:
            if q in self.funcs:
                return ("repo", self.funcs[q])
            if q in self.classes:
                return ("class", self.classes[q])
            root = q.split(".")[0]
            if root in ("numpy", "scipy", "pywt", "math", "numba", "time", "warnings", "tqdm", "builtins"):
                return ("ext", q)
            if root == "sigpy":
                return ("opaque", q)
        if isinstance(f, ast.Name):
            return ("name", f.id)
        if isinstance(f, ast.Attribute):
            return ("method", f.attr)
        return ("opaque", unparse(f))

    def bind(self, call, target, skip_self=None):
        """Bind the arguments of `call` to the parameters of `target` (Func, or Cls -> its __init__).

        Returns dict param -> ast expr (defaults filled in from the signature). Raises Unrecognised on
        star-args or unknown keywords.
        """
        if isinstance(target, Cls):
            init = self.method(target, "__init__")
            if init is None:
                raise Unrecognised("class %s has no __init__" % target.qual, call)
            target = init
            skip = True
        else:
            skip = target.cls is not None and target.parent is None and target.params[:1] == ["self"]
        if skip_self is not None:
            skip = skip_self
        ps = target.params[1:] if skip else list(target.params)
        kwonly = [a.arg for a in target.node.args.kwonlyargs]
        out = {}
        pos = list(call.args)
        if any(isinstance(a, ast.Starred) for a in pos) or any(k.arg is None for k in call.keywords):
            raise Unrecognised("star-args in call %s" % unparse(call), call)
        if len(pos) > len(ps) and target.node.args.vararg is None:
            raise Unrecognised("too many positional arguments in %s" % unparse(call), call)
        for p, a in zip(ps, pos):
            out[p] = a
        if len(pos) > len(ps):
            out["*" + target.node.args.vararg.arg] = pos[len(ps):]
        for k in call.keywords:
            if k.arg in ps or k.arg in kwonly:
                out[k.arg] = k.value
            elif target.node.args.kwarg is not None:
                out.setdefault("**" + target.node.args.kwarg.arg, {})[k.arg] = k.value
            else:
                raise Unrecognised("unknown keyword %s in %s" % (k.arg, unparse(call)), call)
        for p, d in target.defaults.items():
            if p not in out:
                out[p] = d
        return out


# ----------------------------------------------------------------------------------------------
# small AST helpers used by many rules
# ----------------------------------------------------------------------------------------------
def resolve_temp(func_node, expr, depth=0):
    """follow single-assignment temporaries: a plain local name that the function assigns exactly once (and that is not a parameter)
    stands for the expression it was assigned (`_r = f(x); return _r` reads as `return f(x)`)"""
    if not isinstance(expr, ast.Name) or depth > 4:
        return expr
    params = {a.arg for a in func_node.args.args + func_node.args.kwonlyargs + func_node.args.posonlyargs}
    if expr.id in params:
        return expr
    defs = []
    for n in walk_no_nested(func_node):
        if isinstance(n, ast.Assign):
            for t in n.targets:
                for x in ast.walk(t):
                    if isinstance(x, ast.Name) and x.id == expr.id:
                        defs.append(n)
        elif isinstance(n, (ast.AugAssign, ast.AnnAssign, ast.For)) and any(isinstance(x, ast.Name) and x.id == expr.id for x in ast.walk(n.target)):
            defs.append(n)
        elif isinstance(n, ast.withitem) and n.optional_vars is not None and any(isinstance(x, ast.Name) and x.id == expr.id for x in ast.walk(n.optional_vars)):
            defs.append(n)
    if len(defs) == 1 and isinstance(defs[0], ast.Assign) and len(defs[0].targets) == 1 and isinstance(defs[0].targets[0], ast.Name):
        return resolve_temp(func_node, defs[0].value, depth + 1)
    return expr


def expand_temps(func_node, expr):
    """copy of `expr` in which every single-assignment temporary is replaced by the expression it stands for"""
    import copy as _copy

    class _Sub(ast.NodeTransformer):
        def __init__(self):
            self.depth = 0

        def visit_Name(self, n):
            if isinstance(n.ctx, ast.Load) and self.depth < 6:
                r = resolve_temp(func_node, n)
                if r is not n:
                    self.depth += 1
                    out = self.visit(_copy.deepcopy(r))
                    self.depth -= 1
                    return out
            return n
    return _Sub().visit(_copy.deepcopy(expr))


def walk_no_nested(node):
    """ast.walk that does not descend into nested function/class definitions (but yields them)."""
    stack = list(ast.iter_child_nodes(node))
    while stack:
        n = stack.pop()
        yield n
        if isinstance(n, (ast.FunctionDef, ast.AsyncFunctionDef, ast.ClassDef, ast.Lambda)):
            continue
        stack.extend(ast.iter_child_nodes(n))


def calls_in(node, nested=False):
    it = ast.walk(node) if nested else walk_no_nested(node)
    return [n for n in it if isinstance(n, ast.Call)]


def returns_in(func_node):
    return [n for n in walk_no_nested(func_node) if isinstance(n, ast.Return)]


def is_self_attr(e, attr=None):
    return (
        isinstance(e, ast.Attribute)
        and isinstance(e.value, ast.Name)
        and e.value.id == "self"
        and (attr is None or e.attr == attr)
    )


def const_value(e, default=None):
    if isinstance(e, ast.Constant):
        return e.value
    if isinstance(e, ast.UnaryOp) and isinstance(e.op, ast.USub) and isinstance(e.operand, ast.Constant):
        return -e.operand.value
    return default
