"""Claim table: what MANIFEST.json says per property. Edited together with the rule modules."""

PENDING = "check not built yet in this session (planned: see DESIGN.md section 4); not claimed until its rule module exists"

CLAIMS = {
    "C01": {
        "engine": "E4 operator descriptors + symbolic Linop algebra, E3 terms, raw-axes typestate",
        "category": "other",
        "technique": "static analysis: symbolic evaluation of every constructor and _adjoint_linop into operator terms; shape-swap, partner-primitive, parameter-forwarding, combinator, involution obligations by canonical-term equality; interprocedural taint analysis of raw axes",
        "text": "Decides, for all 38 Linop classes and every constructor path, that the expression returned by _adjoint_linop has the operator's shapes swapped, is built on "
                "the adjoint partner primitive, receives every configuration value (shifts exchanged, shift negated, flags toggled, inverse permutation), that combinator "
                "adjoints have the mathematically required form, that A.H.H reproduces A's class/shapes/action parameters, that negative axes are normalised before any "
                "order-sensitive use, and that MRI factories use only these classes. It quantifies over all parameter values at once (the tests fix one configuration per class).",
        "design_ref": "DESIGN.md section 4 C01",
        "note": "Structural clauses only: numerical exactness of numpy/scipy/pywt primitives and of the kernels is decided in C05-C10 or trusted. Adjoint partner table and "
                "combinator adjoints are mathematical facts frozen in rules/c01.py. Child operators are assumed to satisfy the same rules (induction over the expression tree).",
    },
    "C02": {
        "engine": "E2 alias/effect analysis + linearity typing",
        "category": "other",
        "technique": "static analysis: interprocedural may-alias/mutation summaries (fixpoint over the call graph), purity check, abstract interpretation over the C-linearity lattice {Z,K,L,A,N}",
        "text": "Decides for every Linop._apply, Prox._prox and public array function of the anchored modules that no path writes through an alias "
                "of an array argument or of an array captured on self (documented out-parameters excepted), that _apply/_prox keep no writable state "
                "and reach no RNG, and that every value an operator returns is C-linear in its input (conj on one side only, .real, abs, +bias are rejected). "
                "This quantifies over all inputs and call histories at once, which sampled tests cannot.",
        "design_ref": "DESIGN.md section 4 C02",
        "note": "Assume/guarantee: opaque callables (child operators, user proxes) do not mutate arguments, which this rule establishes class by class. "
                "numpy view/copy semantics are a table (VIEW_*/copy lists in effects.py). GPU arms pruned. Bit-level determinism of numpy not decided.",
    },
    "C03": {
        "engine": "E4 symbolic Linop algebra, E3 value numbering with loop unrolling, E6 paths, raw-axes typestate",
        "category": "other",
        "technique": "static analysis: symbolic evaluation of the operator overloads; value numbering of Compose/Add/Hstack/Vstack/Diag._apply and of the stacking helpers unrolled over three symbolic operands, compared with the block-matrix reference; must-pass-through on Linop.apply; who-may-call _apply",
        "text": "Decides that the overloads build Compose/Add/Multiply nodes in matrix order, that the five combinators act as the block-matrix expression of three symbolic "
                "children (composition right-to-left, sums, splits at the stored indices for every axis option), that the stacking helpers return the summed shape and running-sum "
                "split indices for positive and negative axes and reject mismatching ranks/sizes, that every constructor validates operands before building, and that every "
                "application passes both shape guards, which raise on any differing dimension. Symbolic children and sizes cover all inputs.",
        "design_ref": "DESIGN.md section 4 C03",
        "note": "Unrolling uses three operands of rank 2 (the loops are uniform in the operand count and rank; this is the stated abstraction). Children are opaque linear maps. "
                "Dense-matrix equality itself is not evaluated.",
    },
    "C04": {
        "engine": "E4 symbolic Linop algebra",
        "category": "other",
        "technique": "static analysis: symbolic evaluation of _normal_linop of every class into operator terms; admissibility of Identity shortcuts against a table of unitary/isometric primitives; palindrome check of the Toeplitz chain",
        "text": "Decides that the default normal operator is self.H * self, that N/H cache exactly their defining methods, that every Identity shortcut sits on a primitive "
                "that is unitary for all parameters (block gather/scatter is rejected), that NUFFT's Toeplitz operator is B^H Multiply(psf) B with psf computed from the "
                "operator's own coord/ishape/oversamp/width over the last ndim axes, and that consumers cannot mutate a cached A.N. All parameters and inputs are covered at once.",
        "design_ref": "DESIGN.md section 4 C04",
        "note": "Not decided: the interpolation accuracy of the Toeplitz embedding. Unitary/isometry table is a list of mathematical facts in rules/c04.py; FFT unitarity relies on norm='ortho' (C05).",
    },
    "C05": {
        "engine": "E3 value numbering",
        "category": "other",
        "technique": "static analysis: canonical-term comparison of fft/ifft/_fftc/_ifftc (all paths) and of the centred resize with one documented template per pair; signature-default and forwarding checks",
        "text": "Decides that the centred transforms are resize -> ifftshift -> (i)fftn -> fftshift over one normalised axes tuple with the norm forwarded, that fft/ifft are instances of one template "
                "(mirror images), that the defaults are centred and orthonormal and the operators forward only axes/center, that real input is promoted under a not-complex guard and the result is "
                "cast back to the input's complex dtype, that the non-centred path passes s, axes, norm, and that zero-pad/crop is aligned at n//2. Every shape/axes/norm/dtype combination is covered by the path enumeration.",
        "design_ref": "DESIGN.md section 4 C05",
        "note": "numpy.fft (fftn/ifftn/fftshift/ifftshift) is trusted; equality with the DFT matrix follows from the pipeline identity fftshift . fftn . ifftshift (a mathematical fact) and is not evaluated numerically.",
    },
    "C06": {
        "engine": "E3 value numbering + loop summaries",
        "category": "other",
        "technique": "static analysis: canonical-term comparison of nufft, nufft_adjoint, _get_oversamp_shape, _scale_coord, _apodize and toeplitz_psf with the documented (Beatty et al.) pipelines; beta formula identity",
        "text": "PARTIAL. Decides the structural clause: nufft and nufft_adjoint are exactly the documented step sequences with one kernel width, one beta (Beatty's formula), one oversampled grid "
                "ceil(oversamp n), coordinates scaled and shifted to that grid, apodisation x/sinh(x) centred at n//2, FFT over the last ndim axes without normalisation, and the adjoint's scaling "
                "prod(os_shape) N^-1/2 that makes it the exact adjoint; toeplitz_psf composes both with one parameter set. These are necessary for the stated accuracy and for exact adjointness and hold for all inputs.",
        "design_ref": "DESIGN.md section 4 C06",
        "note": "NOT decided: the numerical accuracy figures (3 % / 0.3 %) and periodicity - they depend on the approximation quality of Kaiser-Bessel gridding, which no static argument in reach bounds. "
                "The kernels (C07), resize (C09) and fft (C05) are decided in their own properties.",
    },
    "C07": {
        "engine": "E3 value numbering + kernel loop-nest summaries (kernelsum.py)",
        "category": "other",
        "technique": "static analysis: symbolic loop-nest summaries of the six numba kernels compared with the documented per-axis formula generated for rank 1-3 (window, weight product, wrapped index, accumulate), duality check, canonical-term comparison of the kernel functions and wrappers with their documented forms",
        "text": "Decides for all six CPU kernels that the loop nest visits exactly the documented window ceil(c-W/2)..floor(c+W/2) on every axis, weights by the product of K((i-c)/(W/2), p) with the "
                "axis' own coordinate/width/parameter, wraps each index by its own axis size at the right position, accumulates with +=, and that gridding is interpolate with source and target "
                "exchanged (identical weights); the spline and Kaiser-Bessel functions equal their documented piecewise/polynomial forms including the coefficient table; the registry maps "
                "names and ranks correctly; the wrappers flatten, broadcast, zero-initialise and reshape as documented. Holds for all coordinates, widths and data.",
        "design_ref": "DESIGN.md section 4 C07",
        "note": "CUDA kernels out of scope. numba is trusted to compile the Python kernels faithfully (np.ceil/floor, range, % semantics). The Bessel polynomial is compared as text-independent exact rationals; "
                "its approximation quality is the cited reference's.",
    },
    "C08": {
        "engine": "E3 value numbering, loop-nest summaries, E4 shape summaries",
        "category": "other",
        "technique": "static analysis: canonical-term comparison of _get_convolve_params with its documented form on every path; per-path constant propagation of the adjoint mode and buffer size; loop-nest summaries of the three CPU convolution routines; who-passes-what at all call sites; shape-term agreement of all producers",
        "text": "Decides that the output-length formulas, channel/stride/orientation rejections of _get_convolve_params are the documented ones, that every call site passes (data-side, filter-side) "
                "shapes in this order, that all four operators and the forward routine advertise b + (c_o,) + p / b + p from that helper, that the adjoint correlation mode follows the exact table "
                "over {full, valid with data >= filter, valid with data < filter} for both adjoints with the unstrided buffer size, and that the loops accumulate convolve(...)[slc] in the forward and "
                "the conjugating correlate on the buffer zero-stuffed at the same stride slice in the adjoints, with consistent (batch, c_o, c_i) indexing. All shapes, strides, channels and values are covered.",
        "design_ref": "DESIGN.md section 4 C08",
        "note": "scipy.signal.convolve/correlate are trusted (correlate conjugates its second argument). cuDNN paths are out of scope.",
    },
    "C09": {
        "engine": "E3 value numbering, kernel loop-nest summaries, role inference for dispatch (axis tags)",
        "category": "other",
        "technique": "static analysis: canonical-term comparison of resize/downsample/upsample/_normalize_axes with their documented forms; unrolled evaluation of flip/circshift; loop-nest summaries of the six block kernels with per-axis role inference (count/size/stride) checked against the dispatch sites; shape-formula agreement across sites",
        "text": "Decides that resize uses the centre-aligned default shifts, copy window and zero-initialised output; that down/upsample use the same strided slices (upsample into zeros); that flip reverses "
                "exactly the normalised axes and circshift rolls each (axis, shift) pair; that for all six CPU block kernels the input index of axis -k is n*S+b with that axis' own count, size and stride "
                "(roles inferred from the kernel body and matched with what the dispatch site passes), with the bounds test of that axis, that the scatter kernels iterate the inverse image "
                "b in range(i % S, B, S), n = (i-b)//S, 0 <= n < N and accumulate with +=, and that (N-B+S)//S is one formula at its three sites. All shapes, strides (overlapping, gapped) and values are covered.",
        "design_ref": "DESIGN.md section 4 C09",
        "note": "CUDA kernels out of scope; numba compiles the Python kernels faithfully; numpy slicing/roll semantics trusted.",
    },
    "C10": {
        "engine": "E3 value numbering + E4 shape summaries",
        "category": "other",
        "technique": "static analysis: canonical-term comparison of get_wavelet_shape/fwt/iwt with their documented pipelines; parameter-tuple and default agreement across the five sites; shape/slice provenance of the operators",
        "text": "PARTIAL. Decides that the shape helper, fwt, iwt and both operators use one (wave_name, axes, level) tuple with identical defaults, mode='zero' at every pywt call, axes at "
                "wavedecn/coeffs_to_array/waverecn, the same even-padding formula and the same centred resize for padding and cropping, and that the inverse operator reconstructs with the coefficient "
                "slices the helper computed for its own arguments. A mismatch in any of these breaks invertibility/adjointness for some shape, family, axes or level; the check covers all of them at once.",
        "design_ref": "DESIGN.md section 4 C10",
        "note": "NOT decided: orthonormality of PyWavelets' filters and that zero-mode analysis/synthesis on even lengths are mutually adjoint isometries (library facts, trusted).",
    },
    "C11": {
        "engine": "E6 paths, shape-provenance domain, E3 value numbering",
        "category": "other",
        "technique": "static analysis: must-pass-through on Prox.__call__; abstract interpretation over the shape-provenance lattice {Same, Flat, ?} with interprocedural summaries; eigensolver typestate; canonical-term comparison of every _prox and thresholding function with its documented closed form",
        "text": "Decides that every proximal call is guarded by input and output shape checks, that no thresholding function or _prox can return the ravelled input on any path, "
                "that eigenvectors recombined through their conjugate transpose come from eigh, and that all 11 Prox classes and 8 thresholding functions equal their documented "
                "closed forms (Moreau identity, soft/hard threshold, l2 rescale, l-infinity residual, Duchi threshold search, PSD clipping, L2Reg with rescaled inner step, Stack order, "
                "UnitaryTransform A^H prox A) as canonical terms on every path, i.e. for all alpha, parameters and inputs.",
        "design_ref": "DESIGN.md section 4 C11",
        "note": "Trusted: that the documented closed forms are the minimisers (convex analysis), numpy sort/cumsum/eigh/clip. E3 equality is sound but incomplete: an algebraically "
                "different yet equivalent rewrite outside the axioms of DESIGN 2.3 would be reported.",
    },
    "C13": {
        "engine": "E3 value numbering + E2 alias analysis",
        "category": "other",
        "technique": "static analysis: path-sensitive value numbering of GradientMethod/PrimalDualHybridGradient._update and __init__ into canonical terms compared with the published iterations; mirror check of the two acceleration branches by symbol substitution; alias analysis for in-place discipline",
        "text": "PARTIAL. Decides the structural clause only: on every path one update of GradientMethod equals the (accelerated) proximal-gradient step and one update of the primal-dual "
                "method equals the Chambolle-Pock step with both strong-convexity accelerations (mirror images of each other), constructor state is as documented, and the caller's "
                "x / u are updated in place only. This is a necessary condition of the convergence statements (a wrong momentum, extrapolation or step rescaling breaks them) and holds for all inputs.",
        "design_ref": "DESIGN.md section 4 C13",
        "note": "NOT decided: every rate, monotonicity and convergence statement of the property (they quantify over runtime histories; trusted theory given the update forms). "
                "E3 equality is sound and incomplete (an equivalent but differently factored iteration would be reported).",
    },
    "C14": {
        "engine": "E3 value numbering + E4 symbolic Linop algebra",
        "category": "other",
        "technique": "static analysis: per-path symbolic evaluation of every solver set-up method (operators as Linop terms, proxes and algorithms as constructor terms, closures as lambda terms), compared argument by argument with the documented system for that solver",
        "text": "Decides, for each of the four solver set-ups and every path over {lamda, z, proxg, G, tau, sigma, alpha given or not}, that the constructed algorithm receives exactly the "
                "operators, right-hand sides, gradients, proximal operators, strong-convexity constants, default step sizes and constraint operators of the documented objective "
                "0.5||Ax-y||^2 + g(Gx) + lamda/2||x-z||^2, that unsupported combinations raise, that self.alg is built on self.x and _output returns it. "
                "Symbolic A, G, y, z, proxg cover all problem instances; the suite samples three configurations.",
        "design_ref": "DESIGN.md section 4 C14",
        "note": "Relies on C03/C04 (operator algebra, A.N = A^H A), C11 (prox closed forms), C12/C13/C15 (the algorithms solve what they are given). Not decided: the numerical optimality gap after finitely many iterations.",
    },
    "C15": {
        "engine": "E6 paths, E3 value numbering, E2 effects",
        "category": "other",
        "technique": "static analysis: who-may-write on the iteration counter; value numbering of every _done into a disjunction; proportionality test (canonical terms) between the stopping measure and the change of each in-place solution array; path rules on Alg.update and App.run",
        "text": "Decides that only Alg.update advances iter (by one, after _update), that all _done definitions contain the budget test with >=, that every tolerance-based "
                "stopping measure which is a norm of state differences contains the change of every caller-provided solution array the update rewrites in place (so stopping at tol=0 "
                "means nothing moved), that other early exits are breakdown flags set before an early return, that App.run performs one update per guarded iteration and returns "
                "_output(), and that PowerMethod normalises by the quantity it reports. These hold for every problem instance and call interleaving because they are facts about all paths.",
        "design_ref": "DESIGN.md section 4 C15",
        "note": "Not decided: monotonicity/upper bound of the power-iteration estimate (numerical). Optimality-residual measures (CG sqrt<r,z>, Newton decrement, GS misfit) are accepted as "
                "fixed-point certificates by their mathematics. SDMM's eps criterion is outside the tol clause and skipped with an INFO line.",
    },
    "C12": {
        "engine": "E3 value numbering + E2 alias analysis",
        "category": "other",
        "technique": "static analysis: path-sensitive value numbering of _update into canonical terms, compared with the reference PCG recurrence; alias analysis for in-place discipline",
        "text": "Decides the structural clause: on every path of ConjugateGradient._update the new (x, r, p, rz, resid, breakdown flag) "
                "equal the textbook preconditioned-CG step as canonical terms; __init__ state, in-place update of the caller's x, "
                "private copy of p, breakdown guard before any write and the _done disjunction are checked likewise. Holds for all inputs "
                "because the comparison is symbolic over the source, which the sampled tests cannot do.",
        "design_ref": "DESIGN.md section 4 C12",
        "note": "Trusted: the theorem that the PCG recurrence gives the Krylov-optimal iterate; exact arithmetic (rounding not decided); "
                "numpy vdot/real semantics. An algebraically different but equivalent recurrence would be reported (E3 equality is sound, incomplete).",
    },
    "C16": {
        "engine": "E4 symbolic Linop algebra + E3 value numbering",
        "category": "other",
        "technique": "static analysis: symbolic evaluation of the Sense factory on every path over {ishape, coord, weights, coil_batch_size} into operator terms compared with the documented composition; canonical-term comparison of the recon constructors' preamble and regulariser wiring",
        "text": "PARTIAL. Decides that Sense builds sqrt(weights) * (FFT over the image axes | NUFFT(coord)) * Multiply(mps) with the weights outermost, that the batched variant is the Vstack along the "
                "coil axis of Sense operators on consecutive coil slices (ceil(num_coils/batch) batches) forwarding coord, weights and ishape unchanged, that the three recon apps multiply the data by "
                "the same sqrt(weights) they hand to the operator (estimated as the sampling mask when absent), forward coord/coil_batch_size/comm/transp_nufft, and wire (W, lamda) / (G, lamda) into "
                "LinearLeastSquares consistently. Holds for all shapes, coil counts, batch sizes and data.",
        "design_ref": "DESIGN.md section 4 C16",
        "note": "NOT decided: that the recon output is the minimiser (inherits C14 routing and solver convergence). Restricted to tseg=None, comm=None, transp_nufft=False (the property's quantifier); "
                "that batching drops tseg/transp_nufft is reported as INFO.",
    },
    "C17": {
        "engine": "E3 value numbering (one symbolic loop iteration)",
        "category": "other",
        "technique": "static analysis: canonical-term comparison of EspiritCalib.__init__ (calibration matrix, SVD truncation, Gram matrices, iterate, per-voxel norm, PowerMethod wiring) and _output with the documented construction; algebraic identity z conj(z/|z|) = |z| in the term normal form",
        "text": "PARTIAL. Decides that the power iteration normalises per voxel by sqrt(sum |x|^2) over axis -2, which is the coil axis of the iterate ones(ksp.shape[::-1]+(1,)), that this norm is the "
                "one PowerMethod divides by (C15/T5), that _output rotates every voxel by conj(m0/|m0|) - making coil 0 equal |m0|, real and non-negative, by an identity proved in the term algebra - and "
                "multiplies by the strict mask max_eig > crop, and that Gram matrices, calibration matrix and SVD truncation are built as documented. Hence unit-norm-or-zero and the phase reference hold for every input after at least one update.",
        "design_ref": "DESIGN.md section 4 C17",
        "note": "NOT decided: eigenvalues within [0,1], agreement with the true maps in the interior (numerical), conditioning of the calibration matrix.",
    },
    "C18": {
        "engine": "binary-valued abstract domain, E3 value numbering with one symbolic loop iteration, path events",
        "category": "proof",
        "technique": "static analysis: abstract interpretation over the binary-valued lattice {Bin, ?} with a summary for _poisson; value numbering of poisson with the search loop abstracted by one symbolic iteration, checking that every returning path carries |size/sum(mask) - accel| < tol for the returned mask; get_state/set_state pairing over path events; statement-order rules for seeding and cropping",
        "text": "Proves (sound for all inputs, by abstract interpretation) that the returned mask contains only 0/1, that no path can return unless the acceleration of the very mask returned is within tol "
                "(all other paths raise), that the global NumPy RNG state saved under `seed is not None` is restored with that same value on every returning path, that the seed is forwarded and applied before "
                "the first draw, that the corner crop r < 1 is applied after the last mask definition and before the accuracy test, and that only the literal 1 is ever stored into the mask.",
        "design_ref": "DESIGN.md section 4 C18",
        "note": "Trusted base: python ast, the abstract transfer functions in domains.py/vn.py, numpy semantics of zeros/reshape/astype/comparison. Not decided: that the calibration block lies inside r < 1 (numeric), "
                "reproducibility of numba's generator (numba seeds its own RNG from the same call). The error paths do not restore the RNG state (INFO).",
    },
    "C19": {
        "engine": "E3 term algebra + value numbering of one loop iteration",
        "category": "other",
        "technique": "static analysis: value numbering of one time-step of each of the five Bloch simulators and of the ab2rf peel step over a symbolic Cayley-Klein pair; extraction of the 2x2 coefficient matrix; the three unitarity identities M^H M = I closed by the canonical normal form (conjugation, rational exponents, cos^2 = 1 - sin^2, exp merging, denominator clearing)",
        "text": "PARTIAL. Decides (for all RF, gradient and position values, by algebraic normalisation) that every per-sample state update in abrm, abrm_nd, abrm_hp, abrm_ptx and optcont.blochsim, the "
                "statements after their time loops (rewinder, total phase), and the backward-recursion step of ab2rf are linear maps of (alpha, beta) with M^H M = I, that phase factors are exp(i*real), and "
                "that every simulator starts from the identity rotation - hence |alpha|^2 + |beta|^2 = 1 at every position and the zero pulse without gradients is the identity.",
        "design_ref": "DESIGN.md section 4 C19",
        "note": "NOT decided: that hard-pulse simulation inverts the SLR design, composition of back-to-back waveforms, dzrf ripple relations. Regularisers eps are read as 0 and the isinf masks of abrm_ptx "
                "(phi = 0 samples) are outside the generic case. Level 'other' overall; the unitarity obligations themselves are proved by normalisation.",
    },
    "C20": {
        "engine": "endpoint-zero abstract domain (per path), E3 linearity of sum",
        "category": "proof",
        "technique": "static analysis: path enumeration with an endpoint-zero abstract domain {Z,?}^2 over linspace/concatenate/scaling; exact-area identity sum(trap)*dt = area closed in the term normal form by linearity of sum over scalar factors",
        "text": "PARTIAL, proof level for the two clauses it decides: on every positive-area path the waveform returned by trap_grad and min_trap_grad provably starts and ends at zero, and it integrates "
                "to exactly the requested area (total area for trap_grad, area under the flat top - the middle piece - for min_trap_grad) for all area, gmax, dgdt, dt, by an algebraic identity; "
                "spokes_grad is assembled from these designers with the documented areas and limits.",
        "design_ref": "DESIGN.md section 4 C20",
        "note": "NOT decided: the amplitude bound |g| <= gmax and the slew-rate bound (inequalities over ceil-rounded runtime quantities: no sound static bound in reach), and the k-space increments of "
                "spokes_grad. Trusted: numpy linspace/concatenate semantics; divisions are by non-zero finite scalars. The rampsamp=0 arm of trap_grad is unreachable from its public signature and is skipped.",
    },
}

NOT_APPLICABLE = {p: PENDING for p in ["C%02d" % i for i in range(1, 21)]}


# ------------------------------------------------------------------------------------------------------------------
# Rules added after the first build (see DESIGN.md section 9): appended to the claim texts above
# ------------------------------------------------------------------------------------------------------------------
_ADDED = {
    "C01": " Also decides (A9) that the self-paired classes MatMul, RightMatMul and Multiply use the conjugate (transpose) of their array exactly when their adjoint/conj flag is "
           "set - the flag the adjoint constructor toggles - so a missing or input-dependent conjugate is reported.",
    "C02": " Also decides (M3) that no returned value is selected by a branch on the input's dtype or values (piecewise maps are not C-linear), and (M5) that no buffer allocated "
           "with empty/empty_like can reach an output without being overwritten in full; overwrite_* switches of scipy/numpy count as writes to the operand.",
    "C03": " Also decides that Add/Hstack sum block results out of place (G2a), that Vstack/Diag store (slice_k, block_k) into one buffer of shape self.oshape whose dtype is taken "
           "and widened from the block results (G2d/G2h), and that blocks are flattened exactly when the output is flat, in C order.",
    "C04": " Also decides (N3b) that toeplitz_psf itself is the documented nufft_adjoint(nufft(delta)) pipeline on the 2x grid of the whole input shape.",
    "C06": " Also decides (U5) that the Kaiser-Bessel kernel is the Abramowitz-Stegun polynomial form of I0(beta sqrt(1 - x^2)); constant-range loops are unrolled, so a series "
           "written as a loop is compared term by term with the documented polynomial.",
    "C15": " Also decides (T3z, a must-alias analysis over every method of every Alg subclass) that no progress measure is a difference of two names for the same storage: a "
           "'snapshot' bound without a copy, or a shallow list copy whose elements are afterwards overwritten in place, makes the difference zero for every input.",
    "C19": " Also decides (Q5) that ab2rf emits for each step the hard pulse 2 atan2(|s|, c) exp(i angle(s)) of the very matrix (c, s) it peels (one conjugation convention for the "
           "recursion and the pulse). State variables, regularisers and temporaries are identified by their role in the data flow, never by their names.",
    "C20": " For min_trap_grad the amplitude and slew clauses are decided too: the plateau is guarded by max(flat) <= gmax or built with ceil(area/gmax/dt) samples (Z4), and the ramps "
           "rise to exactly the plateau in ceil(A/dgdt/dt) steps (Z5), both by the lemma Y/ceil(Y/L) <= L; the designers carry no memoising decorator (Z6).",
}
_NOTE_REPLACED = {
    "C20": "NOT decided: the amplitude and slew bounds of trap_grad in its TRIANGLE regime (area/((R'+1) dt) <= gmax needs the regime condition ramppts*dt*gmax > area together "
           "with two different ceil-rounded ramp counts; no proof by the two rounding lemmas was found) and the k-space increments of spokes_grad. Trusted: numpy linspace/concatenate semantics; the arithmetic lemma ceil(X) >= X; divisions are by non-zero "
           "finite scalars. Paths on which trap_grad reads its ramp-sampling flag before binding it, or branches against the constant just assigned to it, cannot return and are skipped.",
}
_ADDED2 = {
    "C01": " An identity shortcut in an _apply (returning the input unchanged) is admitted only for Multiply by the scalar 1.",
    "C02": " A return statement chosen by a branch on the input's dtype/values makes the map piecewise and is rejected (a cast to the common result_type is not such a branch).",
    "C03": " _combine_compose_linops keeps every operand (G4c), so validating the flattened chain is validating the given one.",
    "C04": " The closures LinearLeastSquares builds around A.N never update an operator result in place (N4b): an Identity normal operator returns the iterate itself.",
    "C05": " FFT and IFFT name each other as adjoint with the same shape, axes and center flag (F6).",
    "C06": " nufft, nufft_adjoint and toeplitz_psf never write through their array arguments (U6, interprocedural effect analysis).",
    "C09": " In the scatter kernels a `break` is admitted only under `block number < 0` (it keeps decreasing along the offset loop); `continue` guards are unrestricted.",
    "C13": " No two state arrays of GradientMethod / PDHG are one object at the end of __init__ or _update (S6, must-alias information of the value numbering), and no "
           "_update updates in place a value that A, AH, gradf or a prox returned (S7).",
    "C14": " The functions handed to the algorithms (gradf, minL_x, ...) never update an operator result or their own argument in place (L5).",
    "C15": " Alg.__init__ stores the budget it is given and starts the counter at 0 (T6).",
    "C16": " The recon constructors and Sense never write the caller's k-space, maps, weights or coordinates (E4); because sigpy/app.py is an anchor of this property the "
           "routing rules of C14 are run as part of this check as well.",
    "C18": " No function of mri/samp.py is memoised or keeps results in module-level state (B5).",
    "C19": " No simulator / SLR function is memoised or keeps work buffers in module-level state (Q6).",
}
_ADDED3 = {
    "C03": " The allocate-or-widen helper of the stacked output keeps the buffer only when result_type(buffer, block) is the buffer's own dtype (G2h).",
    "C06": " The interpolation / gridding loops nufft relies on (anchor sigpy/interp.py) are checked with C07's kernel rules I1-I7 as part of this property.",
    "C07": " linop.Interpolate / linop.Gridding apply the two functions with the constructor's coord, kernel, width, param and hand the same four values to the partner "
           "they name as adjoint (I8).",
    "C09": " The operator classes Resize, Flip, Circshift, Downsample, Upsample, ArrayToBlocks, BlocksToArray add nothing of their own: _apply is the function applied "
           "to the input with exactly the constructor's arguments (X8); circshift keeps shift k with the k-th listed axis also when the axes are listed out of order (X3).",
    "C10": " Wavelet and InverseWavelet name each other as adjoint for the same shape, wave_name, axes and level (W3).",
    "C14": " MaxEig, which supplies every default step size, starts its power iteration from a random vector over A.ishape (L6); because sigpy/alg.py is an anchor, the "
           "update rules of the solvers LinearLeastSquares routes to (C12: preconditioned CG step; C13: proximal-gradient and primal-dual updates) are evaluated as part of this check.",
    "C15": " An attribute a solver's constructor binds to a caller-supplied array and its methods update in place is never rebound outside the constructor (T7: the caller "
           "keeps holding the solution the algorithm holds); the CG update and its breakdown test (C12's rules) are evaluated as part of this check; a stopping test that "
           "calls super()._done() is read as the disjuncts the parent returns.",
    "C17": " PowerMethod._update (sigpy/alg.py), whose iterate the maps are, is y = A(x); x <- y / norm_func(y) for the same y (H5).",
    "C18": " poisson draws nothing from numpy's global stream outside its get_state()/set_state() bracket (B3).",
    "C19": " abrm_hp's phase after the time loop is minus one half of the sum over the loop of the per-sample precession phase (Q7), so the reported pair carries no "
           "length-dependent spurious phase.",
    "C20": " In the trapezoid regime of trap_grad the plateau amplitude area/(sum(pulse) dt) is <= gmax (Z7: gmax dt sum(pulse) - area >= gmax dt > 0, from the flat-top "
           "count being the required length rounded up) and the ramps change by at most dgdt dt per sample (Z8: R = ceil(gmax/(dgdt dt)) ramp samples, plateau joined at "
           "the same value); both by the lemmas ceil(x) >= x and int(n) = n for integer-valued n.",
}
_ADDED4 = {
    "C03": " Diag takes both of its shapes from the stacking helpers with the axes the caller gave and stores those axes unchanged (a valid axis 0 never becomes None); "
           "Linop.apply returns exactly what _apply returned, and Linop.__init__ stores fresh copies of the shape lists.",
    "C11": " Prox constructors store the parameters they keep under their own name unchanged (P5), and no _prox / thresholding function writes to its arguments or to "
           "the stored parameters (P6).",
    "C18": " The bisection over the slope terminates for unsatisfiable requests: the loop leaves when the midpoint equals an end of the bracket (B2t), so the failure "
           "is reported by the ValueError after the loop (defect 14, repaired).",
}
_ADDED5 = {
    "C01": " The helpers that choose the sum axes of the Multiply / MatMul adjoints return exactly the broadcast axes of the input on a finite family of concrete "
           "shape pairs (ranks 0-2, and 2 against 3, extents {1, 3}; all rank-3 shapes in the thorough tier), decided by constant folding of the helpers' own "
           "source with loops unrolled (A3c: bounded exhaustive, nothing is executed).",
    "C15": " NewtonsMethod._update equals its documented form path by path: a negative Newton decrement raises on every path, and the step is the backtracked "
           "Newton direction (T8).",
    "C19": " abrm's rewinder for balanced sequences precesses by minus half of the total gradient area applied during the pulse (Q8), and no simulator rebinds or "
           "writes its data arguments rf, g, x, y (Q9: the time loop indexes the layout the caller gave).",
}
for _k, _v in _ADDED5.items():
    _ADDED4[_k] = _ADDED4.get(_k, "") + _v
for _k, _v in _ADDED4.items():
    _ADDED3[_k] = _ADDED3.get(_k, "") + _v
for _k, _v in _ADDED3.items():
    _ADDED2[_k] = _ADDED2.get(_k, "") + _v
for _k, _v in _ADDED2.items():
    _ADDED[_k] = _ADDED.get(_k, "") + _v
for _k, _v in _ADDED.items():
    CLAIMS[_k]["text"] = CLAIMS[_k]["text"] + _v
for _k, _v in _NOTE_REPLACED.items():
    CLAIMS[_k]["note"] = _v
for _k in CLAIMS:
    CLAIMS[_k]["text"] = CLAIMS[_k]["text"] + " Also decided for the code this property's anchor files reach through the resolved call graph: the shared helpers of " \
        "sigpy/util.py and sigpy/backend.py equal their documented forms (SH: vec, split, prod, rss, _expand_shapes, _normalize_axes, axpy, xpay, dirac, randn, copyto, " \
        "get_device, get_array_module), the Linop / Prox / Alg / App base classes keep their contracts (G1, G3, N1, P1, T1, T4), numba decorators carry no " \
        "meaning-changing option (SJ), no mutable default argument or class-level container is written (SD), no closure created in a loop reads the loop variable (SL), " \
        "in-place writes never target a ravel()/reshape() temporary (SW), public names are re-exported unshadowed (SR), default argument values are the documented ones (SG); " \
        "and where that code reaches the core functions another property certifies (centred FFT, index maps, interpolation kernels, nufft, convolution, wavelet, proximal " \
        "operators, solver updates, operator classes and their algebra, normal operators, LinearLeastSquares routing) that property's rules are evaluated as part of this " \
        "check (evidence: extra.inherited_checks)."
for _k in CLAIMS:
    CLAIMS[_k]["note"] = CLAIMS[_k]["note"] + " Local variable names are never relied on: values are identified by role (what is returned, passed on, or stored) or after aligning the " \
        "function with the rule's reference text; the whole-tree rewrites of tools/benign_global.py (re-emission, renaming of every local, branch and comparison flipping, hoisted returns) leave every check silent; a private helper (or its parameters) renamed by an edit is recognised by its parameter list, callees and body digest and read under its old name."
