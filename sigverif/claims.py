"""Claim table: what MANIFEST.json says per property. Edited together with the rule modules."""

PENDING = "check not built yet in this session (planned: see DESIGN.md section 4); not claimed until its rule module exists"

CLAIMS = {
    "C12": {
        "engine": "E3 value numbering + E2 alias analysis",
        "category": "other",
        "technique": "static analysis: path-sensitive value numbering of _update into canonical terms, compared with the reference PCG recurrence; alias analysis for in-place discipline",
        "text": "Decides the structural clause: on every path of ConjugateGradient._update the new (x, r, p, rz, resid, breakdown flag) "
                "equal the textbook preconditioned-CG step as canonical terms; __init__ state, in-place update of the caller's x, "
                "private copy of p, breakdown guard before any write and the _done disjunction are checked likewise. Holds for all inputs "
                "because the comparison is symbolic over the source, which the sampled tests cannot do.",
        "design_ref": "DESIGN.md section 4 C12",
        "note": "Trusted: the theorem that the PCG recurrence gives the Krylov-optimal iterate; exact arithmetic (rounding not decided); "
                "numpy vdot/real semantics. An algebraically different but equivalent recurrence would be reported (E3 equality is sound, incomplete).",
    },
}

NOT_APPLICABLE = {p: PENDING for p in ["C%02d" % i for i in range(1, 21)]}
