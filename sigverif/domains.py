"""Small abstract domains: shape provenance (C11), binary-valued arrays (C18), endpoint-zero (C20)."""
import ast

from .model import Unrecognised, is_self_attr, unparse

# ---------------------------------------------------------------------------------------------
# shape provenance: does a value still have the shape of the function's array input?
#   SAME  shape of the input          FLAT  ravelled input          SHAPE the tuple input.shape
#   UNK   anything else (scalars, other arrays)
# ---------------------------------------------------------------------------------------------
SAME, FLAT, SHAPE, UNK = "Same", "Flat", "ShapeOfInput", "?"

ELEMENTWISE_EXT = {"abs", "absolute", "conj", "conjugate", "real", "imag", "sqrt", "exp", "clip", "sign", "maximum", "minimum",
                   "where", "multiply", "add", "subtract", "divide", "angle", "square", "copy", "asarray", "ascontiguousarray", "astype"}


class ShapeProv:
    def __init__(self, model, func, input_name="input", summaries=None, depth=0):
        self.M = model
        self.f = func
        self.env = {input_name: SAME}
        self.input_name = input_name
        self.returns = []
        self.summaries = summaries if summaries is not None else {}
        self.depth = depth

    def comb(self, a, b):
        """elementwise combination (broadcast with scalars / other arrays)"""
        if FLAT in (a, b):
            return FLAT if SAME not in (a, b) else UNK
        if SAME in (a, b):
            return SAME
        return UNK

    def v(self, e):
        if e is None or isinstance(e, ast.Constant):
            return UNK
        if isinstance(e, ast.Name):
            return self.env.get(e.id, UNK)
        if isinstance(e, ast.Attribute):
            b = self.v(e.value)
            if e.attr == "shape" and b == SAME:
                return SHAPE
            if e.attr in ("real", "imag") and b in (SAME, FLAT):
                return b
            if e.attr == "T":
                return UNK if b == SAME else b
            return UNK
        if isinstance(e, ast.BinOp):
            if isinstance(e.op, ast.MatMult):
                return UNK
            return self.comb(self.v(e.left), self.v(e.right))
        if isinstance(e, ast.UnaryOp):
            return self.v(e.operand)
        if isinstance(e, ast.IfExp):
            a, b = self.v(e.body), self.v(e.orelse)
            return a if a == b else (FLAT if FLAT in (a, b) else UNK)
        if isinstance(e, ast.Subscript):
            b = self.v(e.value)
            # boolean-mask / integer indexing changes shape; keep only unknown
            return UNK
        if isinstance(e, ast.Compare):
            out = self.v(e.left)
            for c in e.comparators:
                out = self.comb(out, self.v(c))
            return out
        if isinstance(e, ast.Call):
            return self.call(e)
        return UNK

    def call(self, c):
        f = c.func
        args = c.args
        if isinstance(f, ast.Attribute):
            head = self.M.dotted(f.value)
            is_mod = head is not None and head[0] in self.f.mod.imports or (head is not None and head[0] in ("xp", "np"))
            if not is_mod:
                b = self.v(f.value)
                if f.attr in ("ravel", "flatten"):
                    return FLAT if b in (SAME, FLAT) else UNK
                if f.attr == "reshape":
                    a0 = self.v(args[0]) if args else UNK
                    if a0 == SHAPE:
                        return SAME
                    txt = unparse(args[0]) if args else ""
                    if txt in ("-1", "[-1]", "(-1,)") and b in (SAME, FLAT):
                        return FLAT
                    return UNK
                if f.attr in ("copy", "conj", "conjugate", "astype", "clip", "round"):
                    return b
                if is_self_attr(f.value) or b == UNK:
                    # opaque callable held on self (self.prox(alpha, x), self.A.H(x)): shape-preserving by contract
                    # (Prox.__call__ checks the output shape; unitary A maps back to its ishape)
                    tags = [self.v(a) for a in args]
                    if f.attr == "H" or True:
                        for t in tags[::-1]:
                            if t in (SAME, FLAT):
                                return t
                    return UNK
        tgt = self.M.resolve_call(self.f, c)
        if tgt[0] == "repo":
            fn = tgt[1]
            try:
                bound = self.M.bind(c, fn)
            except Unrecognised:
                return UNK
            pname = "input" if "input" in bound else None
            if pname is None:
                return UNK
            at = self.v(bound[pname]) if not isinstance(bound[pname], (list, dict)) else UNK
            if at not in (SAME, FLAT):
                return UNK
            key = fn.qual
            if key not in self.summaries:
                self.summaries[key] = SAME  # optimistic for recursion
                if self.depth < 6:
                    sub = ShapeProv(self.M, fn, pname, self.summaries, self.depth + 1)
                    sub.run()
                    tags = {t for _, t in sub.returns}
                    self.summaries[key] = FLAT if FLAT in tags else (SAME if tags == {SAME} else UNK)
            s = self.summaries[key]
            if s == SAME:
                return at
            if s == FLAT:
                return FLAT
            return UNK
        if tgt[0] == "ext":
            short = tgt[1].split(".")[-1]
            if short in ELEMENTWISE_EXT and args:
                out = self.v(args[0])
                for a in args[1:]:
                    out = self.comb(out, self.v(a))
                return out
            if short in ("ravel",) and args:
                return FLAT if self.v(args[0]) in (SAME, FLAT) else UNK
            if short == "reshape" and len(args) >= 2:
                return SAME if self.v(args[1]) == SHAPE else UNK
            return UNK
        if isinstance(f, ast.Name):
            # module-level vectorised kernels (_soft_thresh(lamda, input)) resolve as repo; anything else unknown
            return UNK
        return UNK

    def bind(self, t, v):
        if isinstance(t, ast.Name):
            self.env[t.id] = v
        elif isinstance(t, (ast.Tuple, ast.List)):
            for x in t.elts:
                self.bind(x, UNK)

    def block(self, stmts):
        for s in stmts:
            self.stmt(s)

    def stmt(self, s):
        if isinstance(s, ast.Assign):
            v = self.v(s.value)
            for t in s.targets:
                if isinstance(t, ast.Subscript):
                    continue  # in-place element update keeps the container's shape
                self.bind(t, v)
        elif isinstance(s, ast.AugAssign):
            if isinstance(s.target, ast.Name):
                cur = self.env.get(s.target.id, UNK)
                self.env[s.target.id] = cur if cur in (SAME, FLAT) else self.comb(cur, self.v(s.value))
        elif isinstance(s, ast.Return):
            self.returns.append((s, self.v(s.value)))
        elif isinstance(s, ast.If):
            e0 = dict(self.env)
            self.block(s.body)
            e1 = self.env
            self.env = dict(e0)
            self.block(s.orelse)
            for k in set(e1) | set(self.env):
                a, b = e1.get(k, UNK), self.env.get(k, UNK)
                self.env[k] = a if a == b else (FLAT if FLAT in (a, b) else UNK)
        elif isinstance(s, (ast.For, ast.While)):
            for _ in range(2):
                self.block(s.body)
        elif isinstance(s, ast.With):
            self.block(s.body)
        elif isinstance(s, ast.Try):
            self.block(s.body)

    def run(self):
        self.block(self.f.node.body)
        return self.returns
