"""Small abstract domains: shape provenance (C11), binary-valued arrays (C18), endpoint-zero (C20)."""
import ast

from .model import Unrecognised, is_self_attr, unparse

# ---------------------------------------------------------------------------------------------
# shape provenance: does a value still have the shape of the function's array input?
#   SAME  shape of the input          FLAT  ravelled input          SHAPE the tuple input.shape
#   UNK   anything else (scalars, other arrays)
# ---------------------------------------------------------------------------------------------
SAME, FLAT, SHAPE, UNK = "Same", "Flat", "ShapeOfInput", "?"

ELEMENTWISE_EXT = {"abs", "absolute", "conj", "conjugate", "real", "imag", "sqrt", "exp", "clip", "sign", "maximum", "minimum",
                   "where", "multiply", "add", "subtract", "divide", "angle", "square", "copy", "asarray", "ascontiguousarray", "astype"}


class ShapeProv:
    def __init__(self, model, func, input_name="input", summaries=None, depth=0):
        self.M = model
        self.f = func
        self.env = {input_name: SAME}
        self.input_name = input_name
        self.returns = []
        self.summaries = summaries if summaries is not None else {}
        self.depth = depth

    def comb(self, a, b):
        """elementwise combination (broadcast with scalars / other arrays)"""
        if FLAT in (a, b):
            return FLAT if SAME not in (a, b) else UNK
        if SAME in (a, b):
            return SAME
        return UNK

    def v(self, e):
        if e is None or isinstance(e, ast.Constant):
            return UNK
        if isinstance(e, ast.Name):
            return self.env.get(e.id, UNK)
        if isinstance(e, ast.Attribute):
            b = self.v(e.value)
            if e.attr == "shape" and b == SAME:
                return SHAPE
            if e.attr in ("real", "imag") and b in (SAME, FLAT):
                return b
            if e.attr == "T":
                return UNK if b == SAME else b
            return UNK
        if isinstance(e, ast.BinOp):
            if isinstance(e.op, ast.MatMult):
                return UNK
            return self.comb(self.v(e.left), self.v(e.right))
        if isinstance(e, ast.UnaryOp):
            return self.v(e.operand)
        if isinstance(e, ast.IfExp):
            a, b = self.v(e.body), self.v(e.orelse)
            return a if a == b else (FLAT if FLAT in (a, b) else UNK)
        if isinstance(e, ast.Subscript):
            b = self.v(e.value)
            # boolean-mask / integer indexing changes shape; keep only unknown
            return UNK
        if isinstance(e, ast.Compare):
            out = self.v(e.left)
            for c in e.comparators:
                out = self.comb(out, self.v(c))
            return out
        if isinstance(e, ast.Call):
            return self.call(e)
        return UNK

    def call(self, c):
        f = c.func
        args = c.args
        if isinstance(f, ast.Attribute):
            head = self.M.dotted(f.value)
            is_mod = head is not None and head[0] in self.f.mod.imports or (head is not None and (head[0] in ("xp", "np") or head[0] in self.M.xp_names(self.f)))
            if not is_mod:
                b = self.v(f.value)
                if f.attr in ("ravel", "flatten"):
                    return FLAT if b in (SAME, FLAT) else UNK
                if f.attr == "reshape":
                    a0 = self.v(args[0]) if args else UNK
                    if a0 == SHAPE:
                        return SAME
                    txt = unparse(args[0]) if args else ""
                    if txt in ("-1", "[-1]", "(-1,)") and b in (SAME, FLAT):
                        return FLAT
                    return UNK
                if f.attr in ("copy", "conj", "conjugate", "astype", "clip", "round"):
                    return b
                if is_self_attr(f.value) or b == UNK:
                    # opaque callable held on self (self.prox(alpha, x), self.A.H(x)): shape-preserving by contract
                    # (Prox.__call__ checks the output shape; unitary A maps back to its ishape)
                    tags = [self.v(a) for a in args]
                    if f.attr == "H" or True:
                        for t in tags[::-1]:
                            if t in (SAME, FLAT):
                                return t
                    return UNK
        tgt = self.M.resolve_call(self.f, c)
        if tgt[0] == "repo":
            fn = tgt[1]
            try:
                bound = self.M.bind(c, fn)
            except Unrecognised:
                return UNK
            pname = "input" if "input" in bound else None
            if pname is None:
                return UNK
            at = self.v(bound[pname]) if not isinstance(bound[pname], (list, dict)) else UNK
            if at not in (SAME, FLAT):
                return UNK
            key = fn.qual
            if key not in self.summaries:
                self.summaries[key] = SAME  # optimistic for recursion
                if self.depth < 6:
                    sub = ShapeProv(self.M, fn, pname, self.summaries, self.depth + 1)
                    sub.run()
                    tags = {t for _, t in sub.returns}
                    self.summaries[key] = FLAT if FLAT in tags else (SAME if tags == {SAME} else UNK)
            s = self.summaries[key]
            if s == SAME:
                return at
            if s == FLAT:
                return FLAT
            return UNK
        if tgt[0] == "ext":
            short = tgt[1].split(".")[-1]
            if short in ELEMENTWISE_EXT and args:
                out = self.v(args[0])
                for a in args[1:]:
                    out = self.comb(out, self.v(a))
                return out
            if short in ("ravel",) and args:
                return FLAT if self.v(args[0]) in (SAME, FLAT) else UNK
            if short == "reshape" and len(args) >= 2:
                return SAME if self.v(args[1]) == SHAPE else UNK
            return UNK
        if isinstance(f, ast.Name):
            # module-level vectorised kernels (_soft_thresh(lamda, input)) resolve as repo; anything else unknown
            return UNK
        return UNK

    def bind(self, t, v):
        if isinstance(t, ast.Name):
            self.env[t.id] = v
        elif isinstance(t, (ast.Tuple, ast.List)):
            for x in t.elts:
                self.bind(x, UNK)

    def block(self, stmts):
        for s in stmts:
            self.stmt(s)

    def stmt(self, s):
        if isinstance(s, ast.Assign):
            v = self.v(s.value)
            for t in s.targets:
                if isinstance(t, ast.Subscript):
                    continue  # in-place element update keeps the container's shape
                self.bind(t, v)
        elif isinstance(s, ast.AugAssign):
            if isinstance(s.target, ast.Name):
                cur = self.env.get(s.target.id, UNK)
                self.env[s.target.id] = cur if cur in (SAME, FLAT) else self.comb(cur, self.v(s.value))
        elif isinstance(s, ast.Return):
            self.returns.append((s, self.v(s.value)))
        elif isinstance(s, ast.If):
            e0 = dict(self.env)
            self.block(s.body)
            e1 = self.env
            self.env = dict(e0)
            self.block(s.orelse)
            for k in set(e1) | set(self.env):
                a, b = e1.get(k, UNK), self.env.get(k, UNK)
                self.env[k] = a if a == b else (FLAT if FLAT in (a, b) else UNK)
        elif isinstance(s, (ast.For, ast.While)):
            for _ in range(2):
                self.block(s.body)
        elif isinstance(s, ast.With):
            self.block(s.body)
        elif isinstance(s, ast.Try):
            self.block(s.body)

    def run(self):
        self.block(self.f.node.body)
        return self.returns


# ---------------------------------------------------------------------------------------------
# binary-valued arrays (C18): BIN = every element is 0 or 1
# ---------------------------------------------------------------------------------------------
BIN, NB = "Bin", "?"


class BinDomain:
    """flow-insensitive-in-loops abstract interpretation: which names hold arrays whose entries are all 0 or 1"""

    def __init__(self, model, func, summaries=None):
        self.M = model
        self.f = func
        self.env = {}
        self.returns = []
        self.summaries = summaries if summaries is not None else {}
        self.trace = []

    def v(self, e):
        if isinstance(e, ast.Constant):
            return BIN if e.value in (0, 1, True, False) and not isinstance(e.value, str) and e.value is not None else NB
        if isinstance(e, ast.Name):
            return self.env.get(e.id, NB)
        if isinstance(e, ast.Compare):
            return BIN
        if isinstance(e, ast.BoolOp):
            return BIN
        if isinstance(e, ast.UnaryOp) and isinstance(e.op, ast.Not):
            return BIN
        if isinstance(e, ast.BinOp):
            a, b = self.v(e.left), self.v(e.right)
            if isinstance(e.op, (ast.Mult, ast.BitAnd)) and a == BIN and b == BIN:
                return BIN
            if isinstance(e.op, ast.BitOr) and a == BIN and b == BIN:
                return BIN
            return NB
        if isinstance(e, ast.Subscript):
            return self.v(e.value)
        if isinstance(e, ast.Call):
            f = e.func
            if isinstance(f, ast.Attribute) and f.attr in ("reshape", "astype", "copy", "ravel", "flatten", "transpose", "squeeze", "view"):
                head = self.M.dotted(f.value)
                if not (head and (head[0] in ("np", "xp") or head[0] in self.M.xp_names(self.f))):
                    return self.v(f.value)
            tgt = self.M.resolve_call(self.f, e)
            if tgt[0] == "ext":
                short = tgt[1].split(".")[-1]
                if short in ("zeros", "zeros_like", "ones", "ones_like"):
                    return BIN
                if short in ("reshape", "astype", "copy", "ascontiguousarray", "asarray", "logical_and", "logical_or", "logical_not") and e.args:
                    return BIN if all(self.v(a) == BIN for a in e.args[:1]) or short.startswith("logical") else NB
                return NB
            if tgt[0] == "repo":
                fn = tgt[1]
                if fn.qual not in self.summaries:
                    self.summaries[fn.qual] = NB
                    sub = BinDomain(self.M, fn, self.summaries)
                    sub.run()
                    self.summaries[fn.qual] = BIN if sub.returns and all(t == BIN for _, t in sub.returns) else NB
                return self.summaries[fn.qual]
            return NB
        if isinstance(e, ast.IfExp):
            return BIN if self.v(e.body) == BIN and self.v(e.orelse) == BIN else NB
        return NB

    def block(self, stmts):
        for s in stmts:
            self.stmt(s)

    def stmt(self, s):
        if isinstance(s, ast.Assign):
            val = self.v(s.value)
            for t in s.targets:
                if isinstance(t, ast.Name):
                    self.env[t.id] = val
                elif isinstance(t, ast.Subscript) and isinstance(t.value, ast.Name):
                    cur = self.env.get(t.value.id, NB)
                    new = BIN if cur == BIN and val == BIN else NB
                    if cur == BIN and new != BIN:
                        self.trace.append((s, "store of a non-binary value"))
                    self.env[t.value.id] = new
                elif isinstance(t, (ast.Tuple, ast.List)):
                    for x in t.elts:
                        if isinstance(x, ast.Name):
                            self.env[x.id] = NB
        elif isinstance(s, ast.AugAssign):
            t = s.target
            name = t.id if isinstance(t, ast.Name) else (t.value.id if isinstance(t, ast.Subscript) and isinstance(t.value, ast.Name) else None)
            if name is not None:
                cur = self.env.get(name, NB)
                val = self.v(s.value)
                ok = cur == BIN and val == BIN and isinstance(s.op, (ast.Mult, ast.BitAnd, ast.BitOr))
                if cur == BIN and not ok:
                    self.trace.append((s, "in-place update that can leave {0,1}"))
                self.env[name] = BIN if ok else NB
        elif isinstance(s, ast.Return):
            self.returns.append((s, self.v(s.value) if s.value is not None else NB))
        elif isinstance(s, ast.If):
            e0 = dict(self.env)
            self.block(s.body)
            e1 = self.env
            self.env = dict(e0)
            self.block(s.orelse)
            for k in set(e1) | set(self.env):
                # a name bound on one arm only can be read afterwards only on executions that took that arm (NameError otherwise)
                a, b = e1.get(k, self.env.get(k, NB)), self.env.get(k, e1.get(k, NB))
                self.env[k] = BIN if a == BIN and b == BIN else NB
        elif isinstance(s, (ast.For, ast.While)):
            for _ in range(2):
                e0 = dict(self.env)
                self.block(s.body)
                for k in set(e0) | set(self.env):
                    a, b = e0.get(k, self.env.get(k, NB)), self.env.get(k, e0.get(k, NB))
                    self.env[k] = BIN if a == BIN and b == BIN else NB
            self.block(s.orelse)
        elif isinstance(s, ast.With):
            self.block(s.body)
        elif isinstance(s, ast.Try):
            self.block(s.body)

    def run(self):
        self.block(self.f.node.body)
        return self.returns


# ---------------------------------------------------------------------------------------------
# endpoint-zero domain (C20): (first, last) in {Z, ?}^2 for 1-D waveforms
# ---------------------------------------------------------------------------------------------
ZERO_, ANY_ = "Z", "?"


class Endpoints:
    def __init__(self, model, func):
        self.M = model
        self.f = func
        self.env = {}
        self.returns = []

    def v(self, e):
        """(first, last) endpoint knowledge of an expression; scalars are ('s','s')"""
        SC = ("s", "s")
        if isinstance(e, ast.Constant):
            return SC
        if isinstance(e, ast.Name):
            return self.env.get(e.id, SC)
        if isinstance(e, ast.UnaryOp):
            return self.v(e.operand)
        if isinstance(e, ast.BinOp):
            a, b = self.v(e.left), self.v(e.right)
            if isinstance(e.op, (ast.Mult,)):
                return self._mul(a, b)
            if isinstance(e.op, ast.Div):
                # x / y keeps the zeros of x (y finite, non-zero: scalar normalisations in these designers)
                return a if a != SC else SC
            if isinstance(e.op, (ast.Add, ast.Sub)):
                if a == SC and b == SC:
                    return SC
                if a == SC or b == SC:
                    return (ANY_, ANY_)  # adding a scalar offset destroys zero endpoints
                return (ZERO_ if a[0] == ZERO_ and b[0] == ZERO_ else ANY_, ZERO_ if a[1] == ZERO_ and b[1] == ZERO_ else ANY_)
            return SC if (a == SC and b == SC) else (ANY_, ANY_)
        if isinstance(e, ast.Call):
            tgt = self.M.resolve_call(self.f, e)
            short = tgt[1].split(".")[-1] if tgt[0] in ("ext", "name") else ""
            if tgt[0] == "repo" and tgt[1].cls is None and getattr(self, "depth", 0) < 3:
                # a straight-line helper of the package: its returned value(s) under the endpoint knowledge of the arguments
                fn = tgt[1]
                try:
                    b = self.M.bind(e, fn)
                except Unrecognised:
                    return (ANY_, ANY_)
                sub = Endpoints(self.M, fn)
                sub.depth = getattr(self, "depth", 0) + 1
                for p, n in b.items():
                    sub.env[p] = self.v(n) if isinstance(n, ast.AST) else SC
                body = fn.body
                if all(isinstance(st_, (ast.Assign, ast.AugAssign, ast.Return, ast.Expr)) for st_ in body) and body and isinstance(body[-1], ast.Return):
                    sub.run_block(body[:-1])
                    rv = body[-1].value
                    if isinstance(rv, ast.Tuple):
                        return ("T", tuple(sub.v(x) for x in rv.elts))
                    return sub.v(rv) if rv is not None else SC
                # a helper with branches: every returning path is evaluated on its own, the results are joined (an endpoint is known to be zero
                # only if it is on every path)
                from .paths import enumerate_paths
                vals = []
                try:
                    paths = [p_ for p_ in enumerate_paths(body) if p_.end == "return"]
                except Exception:
                    paths = []
                for p_ in paths[:32]:
                    s2 = Endpoints(self.M, fn)
                    s2.depth = sub.depth
                    s2.env = dict(sub.env)
                    s2.run_block(p_.stmts())
                    rv = p_.end_node.value
                    if rv is None:
                        vals.append(SC)
                    elif isinstance(rv, ast.Tuple):
                        vals.append(("T", tuple(s2.v(x) for x in rv.elts)))
                    else:
                        vals.append(s2.v(rv))
                if vals and len(paths) <= 32:
                    def join(a_, b_):
                        if a_ == b_:
                            return a_
                        if isinstance(a_, tuple) and isinstance(b_, tuple) and a_[:1] == ("T",) and b_[:1] == ("T",) and len(a_[1]) == len(b_[1]):
                            return ("T", tuple(join(x_, y_) for x_, y_ in zip(a_[1], b_[1])))
                        if a_ == SC or b_ == SC or a_[:1] == ("T",) or b_[:1] == ("T",):
                            return (ANY_, ANY_)
                        return (ZERO_ if a_[0] == ZERO_ and b_[0] == ZERO_ else ANY_, ZERO_ if a_[1] == ZERO_ and b_[1] == ZERO_ else ANY_)
                    out_ = vals[0]
                    for v_ in vals[1:]:
                        out_ = join(out_, v_)
                    return out_
                return (ANY_, ANY_)
            if tgt[0] == "ext" and short == "linspace" and len(e.args) >= 2:
                z = lambda n: isinstance(n, ast.Constant) and n.value == 0
                return (ZERO_ if z(e.args[0]) else ANY_, ZERO_ if z(e.args[1]) else ANY_)
            if tgt[0] == "ext" and short in ("concatenate", "hstack") and e.args and isinstance(e.args[0], (ast.Tuple, ast.List)) and e.args[0].elts:
                parts = [self.v(x) for x in e.args[0].elts]
                arr = [p for p in parts]
                first = arr[0][0] if arr[0] != ("s", "s") else ANY_
                last = arr[-1][1] if arr[-1] != ("s", "s") else ANY_
                return (first, last)
            if tgt[0] == "ext" and short in ("squeeze", "expand_dims", "asarray", "array", "copy", "ravel", "negative", "abs", "absolute", "atleast_1d") and e.args:
                return self.v(e.args[0])
            if tgt[0] == "ext" and short in ("ones", "zeros", "arange", "full", "empty"):
                return (ZERO_, ZERO_) if short == "zeros" else (ANY_, ANY_)
            if tgt[0] == "ext" and short in ("sum", "max", "min", "sqrt", "ceil", "floor", "size", "sign"):
                return SC
            if tgt[0] == "name" and short in ("sum", "max", "min", "abs", "int", "float", "len"):
                return SC
            return (ANY_, ANY_) if tgt[0] != "name" else SC
        if isinstance(e, ast.Subscript):
            sl = e.slice
            if isinstance(sl, ast.Slice) and sl.lower is None and sl.upper is None:
                base = self.v(e.value)
                if sl.step is None:
                    return base                      # x[:] keeps both end samples
                st_ = sl.step
                if isinstance(st_, ast.UnaryOp) and isinstance(st_.op, ast.USub) and isinstance(st_.operand, ast.Constant) and st_.operand.value == 1 \
                        and isinstance(base, tuple) and len(base) == 2 and base != ("s", "s"):
                    return (base[1], base[0])        # x[::-1]: the mirrored waveform starts where x ends
            return (ANY_, ANY_)
        if isinstance(e, ast.Tuple):
            return SC
        return SC

    def _mul(self, a, b):
        SC = ("s", "s")
        if a == SC and b == SC:
            return SC
        if a == SC:
            return b
        if b == SC:
            return a
        return (ZERO_ if ZERO_ in (a[0], b[0]) else ANY_, ZERO_ if ZERO_ in (a[1], b[1]) else ANY_)

    def run_block(self, stmts):
        for s in stmts:
            if isinstance(s, ast.Assign):
                val = self.v(s.value)
                for t in s.targets:
                    if isinstance(t, ast.Name):
                        self.env[t.id] = val
                    elif isinstance(t, (ast.Tuple, ast.List)):
                        parts = val[1] if isinstance(val, tuple) and val and val[0] == "T" and len(val[1]) == len(t.elts) else None
                        for i_, x in enumerate(t.elts):
                            if isinstance(x, ast.Name):
                                self.env[x.id] = parts[i_] if parts is not None else ("s", "s")
            elif isinstance(s, ast.AugAssign) and isinstance(s.target, ast.Name):
                self.env[s.target.id] = self.v(ast.BinOp(left=s.target, op=s.op, right=s.value))
