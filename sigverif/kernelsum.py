"""Loop-nest summaries of the numba kernels (interp, block): symbolic execution of a kernel body in which every
`for v in range(...)` loop is entered once with `v` bound to a fresh loop symbol.  The summary records, in
program order, the loops (variable, range arguments as terms, nesting depth) and the array stores
(array, index tuple, plain/accumulating, value term, guard conditions).  Loop symbols are renamed by order of
appearance (L0, L1, ...) so that summaries are independent of the variable names used in the source.
"""
import ast

from . import terms as T
from .model import Unrecognised, unparse
from .vn import VN, State, is_tuple


class Loop:
    def __init__(self, var, args, depth, node):
        self.var = var
        self.args = args
        self.depth = depth
        self.node = node


class Store:
    def __init__(self, array, idx, accumulate, value, conds, node, loops):
        self.array = array
        self.idx = idx
        self.accumulate = accumulate
        self.value = value
        self.conds = conds
        self.node = node
        self.loops = loops  # enclosing loop symbols, outermost first
        self.op = None  # None for plain assignment, else the AugAssign operator name ('Add', 'Mult', ...)


class KernelSummary:
    def __init__(self):
        self.loops = []
        self.stores = []
        self.env = {}
        self.ret = None
        self.params = ()
        self.breaks = []   # (path conditions at the `break`, loop node): early exits of a kernel loop

    def canon(self, array):
        """name-independent identity of a stored-into array: a parameter keeps its (API) name, a local is numbered by the order in which
        locals are first stored into"""
        if array in self.params:
            return array
        order = []
        for s in self.stores:
            if s.array not in self.params and s.array not in order:
                order.append(s.array)
        return "local#%d" % order.index(array) if array in order else array


def summarize(model, func, env=None, call_hook=None, stmts=None):
    ks = KernelSummary()
    counter = [0]
    stack = []

    def loop_hook(vn, s, st):
        if not isinstance(s, ast.For) or not isinstance(s.target, ast.Name):
            raise Unrecognised("kernel loop is not `for name in range(...)`", s)
        it = s.iter
        if not (isinstance(it, ast.Call) and isinstance(it.func, ast.Name) and it.func.id == "range"):
            raise Unrecognised("kernel loop does not iterate over range(...)", s)
        args = tuple(vn._as_term(vn.ev(a, st)) for a in it.args)
        name = "L%d" % counter[0]
        counter[0] += 1
        sym = T.sym(name, real=True)
        ks.loops.append(Loop(sym, args, len(stack), s))
        st.env[s.target.id] = sym
        stack.append(sym)
        outs = vn.block(list(s.body), [st])
        stack.pop()
        for o in outs:
            if o.status == "return":
                raise Unrecognised("return inside a kernel loop", s)
            if o.status == "break":
                ks.breaks.append((list(o.conds), s))
        # continue after the loop on the first state's environment (kernel loops do not change scalars we use later)
        res = outs[0]
        res.conds = list(st.conds)
        return [res]

    class KVN(VN):
        def assign(self, tgt, val, st, node):
            if isinstance(tgt, ast.Subscript) and isinstance(tgt.value, ast.Name):
                arr = tgt.value.id
                idx = self.ev(tgt.slice, st)
                if not is_tuple(idx):
                    idx = (idx,)
                acc = isinstance(node, ast.AugAssign)
                opname = None
                if acc:
                    # record the operand of the in-place update, not old (op) operand
                    val = self.ev(node.value, st)
                    opname = type(node.op).__name__
                    if not isinstance(node.op, ast.Add):
                        acc = False
                store = Store(arr, tuple(idx), acc, val, list(st.conds), node, list(stack))
                store.op = opname
                ks.stores.append(store)
                return
            return VN.assign(self, tgt, val, st, node)

    vn = KVN(model, func, loop_hook=loop_hook, call_hook=call_hook)
    st = State(dict(env or {}))
    outs = vn.run(stmts if stmts is not None else func.body, st)
    ks.env = outs[0].env if outs else {}
    ks.ret = outs[0].ret if outs and outs[0].status == "return" else None
    ks.params = tuple(func.params) if stmts is None else tuple(func.params)
    return ks
