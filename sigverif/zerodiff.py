"""Must-alias "stale snapshot" analysis: find differences `a - b` that are identically zero because both
operands denote the same storage.

A stopping measure of the form ||v - v_old|| is only a measure of progress if v_old is a *copy* taken before v
is updated in place.  `old = self.z` followed by in-place updates of self.z (element stores, augmented
assignments) leaves `old` and `self.z` the same object, so `self.z[i] - old[i]` is zero for every input.

Abstract state (must information only):
    local name -> (attr, version)      the local is the very object held in self.attr at that version
    attr -> version                    bumped whenever self.attr is *rebound* (self.attr = ...); in-place updates
                                       (self.attr[i] = ..., self.attr += ..) do not bump the version
    attr -> element version            bumped whenever an element of the container held in self.attr is *rebound*
                                       (self.attr[i] = ...); updating an element in place (copyto(self.attr[i], ..)) does not
A shallow copy (`list(self.z)`, `tuple(self.z)`, `self.z[:]`) is a new container holding the *same element objects*: its i-th element is
self.z[i] for as long as self.z[i] has not been rebound.  Such a copy is a snapshot only if the elements are later replaced, not if they
are overwritten in place.
Joins keep only facts that agree on both branches; loop bodies are analysed after killing everything the body
assigns.  A deep copy / arithmetic result is never an alias.
"""
import ast

from .model import is_self_attr, unparse


class ZeroDiff:
    def __init__(self, func):
        self.f = func
        self.env = {}     # local -> (attr, version) | (attr, version, element version) for a shallow copy
        self.ver = {}     # attr -> version
        self.ever = {}    # attr -> element version
        self.bound_at = {}  # local -> Assign node
        self.found = []   # (BinOp node, text, attr, bind node)

    # ---------------------------------------------------------------- resolution
    def obj(self, e):
        """(attr, version, index-text, element version or None) when e denotes the object in self.attr or a fixed element of it;
        element version None = read through the container itself (always its current element)"""
        if is_self_attr(e):
            return (e.attr, self.ver.get(e.attr, 0), "", None)
        if isinstance(e, ast.Name) and e.id in self.env:
            v = self.env[e.id]
            if len(v) == 2:
                return (v[0], v[1], "", None)
            return None  # a shallow copy is a different container object
        if isinstance(e, ast.Subscript) and not isinstance(e.slice, ast.Slice):
            if isinstance(e.slice, (ast.Name, ast.Constant)):
                if isinstance(e.value, ast.Name) and e.value.id in self.env and len(self.env[e.value.id]) == 3:
                    a, v, ev = self.env[e.value.id]
                    return (a, v, "[" + unparse(e.slice) + "]", ev)
                b = self.obj(e.value)
                if b is not None:
                    return (b[0], b[1], b[2] + "[" + unparse(e.slice) + "]", b[3])
        return None

    def shallow_copy_of(self, e):
        """list(self.z) / tuple(self.z) / self.z[:] (or of a plain alias of it) -> (attr, version, element version)"""
        inner = None
        if isinstance(e, ast.Call) and isinstance(e.func, ast.Name) and e.func.id in ("list", "tuple") and len(e.args) == 1 and not e.keywords:
            inner = e.args[0]
        elif isinstance(e, ast.Subscript) and isinstance(e.slice, ast.Slice) and e.slice.lower is None and e.slice.upper is None and e.slice.step is None:
            inner = e.value
        if inner is None:
            return None
        o = self.obj(inner)
        if o is None or o[2] != "" or o[3] is not None:
            return None
        return (o[0], o[1], self.ever.get(o[0], 0))

    def same(self, l, r):
        if l is None or r is None or l[:3] != r[:3] or l[1] != self.ver.get(l[0], 0):
            return False
        cur = self.ever.get(l[0], 0)
        return all(x is None or x == cur for x in (l[3], r[3])) and (l[2] != "" or (l[3] is None and r[3] is None))

    def scan(self, e):
        for n in ast.walk(e):
            if isinstance(n, ast.BinOp) and isinstance(n.op, ast.Sub):
                l, r = self.obj(n.left), self.obj(n.right)
                if self.same(l, r):
                    names = [x.id for x in (n.left, n.right) for x in ast.walk(x) if isinstance(x, ast.Name) and x.id in self.env]
                    bind = self.bound_at.get(names[0]) if names else None
                    self.found.append((n, unparse(n), l[0], bind))

    # ---------------------------------------------------------------- statements
    def kill_assigned(self, stmts):
        for s in stmts:
            for n in ast.walk(s):
                tgts = []
                if isinstance(n, ast.Assign):
                    tgts = n.targets
                elif isinstance(n, (ast.AugAssign, ast.AnnAssign)):
                    tgts = [n.target]
                elif isinstance(n, (ast.For,)):
                    tgts = [n.target]
                for t in tgts:
                    for x in ast.walk(t):
                        if isinstance(x, ast.Name) and isinstance(x.ctx, ast.Store):
                            self.env.pop(x.id, None)
                    if is_self_attr(t):
                        self.ver[t.attr] = self.ver.get(t.attr, 0) + 1
                    if isinstance(t, ast.Subscript) and is_self_attr(t.value):
                        self.ever[t.value.attr] = self.ever.get(t.value.attr, 0) + 1

    def block(self, stmts):
        for s in stmts:
            self.stmt(s)

    def stmt(self, s):
        if isinstance(s, ast.Assign):
            self.scan(s.value)
            for t in s.targets:
                if isinstance(t, ast.Name):
                    o = self.obj(s.value)
                    sc = self.shallow_copy_of(s.value)
                    if o is not None and o[2] == "" and o[3] is None:
                        self.env[t.id] = (o[0], o[1])
                        self.bound_at[t.id] = s
                    elif sc is not None:
                        self.env[t.id] = sc
                        self.bound_at[t.id] = s
                    else:
                        self.env.pop(t.id, None)
                elif is_self_attr(t):
                    self.ver[t.attr] = self.ver.get(t.attr, 0) + 1
                elif isinstance(t, ast.Subscript) and is_self_attr(t.value):
                    self.ever[t.value.attr] = self.ever.get(t.value.attr, 0) + 1   # element rebound
                elif isinstance(t, (ast.Tuple, ast.List)):
                    self.kill_assigned([s])
                # subscript stores are in-place updates: no version change
        elif isinstance(s, ast.AugAssign):
            self.scan(s.value)
            if isinstance(s.target, ast.Subscript) and is_self_attr(s.target.value):
                self.ever[s.target.value.attr] = self.ever.get(s.target.value.attr, 0) + 1  # may rebind an immutable element
            # in place for arrays; for a local bound to a python scalar it rebinds, but such a local is never in env
        elif isinstance(s, (ast.Expr, ast.Return)):
            if s.value is not None:
                self.scan(s.value)
        elif isinstance(s, ast.If):
            self.scan(s.test)
            env0, ver0, ever0 = dict(self.env), dict(self.ver), dict(self.ever)
            self.block(s.body)
            env1, ver1, ever1 = self.env, self.ver, self.ever
            self.env, self.ver, self.ever = dict(env0), dict(ver0), dict(ever0)
            self.block(s.orelse)
            env2, ver2, ever2 = self.env, self.ver, self.ever
            self.ver, self.ever = {}, {}
            for a in set(ver1) | set(ver2):
                v1, v2 = ver1.get(a, 0), ver2.get(a, 0)
                self.ver[a] = v1 if v1 == v2 else max(v1, v2) + 1
            for a in set(ever1) | set(ever2):
                v1, v2 = ever1.get(a, 0), ever2.get(a, 0)
                self.ever[a] = v1 if v1 == v2 else max(v1, v2) + 1
            self.env = {k: v for k, v in env1.items() if env2.get(k) == v and self.ver.get(v[0], 0) == v[1]}
            # a local bound on one branch only, to the current version on that branch, survives only if the other branch left
            # both the local and the attribute untouched -- covered by the equality test above
        elif isinstance(s, (ast.For, ast.While)):
            self.kill_assigned(s.body)
            if isinstance(s, ast.While):
                self.scan(s.test)
            else:
                self.scan(s.iter)
            self.block(s.body)
            self.kill_assigned(s.body)
            self.block(s.orelse)
        elif isinstance(s, ast.With):
            self.block(s.body)
        elif isinstance(s, ast.Try):
            self.block(s.body)
            self.kill_assigned([h for hh in s.handlers for h in hh.body])
            self.block(s.finalbody)

    def run(self):
        self.block(self.f.node.body)
        return self.found
