"""Must-alias "stale snapshot" analysis: find differences `a - b` that are identically zero because both
operands denote the same storage.

A stopping measure of the form ||v - v_old|| is only a measure of progress if v_old is a *copy* taken before v
is updated in place.  `old = self.z` followed by in-place updates of self.z (element stores, augmented
assignments) leaves `old` and `self.z` the same object, so `self.z[i] - old[i]` is zero for every input.

Abstract state (must information only):
    local name -> (attr, version)      the local is the very object held in self.attr at that version
    attr -> version                    bumped whenever self.attr is *rebound* (self.attr = ...); in-place updates
                                       (self.attr[i] = ..., self.attr += ..) do not bump the version
Joins keep only facts that agree on both branches; loop bodies are analysed after killing everything the body
assigns.  A view / copy / call result is never an alias (copy() / list() / arithmetic give fresh objects).
"""
import ast

from .model import is_self_attr, unparse


class ZeroDiff:
    def __init__(self, func):
        self.f = func
        self.env = {}     # local -> (attr, version)
        self.ver = {}     # attr -> version
        self.bound_at = {}  # local -> Assign node
        self.found = []   # (BinOp node, text, attr, bind node)

    # ---------------------------------------------------------------- resolution
    def obj(self, e):
        """(attr, version, index-text) when e denotes the object in self.attr (or a fixed element of it)"""
        if is_self_attr(e):
            return (e.attr, self.ver.get(e.attr, 0), "")
        if isinstance(e, ast.Name) and e.id in self.env:
            a, v = self.env[e.id]
            return (a, v, "")
        if isinstance(e, ast.Subscript) and not isinstance(e.slice, ast.Slice):
            if isinstance(e.slice, (ast.Name, ast.Constant)):
                b = self.obj(e.value)
                if b is not None:
                    return (b[0], b[1], b[2] + "[" + unparse(e.slice) + "]")
        return None

    def scan(self, e):
        for n in ast.walk(e):
            if isinstance(n, ast.BinOp) and isinstance(n.op, ast.Sub):
                l, r = self.obj(n.left), self.obj(n.right)
                if l is not None and l == r and l[1] == self.ver.get(l[0], 0):
                    names = [x.id for x in (n.left, n.right) for x in ast.walk(x) if isinstance(x, ast.Name) and x.id in self.env]
                    bind = self.bound_at.get(names[0]) if names else None
                    self.found.append((n, unparse(n), l[0], bind))

    # ---------------------------------------------------------------- statements
    def kill_assigned(self, stmts):
        for s in stmts:
            for n in ast.walk(s):
                tgts = []
                if isinstance(n, ast.Assign):
                    tgts = n.targets
                elif isinstance(n, (ast.AugAssign, ast.AnnAssign)):
                    tgts = [n.target]
                elif isinstance(n, (ast.For,)):
                    tgts = [n.target]
                for t in tgts:
                    for x in ast.walk(t):
                        if isinstance(x, ast.Name) and isinstance(x.ctx, ast.Store):
                            self.env.pop(x.id, None)
                    if is_self_attr(t):
                        self.ver[t.attr] = self.ver.get(t.attr, 0) + 1

    def block(self, stmts):
        for s in stmts:
            self.stmt(s)

    def stmt(self, s):
        if isinstance(s, ast.Assign):
            self.scan(s.value)
            for t in s.targets:
                if isinstance(t, ast.Name):
                    o = self.obj(s.value)
                    if o is not None and o[2] == "":
                        self.env[t.id] = (o[0], o[1])
                        self.bound_at[t.id] = s
                    else:
                        self.env.pop(t.id, None)
                elif is_self_attr(t):
                    self.ver[t.attr] = self.ver.get(t.attr, 0) + 1
                elif isinstance(t, (ast.Tuple, ast.List)):
                    self.kill_assigned([s])
                # subscript stores are in-place updates: no version change
        elif isinstance(s, ast.AugAssign):
            self.scan(s.value)
            # in place for arrays; for a local bound to a python scalar it rebinds, but such a local is never in env
        elif isinstance(s, (ast.Expr, ast.Return)):
            if s.value is not None:
                self.scan(s.value)
        elif isinstance(s, ast.If):
            self.scan(s.test)
            env0, ver0 = dict(self.env), dict(self.ver)
            self.block(s.body)
            env1, ver1 = self.env, self.ver
            self.env, self.ver = dict(env0), dict(ver0)
            self.block(s.orelse)
            env2, ver2 = self.env, self.ver
            self.ver = {}
            for a in set(ver1) | set(ver2):
                v1, v2 = ver1.get(a, 0), ver2.get(a, 0)
                self.ver[a] = v1 if v1 == v2 else max(v1, v2) + 1
            self.env = {k: v for k, v in env1.items() if env2.get(k) == v and self.ver.get(v[0], 0) == v[1]}
            # a local bound on one branch only, to the current version on that branch, survives only if the other branch left
            # both the local and the attribute untouched -- covered by the equality test above
        elif isinstance(s, (ast.For, ast.While)):
            self.kill_assigned(s.body)
            if isinstance(s, ast.While):
                self.scan(s.test)
            else:
                self.scan(s.iter)
            self.block(s.body)
            self.kill_assigned(s.body)
            self.block(s.orelse)
        elif isinstance(s, ast.With):
            self.block(s.body)
        elif isinstance(s, ast.Try):
            self.block(s.body)
            self.kill_assigned([h for hh in s.handlers for h in hh.body])
            self.block(s.finalbody)

    def run(self):
        self.block(self.f.node.body)
        return self.found
