"""E6 -- statement-level path enumeration for small functions (must-pass-through, dominance, pairing).

A path is a list of events ``(kind, node)``; kinds: 'stmt' (simple statement), 'true'/'false' (branch
decision on an ``if``/``while`` test), 'iter'/'skip' (for-loop entered once / not entered),
'except' (control transferred to a handler).  Loops are unrolled 0 or 1 times, which is enough for the
ordering / pairing questions asked here.  Each path ends in 'return', 'raise', or 'fall'.
"""
import ast

from .model import Unrecognised


class Path:
    __slots__ = ("events", "end", "end_node", "_loop")

    def __init__(self, events=None):
        self.events = list(events or [])
        self.end = None
        self.end_node = None
        self._loop = None  # 'break' | 'continue'

    def fork(self):
        return Path(self.events)

    def stmts(self):
        return [n for k, n in self.events if k == "stmt"]


def enumerate_paths(body, limit=4096):
    paths = _block(body, [Path()], limit)
    for p in paths:
        if p.end is None:
            p.end = "fall"
    return paths


def _block(stmts, paths, limit):
    for s in stmts:
        nxt = []
        for p in paths:
            if p.end is not None or p._loop is not None:
                nxt.append(p)
            else:
                nxt.extend(_stmt(s, p, limit))
        paths = nxt
        if len(paths) > limit:
            raise Unrecognised("more than %d paths" % limit, s)
    return paths


def _stmt(s, p, limit):
    if isinstance(s, ast.If):
        a, b = p.fork(), p.fork()
        a.events.append(("true", s))
        b.events.append(("false", s))
        return _block(s.body, [a], limit) + _block(s.orelse, [b], limit)
    if isinstance(s, (ast.For, ast.While)):
        a, b = p.fork(), p.fork()
        a.events.append(("iter", s))
        b.events.append(("skip", s))
        inner = _block(s.body, [a], limit)
        out = []
        for q in inner:
            if q._loop is not None:
                brk = q._loop == "break"
                q._loop = None
                if brk:
                    out.append(q)
                    continue
            if q.end is None:
                q.events.append(("loopexit", s))
                out.extend(_block(s.orelse, [q], limit))
            else:
                out.append(q)
        return out + _block(s.orelse, [b], limit)
    if isinstance(s, ast.With):
        p.events.append(("stmt", s))
        return _block(s.body, [p], limit)
    if isinstance(s, ast.Try):
        base = p.fork()
        out = _block(s.body, [p], limit)
        for h in s.handlers:
            q = base.fork()
            q.events.append(("except", h))
            out.extend(_block(h.body, [q], limit))
        res = []
        for q in out:
            if q.end is None and q._loop is None and s.finalbody:
                res.extend(_block(s.finalbody, [q], limit))
            else:
                res.append(q)
        return res
    if isinstance(s, ast.Return):
        p.events.append(("stmt", s))
        p.end, p.end_node = "return", s
        return [p]
    if isinstance(s, ast.Raise):
        p.events.append(("stmt", s))
        p.end, p.end_node = "raise", s
        return [p]
    if isinstance(s, ast.Break):
        p._loop = "break"
        return [p]
    if isinstance(s, ast.Continue):
        p._loop = "continue"
        return [p]
    p.events.append(("stmt", s))
    return [p]


def calls_on_path(path, pred):
    """ordered list of Call nodes on the path for which pred(call) is true"""
    out = []
    for k, n in path.events:
        if k != "stmt":
            continue
        if isinstance(n, ast.With):
            nodes = [it.context_expr for it in n.items]
        elif isinstance(n, (ast.FunctionDef, ast.ClassDef)):
            continue
        else:
            nodes = [n]
        for root in nodes:
            found = [c for c in ast.walk(root) if isinstance(c, ast.Call) and pred(c)]
            found.sort(key=lambda c: (c.lineno, c.col_offset))
            out.extend(found)
    return out
