"""Thorough-tier cross-check of AST-derived mutation sites against compiled bytecode.

Every module is compile()d (never executed).  For each code object the in-place store instructions are counted with `dis`:
STORE_SUBSCR (subscript stores and augmented subscript stores), in-place BINARY_OP variants (augmented assignments) and
STORE_ATTR.  The same three counts are derived from the AST of the function.  The two must agree: this guards the effect
analysis (E2) against a statement kind its AST walker does not see.
"""
import ast
import dis
import types


def _code_objects(code, prefix=""):
    out = {}
    for c in code.co_consts:
        if isinstance(c, types.CodeType):
            name = prefix + "." + c.co_name if prefix else c.co_name
            if c.co_name.startswith("<") and c.co_name not in ("<lambda>",):
                # comprehensions are inlined into their parent's counts
                out.update(_code_objects(c, prefix))
                continue
            out[name] = c
            out.update(_code_objects(c, name))
    return out


def _count_code(code):
    """distinct source positions of store instructions (the compiler may duplicate a tail block, so instructions are
    keyed by their source span)"""
    seen = {"subscr": set(), "inplace": set(), "attr": set()}
    stack = [code]
    while stack:
        c = stack.pop()
        for ins in dis.get_instructions(c):
            pos = getattr(ins, "positions", None)
            key = (pos.lineno, pos.col_offset, pos.end_lineno, pos.end_col_offset) if pos is not None else (ins.offset,)
            if ins.opname in ("STORE_SUBSCR", "STORE_SLICE"):
                seen["subscr"].add(key)
            elif ins.opname == "STORE_ATTR":
                seen["attr"].add(key)
            elif ins.opname == "BINARY_OP" and ins.argrepr and ins.argrepr.endswith("="):
                seen["inplace"].add(key)
            elif ins.opname.startswith("INPLACE_"):
                seen["inplace"].add(key)
        for k in c.co_consts:
            if isinstance(k, types.CodeType) and k.co_name.startswith("<") and k.co_name != "<lambda>":
                stack.append(k)
    return {k: len(v) for k, v in seen.items()}


def _count_ast(fn):
    n = {"subscr": 0, "inplace": 0, "attr": 0}

    def targets(t):
        if isinstance(t, (ast.Tuple, ast.List)):
            for x in t.elts:
                yield from targets(x)
        elif isinstance(t, ast.Starred):
            yield from targets(t.value)
        else:
            yield t
    stack = list(ast.iter_child_nodes(fn))
    while stack:
        x = stack.pop()
        if isinstance(x, (ast.FunctionDef, ast.AsyncFunctionDef, ast.ClassDef, ast.Lambda)):
            continue
        if isinstance(x, ast.Assign):
            for t0 in x.targets:
                for t in targets(t0):
                    if isinstance(t, ast.Subscript):
                        n["subscr"] += 1
                    elif isinstance(t, ast.Attribute):
                        n["attr"] += 1
        elif isinstance(x, ast.AnnAssign) and x.value is not None:
            if isinstance(x.target, ast.Subscript):
                n["subscr"] += 1
            elif isinstance(x.target, ast.Attribute):
                n["attr"] += 1
        elif isinstance(x, ast.AugAssign):
            n["inplace"] += 1
            if isinstance(x.target, ast.Subscript):
                n["subscr"] += 1
            elif isinstance(x.target, ast.Attribute):
                n["attr"] += 1
        elif isinstance(x, (ast.For, ast.AsyncFor)):
            for t in targets(x.target):
                if isinstance(t, ast.Subscript):
                    n["subscr"] += 1
                elif isinstance(t, ast.Attribute):
                    n["attr"] += 1
        elif isinstance(x, ast.With):
            for it in x.items:
                if it.optional_vars is not None:
                    for t in targets(it.optional_vars):
                        if isinstance(t, ast.Subscript):
                            n["subscr"] += 1
                        elif isinstance(t, ast.Attribute):
                            n["attr"] += 1
        stack.extend(ast.iter_child_nodes(x))
    return n


def cross_check(run, M, rule, modules):
    """compare per-function store counts; uses the *unpruned* source (the compiler sees every arm)"""
    n_funcs = 0
    bad = 0
    for mn in modules:
        mod = M.mod(mn)
        code = compile(mod.src, mod.path, "exec")  # compiled, never executed
        cobjs = _code_objects(code)
        # AST functions of the raw tree, keyed like the code objects
        afuncs = {}

        def collect(node, prefix):
            for ch in ast.iter_child_nodes(node):
                if isinstance(ch, (ast.FunctionDef, ast.AsyncFunctionDef)):
                    name = prefix + "." + ch.name if prefix else ch.name
                    afuncs.setdefault(name, []).append(ch)
                    collect(ch, name)
                elif isinstance(ch, ast.ClassDef):
                    collect(ch, prefix + "." + ch.name if prefix else ch.name)
                elif isinstance(ch, (ast.If, ast.For, ast.While, ast.With, ast.Try)):
                    collect(ch, prefix)
        collect(mod.raw_tree, "")
        for name, nodes in afuncs.items():
            if len(nodes) != 1 or name not in cobjs:
                continue  # conditionally redefined functions (GPU arms): skipped
            n_funcs += 1
            a, b = _count_ast(nodes[0]), _count_code(cobjs[name])
            if a != b:
                bad += 1
                run.bad(rule, "%s.%s" % (mn, name), "%s:%d" % (mod.path, nodes[0].lineno),
                        "bytecode cross-check: the compiled function has store counts %s but the AST walk used by the effect analysis sees %s" % (b, a),
                        stmt="bytecode:%s.%s" % (mn, name))
    if not bad:
        run.ok(rule, "bytecode cross-check", "%d functions: STORE_SUBSCR / in-place BINARY_OP / STORE_ATTR counts agree with the AST-derived mutation sites" % n_funcs)
    run.count("functions_bytecode_checked", n_funcs)
    return n_funcs
