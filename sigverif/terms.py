"""E3 -- term algebra with a canonical normal form.

A term is a polynomial (``Poly``) with exact complex-rational coefficients over *atoms* raised to
rational exponents.  Atoms:

  ('sym', name, real, conj)             a symbol; ``conj`` marks the conjugate twin of a complex symbol
  ('app', fname, args, real)            an uninterpreted application; args are encoded (see ``enc``)
  ('cmp', polykey)                      a compound atom: a non-monomial sub-term used as a base

Axioms applied by the normaliser (DESIGN 2.3) and nothing else: commutative-ring laws with exact
constants; (Q^a)^b = Q^(ab) and re-expansion of compound atoms raised to positive integers; conj is
an involutive ring automorphism fixing real atoms; abs(z)^2 = z conj(z); real/imag by (z +- conj z)/2;
cos^2 -> 1 - sin^2; exp(a)^m exp(b)^n = exp(ma + nb), exp(0) = 1; sum is linear in scalar factors.
Two terms are equal iff their canonical keys coincide: sound, incomplete.
"""
from fractions import Fraction as Fr

ZERO = (Fr(0), Fr(0))
ONE = (Fr(1), Fr(0))
IMAG = (Fr(0), Fr(1))


def cadd(a, b):
    return (a[0] + b[0], a[1] + b[1])


def cmul(a, b):
    return (a[0] * b[0] - a[1] * b[1], a[0] * b[1] + a[1] * b[0])


def cconj(a):
    return (a[0], -a[1])


def cinv(a):
    d = a[0] * a[0] + a[1] * a[1]
    return (a[0] / d, -a[1] / d)


def cpow(c, n):
    base = c if n >= 0 else cinv(c)
    out = ONE
    for _ in range(abs(n)):
        out = cmul(out, base)
    return out


class Poly:
    __slots__ = ("t", "_key")

    def __init__(self, t=None):
        self.t = {k: v for k, v in (t or {}).items() if v != ZERO}
        self._key = None

    def key(self):
        if self._key is None:
            self._key = tuple(
                sorted(((tuple(sorted(m, key=repr)), c) for m, c in self.t.items()), key=repr)
            )
        return self._key

    def __eq__(self, o):
        return isinstance(o, Poly) and self.key() == o.key()

    def __ne__(self, o):
        return not self.__eq__(o)

    def __hash__(self):
        return hash(self.key())

    def is_const(self):
        return all(len(m) == 0 for m in self.t)

    def const(self):
        return self.t.get(frozenset(), ZERO)

    def is_zero(self):
        return not self.t

    def as_fraction(self):
        """exact real constant or None"""
        if self.is_const():
            c = self.const()
            if c[1] == 0:
                return c[0]
        return None

    def single_atom(self):
        """if the term is exactly one atom^1 with coefficient 1 return the atom else None"""
        if len(self.t) == 1:
            (m, c), = self.t.items()
            if c == ONE and len(m) == 1:
                (a, e), = m
                if e == 1:
                    return a
        return None

    def __repr__(self):
        return show(self)


# ---------------------------------------------------------------------------------------------
# pretty printing (diagnostics only)
# ---------------------------------------------------------------------------------------------
def _cshow(c):
    if c[1] == 0:
        return str(c[0])
    if c[0] == 0:
        return "%sj" % c[1]
    return "(%s%s%sj)" % (c[0], "+" if c[1] >= 0 else "", c[1])


def show_atom(a, depth=0):
    if a[0] == "sym":
        return a[1] + ("~" if a[3] else "")
    if depth > 7:
        return "..." if a[0] != "app" else a[1] + "(...)"
    if a[0] == "app":
        return "%s(%s)" % (a[1], ", ".join(show_enc(x, depth + 1) for x in a[2]))
    if a[0] == "cmp":
        return "(" + _show(from_key(a[1]), depth + 1) + ")"
    return str(a)


def show_enc(x, depth=0):
    if x[0] == "P":
        return _show(from_key(x[1]), depth)
    if x[0] == "T":
        return "[" + ", ".join(show_enc(y, depth) for y in x[1]) + "]"
    return repr(x[1])


def _show(p, depth=0):
    if not p.t:
        return "0"
    out = []
    items = sorted(p.t.items(), key=repr) if len(p.t) <= 40 else list(p.t.items())[:40]
    for m, c in items:
        ms = "*".join(show_atom(a, depth) + ("^%s" % e if e != 1 else "") for a, e in sorted(m, key=repr))
        if not ms:
            out.append(_cshow(c))
        elif c == ONE:
            out.append(ms)
        else:
            out.append(_cshow(c) + "*" + ms)
    return " + ".join(out)


def show(p, limit=400):
    if isinstance(p, (tuple, list)):
        s = "(" + ", ".join(show(x, limit) for x in p) + ")"
        return s if len(s) <= limit else s[:limit] + "..."
    if not isinstance(p, Poly):
        return repr(p)[:limit]
    # depth budget grows with the requested length (diagnostics need little, comparisons of rendered text need all)
    s = _show(p, 0 if limit >= 1000 else 3)
    return s if len(s) <= limit else s[:limit] + "..."


# ---------------------------------------------------------------------------------------------
# constructors
# ---------------------------------------------------------------------------------------------
def const(x, y=0):
    return Poly({frozenset(): (Fr(x), Fr(y))})


def sym(name, real=False):
    return Poly({frozenset({(("sym", name, bool(real), False), Fr(1))}): ONE})


def atom_poly(a):
    return Poly({frozenset({(a, Fr(1))}): ONE})


def from_key(k):
    return Poly({frozenset(m): c for m, c in k})


def enc(x):
    """encode an application argument (Poly | tuple/list | str | None | bool | number)"""
    if isinstance(x, Poly):
        return ("P", x.key())
    if isinstance(x, (tuple, list)):
        return ("T", tuple(enc(y) for y in x))
    return ("S", x if isinstance(x, (str, type(None), bool)) else repr(x))


def dec(x):
    if x[0] == "P":
        return from_key(x[1])
    if x[0] == "T":
        return tuple(dec(y) for y in x[1])
    return x[1]


def enc_is_real(x):
    if x[0] == "P":
        return is_real(from_key(x[1]))
    if x[0] == "T":
        return all(enc_is_real(y) for y in x[1])
    return True


REAL_FUNCS = {
    "abs", "norm", "real", "imag", "angle", "floor", "ceil", "floordiv", "mod", "len", "prod", "max", "min",
    "lt", "le", "gt", "ge", "eq", "ne", "and", "or", "not", "int", "arctan2", "size", "shape", "ndim", "range",
    "isscalar", "is", "isnot", "pos", "nonneg", "zero", "nonzero", "in", "notin", "any", "all", "amin", "amax", "argsort", "arange_real", "sign",
}
ALWAYS_REAL_ATTRS = {"attr:shape", "attr:ndim", "attr:size", "attr:dtype", "attr:ishape", "attr:oshape"}   # real whatever they are taken of
COMMUTATIVE_FUNCS = {"max", "min", "and", "or", "eq", "ne"}


def app(fname, *args, real=None):
    eargs = tuple(enc(a) for a in args)
    if fname in COMMUTATIVE_FUNCS:
        eargs = tuple(sorted(eargs, key=repr))
    if real is None:
        real = fname in REAL_FUNCS or all(enc_is_real(a) for a in eargs)
    return atom_poly(("app", fname, eargs, bool(real)))


# ---------------------------------------------------------------------------------------------
# ring operations
# ---------------------------------------------------------------------------------------------
def add(a, b):
    t = dict(a.t)
    for m, c in b.t.items():
        t[m] = cadd(t.get(m, ZERO), c)
    return Poly(t)


def neg(a):
    return Poly({m: (-c[0], -c[1]) for m, c in a.t.items()})


def sub(a, b):
    return add(a, neg(b))


def mono_mul(m1, m2):
    d = dict(m1)
    for a, e in m2:
        d[a] = d.get(a, Fr(0)) + e
    return frozenset((a, e) for a, e in d.items() if e != 0)


def mul_raw(a, b):
    t = {}
    for m1, c1 in a.t.items():
        for m2, c2 in b.t.items():
            m = mono_mul(m1, m2)
            t[m] = cadd(t.get(m, ZERO), cmul(c1, c2))
    return Poly(t)


def mul(a, b):
    return reduce_rules(mul_raw(a, b))


def scale(a, fr):
    return mul_raw(a, const(fr))


def power(a, e):
    e = Fr(e)
    if e == 0:
        return const(1)
    if e == 1:
        return a
    if a.is_zero():
        return a
    if len(a.t) == 1:
        (m, c), = a.t.items()
        if e.denominator == 1:
            return reduce_rules(Poly({frozenset((at, ex * e) for at, ex in m): cpow(c, int(e))}))
        if c == ONE:
            return reduce_rules(Poly({frozenset((at, ex * e) for at, ex in m): ONE}))
        if c[1] == 0 and c[0] > 0:
            # exact root of a perfect power, else keep c^e as a compound of the constant
            r = _exact_root(c[0], e)
            if r is not None:
                return reduce_rules(Poly({frozenset((at, ex * e) for at, ex in m): (r, Fr(0))}))
            catom = ("cmp", const(c[0]).key())
            return reduce_rules(Poly({frozenset([(at, ex * e) for at, ex in m] + [(catom, e)]): ONE}))
    if e.denominator == 1 and e > 0:
        r = const(1)
        for _ in range(int(e)):
            r = mul_raw(r, a)
        return reduce_rules(r)
    atom = ("cmp", a.key())
    return Poly({frozenset({(atom, e)}): ONE})


def _exact_root(fr, e):
    """fr ** e for rational e when the result is rational, else None"""
    q = e.denominator
    p = e.numerator

    def iroot(n, k):
        if n < 0:
            return None
        r = round(n ** (1.0 / k))
        for c in (r - 1, r, r + 1):
            if c >= 0 and c ** k == n:
                return c
        return None

    a = iroot(fr.numerator, q)
    b = iroot(fr.denominator, q)
    if a is None or b is None or (a == 0 and p < 0):
        return None
    base = Fr(a, b)
    return base ** p


def div(a, b):
    return mul(a, power(b, -1))


# ---------------------------------------------------------------------------------------------
# conjugation, realness
# ---------------------------------------------------------------------------------------------
def conj_atom(a):
    """conjugate of an atom: returns an atom, or ('unwrap', Poly) when conj(conj(x)) collapses"""
    if a[0] == "sym":
        return a if a[2] else ("sym", a[1], a[2], not a[3])
    if a[0] == "app":
        if a[3]:
            return a
        if a[1] == "conj":
            return ("unwrap", dec(a[2][0]))
        if a[1] == "exp":
            return ("app", "exp", (enc(conj(dec(a[2][0]))),), False)
        return ("app", "conj", (enc(atom_poly(a)),), False)
    if a[0] == "cmp":
        return ("cmp", conj(from_key(a[1])).key())
    return a


def conj(p):
    out = Poly()
    for m, c in p.t.items():
        term = Poly({frozenset(): cconj(c)})
        for a, e in m:
            ca = conj_atom(a)
            if ca[0] == "unwrap":
                term = mul_raw(term, power(ca[1], e))
            else:
                term = mul_raw(term, Poly({frozenset({(ca, e)}): ONE}))
        out = add(out, term)
    return reduce_rules(out)


def is_real(p):
    return conj(p) == p


def absq(z):
    return mul(z, conj(z))


def abs_(z):
    if is_real(z):
        # |x| for a real term stays an application (sign unknown); abs(x)^2 -> x^2 in reduce_rules
        # |-x| = |x|: one spelling per pair (the first monomial in key order gets a positive coefficient)
        if z.t:
            m0 = min(z.t, key=repr)
            if z.t[m0][0] < 0:
                z = neg(z)
        return app("abs", z, real=True)
    return power(absq(z), Fr(1, 2))


def real(z):
    return mul(const(Fr(1, 2)), add(z, conj(z)))


def imag(z):
    return mul(Poly({frozenset(): (Fr(0), Fr(-1, 2))}), sub(z, conj(z)))


# ---------------------------------------------------------------------------------------------
# rewrite rules
# ---------------------------------------------------------------------------------------------
def reduce_rules(p):
    changed = True
    guard = 0
    while changed and guard < 200:
        guard += 1
        changed = False
        for m, c in list(p.t.items()):
            for a, e in m:
                if a[0] == "cmp" and e.denominator == 1 and e > 0:
                    rest = frozenset(x for x in m if x[0] != a)
                    q = from_key(a[1])
                    rep = Poly({rest: c})
                    for _ in range(int(e)):
                        rep = mul_raw(rep, q)
                    t = dict(p.t)
                    del t[m]
                    p = add(Poly(t), rep)
                    changed = True
                    break
                if a[0] == "app" and a[1] == "abs" and e.denominator == 1 and e >= 2:
                    # |x|^2 = x^2 for the real application abs(x)
                    inner = dec(a[2][0])
                    rest = mono_mul(frozenset(x for x in m if x[0] != a), frozenset({(a, e - 2)}))
                    rep = mul_raw(Poly({rest: c}), mul_raw(inner, conj(inner)))
                    t = dict(p.t)
                    del t[m]
                    p = add(Poly(t), rep)
                    changed = True
                    break
                if a[0] == "app" and a[1] == "cos" and e.denominator == 1 and e >= 2:
                    rest = mono_mul(frozenset(x for x in m if x[0] != a), frozenset({(a, e - 2)}))
                    sin_atom = ("app", "sin", a[2], a[3])
                    one_minus = Poly({frozenset(): ONE, frozenset({(sin_atom, Fr(2))}): (Fr(-1), Fr(0))})
                    rep = mul_raw(Poly({rest: c}), one_minus)
                    t = dict(p.t)
                    del t[m]
                    p = add(Poly(t), rep)
                    changed = True
                    break
            if changed:
                break
    return merge_exp(p)


def merge_exp(p):
    t = {}
    touched = False
    for m, c in p.t.items():
        exps = [(a, e) for a, e in m if a[0] == "app" and a[1] == "exp" and e.denominator == 1]
        if exps:
            arg = const(0)
            for a, e in exps:
                arg = add(arg, mul_raw(const(e), dec(a[2][0])))
            rest = frozenset(x for x in m if x not in exps)
            if arg.is_zero():
                mm = rest
                touched = True
            else:
                new = ("app", "exp", (enc(arg),), is_real(arg) and False)
                mm = mono_mul(rest, frozenset({(new, Fr(1))}))
                if len(exps) > 1 or exps[0][1] != 1:
                    touched = True
        else:
            mm = m
        t[mm] = cadd(t.get(mm, ZERO), c)
    return Poly(t)


# ---------------------------------------------------------------------------------------------
# equality modulo denominator clearing
# ---------------------------------------------------------------------------------------------
def _neg_cmp_atoms(poly, dens):
    for m in poly.t:
        for a, e in m:
            if e < 0 and e.denominator == 1 and a[0] in ("cmp", "sym", "app"):
                dens[a] = max(dens.get(a, 0), -e)


def eq(p, q):
    """equality; first canonical, then after clearing integer-negative powers"""
    if p == q:
        return True
    dens = {}
    _neg_cmp_atoms(p, dens)
    _neg_cmp_atoms(q, dens)
    if not dens:
        return False
    D = Poly({frozenset((a, Fr(k)) for a, k in dens.items()): ONE})
    return mul(p, D) == mul(q, D)


# ---------------------------------------------------------------------------------------------
# structure traversal: substitution, symbol collection
# ---------------------------------------------------------------------------------------------
def subst(p, mapping):
    """replace symbols (by name, non-conjugated twin; conjugated twin gets conj of replacement)"""
    if isinstance(p, tuple):
        return tuple(subst(x, mapping) for x in p)
    if not isinstance(p, Poly):
        return p
    out = Poly()
    for m, c in p.t.items():
        term = Poly({frozenset(): c})
        for a, e in m:
            term = mul_raw(term, power(_subst_atom(a, mapping), e))
        out = add(out, term)
    return reduce_rules(out)


def _subst_enc(x, mapping):
    if x[0] == "P":
        return subst(from_key(x[1]), mapping)
    if x[0] == "T":
        return tuple(_subst_enc(y, mapping) for y in x[1])
    return x[1]


def _subst_atom(a, mapping):
    if a[0] == "sym":
        if a[1] in mapping:
            r = mapping[a[1]]
            if not isinstance(r, Poly):
                raise TypeError("substituting non-scalar for symbol %s inside arithmetic" % a[1])
            return conj(r) if a[3] else r
        return atom_poly(a)
    if a[0] == "app":
        args = [_subst_enc(x, mapping) for x in a[2]]
        if a[1] == "conj":
            return conj(args[0])
        return app(a[1], *args, real=True if (a[3] and (a[1] in REAL_FUNCS or a[1] in ALWAYS_REAL_ATTRS)) else None)
    if a[0] == "cmp":
        inner = subst(from_key(a[1]), mapping)
        # re-normalise: a compound that became a monomial must merge
        return _as_base(inner)
    return atom_poly(a)


def _as_base(inner):
    if len(inner.t) == 1:
        return inner
    return Poly({frozenset({(("cmp", inner.key()), Fr(1))}): ONE})


def symbols(p, acc=None):
    acc = set() if acc is None else acc
    if isinstance(p, tuple):
        for x in p:
            symbols(x, acc)
        return acc
    if not isinstance(p, Poly):
        return acc
    for m in p.t:
        for a, _ in m:
            _atom_syms(a, acc)
    return acc


def _enc_syms(x, acc):
    if x[0] == "P":
        symbols(from_key(x[1]), acc)
    elif x[0] == "T":
        for y in x[1]:
            _enc_syms(y, acc)


def _atom_syms(a, acc):
    if a[0] == "sym":
        acc.add(a[1])
    elif a[0] == "app":
        for x in a[2]:
            _enc_syms(x, acc)
    elif a[0] == "cmp":
        symbols(from_key(a[1]), acc)


def apps(p, fname=None, acc=None):
    """collect application atoms (optionally by name) anywhere inside the term"""
    acc = [] if acc is None else acc
    if isinstance(p, tuple):
        for x in p:
            apps(x, fname, acc)
        return acc
    if not isinstance(p, Poly):
        return acc
    for m in p.t:
        for a, _ in m:
            _atom_apps(a, fname, acc)
    return acc


def _atom_apps(a, fname, acc):
    if a[0] == "app":
        if fname is None or a[1] == fname:
            acc.append(a)
        for x in a[2]:
            _enc_apps(x, fname, acc)
    elif a[0] == "cmp":
        apps(from_key(a[1]), fname, acc)


def _enc_apps(x, fname, acc):
    if x[0] == "P":
        apps(from_key(x[1]), fname, acc)
    elif x[0] == "T":
        for y in x[1]:
            _enc_apps(y, fname, acc)


def linear_coeffs(p, names):
    """Split p = sum_k coeff_k * sym_k + rest for the given symbol names (each must occur to power 1,
    non-conjugated, at most one per monomial).  Returns (dict name->Poly, rest) or None if not affine."""
    co = {n: Poly() for n in names}
    rest = Poly()
    for m, c in p.t.items():
        hits = [(a, e) for a, e in m if a[0] == "sym" and a[1] in names]
        if not hits:
            # the symbols must not hide inside applications either
            rest = add(rest, Poly({m: c}))
            continue
        if len(hits) != 1 or hits[0][1] != 1 or hits[0][0][3]:
            return None
        a = hits[0][0]
        co[a[1]] = add(co[a[1]], Poly({frozenset(x for x in m if x[0] != a): c}))
    inner = symbols(rest)
    for v in co.values():
        inner |= symbols(v)
    if inner & set(names):
        return None
    return co, rest
