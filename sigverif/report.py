"""Verdict contract, evidence writer, known-findings handling.

Four states per rule instance (DESIGN 1.1): holds / VIOLATION / KNOWN-FINDING / ANALYSIS-ERROR.
Exit codes: 0 held (KNOWN-FINDING lines allowed), 1 violation (with a VIOLATION line), 2 analysis error.
"""
import json
import os
import sys
import time

from .model import norm_text

VERIF_ROOT = os.path.dirname(os.path.dirname(os.path.abspath(__file__)))


class Finding:
    def __init__(self, rule, construct, loc, msg, stmt=""):
        self.rule = rule
        self.construct = construct
        self.loc = loc
        self.msg = msg
        self.stmt = norm_text(stmt) if stmt else ""

    def key(self):
        return (self.rule, self.construct, self.stmt)

    def as_dict(self, pid):
        return {
            "property": pid,
            "rule": self.rule,
            "construct": self.construct,
            "stmt": self.stmt,
            "where": self.loc,
            "what": self.msg,
        }


class Run:
    def __init__(self, pid, tier, repo, level="other"):
        self.pid = pid
        self.tier = tier
        self.repo = repo
        self.level = level
        self.t0 = time.time()
        self.obligations = []  # (rule, construct, ok, detail, loc)
        self.findings = []
        self.infos = []
        self.errors = []
        self.rules = {}  # rule -> description
        self.floors = {}  # rule -> (floor, actual)
        self.controls = []  # (rule, name, fired_expected, fired)
        self.assumptions = []
        self.analysed = {}
        self.trusted = []
        self.extra = {}

    # ---- registration
    def rule(self, rid, text):
        self.rules[rid] = text

    def assume(self, text):
        if text not in self.assumptions:
            self.assumptions.append(text)

    def trust(self, text):
        if text not in self.trusted:
            self.trusted.append(text)

    def count(self, key, n=1):
        self.analysed[key] = self.analysed.get(key, 0) + n

    # ---- obligations
    def ok(self, rule, construct, detail, loc=None):
        self.obligations.append((rule, construct, True, detail, loc))

    def bad(self, rule, construct, loc, msg, stmt=""):
        self.obligations.append((rule, construct, False, msg, loc))
        f = Finding(rule, construct, loc, msg, stmt)
        if not any(g.key() == f.key() and g.loc == f.loc and g.msg == f.msg for g in self.findings):
            self.findings.append(f)

    def check(self, cond, rule, construct, loc, detail_ok, msg_bad=None, stmt=""):
        if cond:
            self.ok(rule, construct, detail_ok, loc)
        else:
            self.bad(rule, construct, loc, msg_bad or ("expected: " + detail_ok), stmt)
        return cond

    def info(self, text):
        self.infos.append(text)

    def error(self, text):
        self.errors.append(text)

    def floor(self, rule, floor, actual, what):
        self.floors[rule] = {"floor": floor, "actual": actual, "what": what}
        if actual < floor:
            self.error("rule %s matched %d %s, below the floor of %d confirmed by hand" % (rule, actual, what, floor))

    def control(self, rule, name, expect_fire, fired):
        self.controls.append({"rule": rule, "control": name, "expected_to_fire": expect_fire, "fired": fired})
        if bool(expect_fire) != bool(fired):
            self.error(
                "control %s of rule %s: expected %s but the rule %s"
                % (name, rule, "a report" if expect_fire else "silence", "fired" if fired else "stayed silent")
            )

    # ---- finish
    def finish(self):
        known = _load_known()
        known_keys = {}
        for k in known.get("known", []):
            if k.get("property") == self.pid:
                known_keys[(k["rule"], k["construct"], norm_text(k.get("stmt", "")))] = k
        out_dir = os.path.join(VERIF_ROOT, "out", self.pid)
        viol, knownf = [], []
        for f in self.findings:
            if f.key() in known_keys:
                knownf.append(f)
            else:
                viol.append(f)
        lines = []
        code = 0
        if self.errors:
            code = 2
            for e in self.errors:
                lines.append("ANALYSIS-ERROR property=%s %s" % (self.pid, e))
        for f in knownf:
            lines.append("KNOWN-FINDING: property=%s %s [%s] %s: %s" % (self.pid, f.loc, f.rule, f.construct, f.msg))
        if viol and code == 0:
            code = 1
        if os.environ.get("SIGVERIF_NO_EVIDENCE"):
            out_dir = os.path.join(os.environ.get("TMPDIR", "/tmp"), "sigverif-out", self.pid)
        if viol:
            os.makedirs(out_dir, exist_ok=True)
            for old in os.listdir(out_dir):
                if old.startswith("violation-"):
                    os.remove(os.path.join(out_dir, old))
            for i, f in enumerate(viol):
                path = os.path.join(out_dir, "violation-%d.json" % i)
                with open(path, "w") as fh:
                    json.dump(dict(f.as_dict(self.pid), repo=self.repo, tier=self.tier), fh, indent=1)
                if code == 1:
                    lines.append("VIOLATION property=%s replay=%s" % (self.pid, path))
                lines.append("  %s  [%s] %s: %s" % (f.loc, f.rule, f.construct, f.msg))
        for i in self.infos:
            lines.append("INFO property=%s %s" % (self.pid, i))
        self._write_evidence(len(viol), knownf)
        n_ok = sum(1 for o in self.obligations if o[2])
        lines.append(
            "%s property=%s tier=%s obligations=%d held=%d violations=%d known=%d wall=%.2fs"
            % (
                {0: "OK", 1: "FAIL", 2: "ERROR"}[code],
                self.pid,
                self.tier,
                len(self.obligations),
                n_ok,
                len(viol),
                len(knownf),
                time.time() - self.t0,
            )
        )
        print("\n".join(lines))
        sys.stdout.flush()
        return code

    def _write_evidence(self, nviol, knownf):
        distinct = sorted({(o[0], o[1]) for o in self.obligations})
        samples = []
        seen_rules = set()
        for o in self.obligations:
            if o[0] in seen_rules and len(samples) >= 6:
                continue
            if o[0] in seen_rules and sum(1 for s in samples if s["rule"] == o[0]) >= 2:
                continue
            seen_rules.add(o[0])
            samples.append({"rule": o[0], "construct": o[1], "held": o[2], "detail": o[3], "where": o[4]})
            if len(samples) >= 24:
                break
        n_ob = len(self.obligations)
        n_ok = sum(1 for o in self.obligations if o[2])
        cov = {
            "explanation": "Static analysis of the source text of %s/sigpy (stdlib ast; nothing imported or executed). "
            "Rules: %s" % (self.repo, "; ".join("%s = %s" % kv for kv in sorted(self.rules.items()))),
            "evaluations": max(n_ob, 0),
            "distinct_nontrivial": len(distinct),
            "rule": "one evaluation = one (rule, construct) obligation whose recogniser matched a construct of the "
            "analysed tree; distinct = distinct (rule, construct) pairs; a rule matching fewer constructs than its "
            "hand-confirmed floor is an analysis error, never a pass",
            "samples": samples,
            "obligations": n_ob,
            "discharged": n_ok,
            "checker_cmd": "bin/check %s --tier %s" % (self.pid, self.tier),
            "trusted_base": self.trusted,
            "analysed": self.analysed,
            "floors": self.floors,
            "controls": self.controls,
            "known_findings_reported": [f.as_dict(self.pid) for f in knownf],
            "info": self.infos,
            "analysis_errors": self.errors,
            "exhaustive": True,
        }
        cov.update(self.extra)
        ev = {
            "property_id": self.pid,
            "tier": self.tier,
            "seed": int(os.environ.get("VERIF_SEED", "0") or 0),
            "level": self.level,
            "coverage": cov,
            "assumptions": self.assumptions,
            "wall_s": round(time.time() - self.t0, 3),
            "violations": nviol,
        }
        path = os.path.join(VERIF_ROOT, "evidence", "%s.json" % self.pid)
        if os.environ.get("SIGVERIF_NO_EVIDENCE"):
            return  # developer self-test runs against scratch copies must not overwrite evidence
        os.makedirs(os.path.dirname(path), exist_ok=True)
        tmp = path + ".tmp"
        with open(tmp, "w") as fh:
            json.dump(ev, fh, indent=1, default=str)
        os.replace(tmp, path)


def _load_known():
    p = os.path.join(VERIF_ROOT, "known_findings.json")
    if not os.path.exists(p):
        return {}
    with open(p) as fh:
        return json.load(fh)
