"""sigverif -- repository-specific static analysis deciding the 20 sigpy properties (see DESIGN.md)."""
