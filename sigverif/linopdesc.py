"""E4 -- operator descriptors and a symbolic Linop algebra.

For every Linop subclass the constructor is value-numbered with symbolic parameters, giving generic
*instances* (one per constructor path): attribute values, and the (oshape, ishape) handed to
``super().__init__`` as terms over the constructor parameters.  ``_adjoint_linop`` / ``_normal_linop``
bodies are then value-numbered in the context of such an instance; constructor calls inside them
produce ``LV`` objects (by value-numbering the callee class's constructor with the actual arguments),
``*``, ``+``, ``-``, scalar ``*`` and ``.H`` build composite ``LV`` values exactly as the overloads of
``Linop`` do (that the overloads build those nodes is rule G1 of C03 -- assume/guarantee).
"""
import ast

from . import terms as T
from .model import AnchorMissing, Unrecognised, is_self_attr, unparse, walk_no_nested
from .vn import NONE, VN, Closure, Obj, State, TRUE, FALSE

LINOP = "sigpy.linop.Linop"


class LV(Obj):
    """symbolic linear-operator value"""

    def __init__(self, alg, kind, cls=None, args=None, attrs=None, oshape=None, ishape=None, parts=None, name=None,
                 node=None, extra=None):
        self.alg = alg
        self.kind = kind  # prim | compose | add | adj | opaque | conj
        self.cls = cls
        self.args = args or {}
        self.attrs = attrs or {}
        self._oshape = oshape
        self._ishape = ishape
        self.parts = parts or []
        self.name = name
        self.node = node
        self.extra = extra or {}

    # ---- shapes
    @property
    def oshape(self):
        if self.kind == "compose":
            return self.parts[0].oshape
        if self.kind in ("add", "conj"):
            return self.parts[0].oshape
        if self.kind == "adj":
            return self.parts[0].ishape
        if self.kind == "opaque":
            return T.app("attr:oshape", T.sym(self.name, real=True))
        return self._oshape

    @property
    def ishape(self):
        if self.kind == "compose":
            return self.parts[-1].ishape
        if self.kind in ("add", "conj"):
            return self.parts[0].ishape
        if self.kind == "adj":
            return self.parts[0].oshape
        if self.kind == "opaque":
            return T.app("attr:ishape", T.sym(self.name, real=True))
        return self._ishape

    def as_term(self):
        if self.kind == "prim":
            return T.app("new:" + self.cls.qual, *[T.app("kw:" + p, _t(self.args[p])) for p in sorted(self.args)])
        if self.kind == "opaque":
            return T.sym(self.name, real=True)
        if self.kind == "adj":
            return T.app("attr:H", self.parts[0].as_term())
        return T.app(self.kind, *[p.as_term() for p in self.parts])

    def describe(self):
        if self.kind == "prim":
            return "%s(%s)" % (self.cls.name, ", ".join("%s=%s" % (k, _show(v)) for k, v in self.args.items()))
        if self.kind == "opaque":
            return self.name
        if self.kind == "adj":
            return self.parts[0].describe() + ".H"
        sep = {"compose": " * ", "add": " + "}.get(self.kind, ", ")
        return "(" + sep.join(p.describe() for p in self.parts) + ")"

    # ---- Obj protocol
    def vn_getattr(self, name, vn, st, node):
        if name == "oshape":
            return self.oshape
        if name == "ishape":
            return self.ishape
        if name == "H":
            return self.alg.adjoint(self, vn, st)
        if name == "N":
            return self.alg.normal(self, vn, st)
        if name == "linops" and self.kind in ("compose", "add"):
            return tuple(self.parts)
        if self.kind == "prim" and name in self.attrs:
            return self.attrs[name]
        if name == "repr_str":
            return T.sym("<repr>", real=True)
        return None

    def vn_call(self, vn, call, args, kw, st):
        return T.app("apply", self.as_term(), *[vn._as_term(a) for a in args])

    def vn_binop(self, op, other, reflected, vn, node):
        alg = self.alg
        if isinstance(op, ast.Mult):
            if isinstance(other, LV):
                a, b = (other, self) if reflected else (self, other)
                return alg.compose([a, b])
            if isinstance(other, T.Poly) and not reflected and (T.symbols(other) & alg.array_syms):
                return T.app("apply", self.as_term(), other)
            if isinstance(other, T.Poly):
                if reflected:  # a * A  -> Compose([Multiply(A.oshape, a), A])   (Linop.__rmul__)
                    return alg.compose([alg.make("sigpy.linop.Multiply", {"ishape": self.oshape, "mult": other}, st_conds=[]), self])
                return alg.compose([self, alg.make("sigpy.linop.Multiply", {"ishape": self.ishape, "mult": other}, st_conds=[])])
        if isinstance(op, ast.Add) and isinstance(other, LV):
            a, b = (other, self) if reflected else (self, other)
            return alg.add([a, b])
        if isinstance(op, ast.Sub) and isinstance(other, LV):
            a, b = (other, self) if reflected else (self, other)
            return alg.add([a, alg.neg(b)])
        return None


def _t(v):
    if isinstance(v, Obj):
        return v.as_term()
    if isinstance(v, tuple):
        return tuple(_t(x) for x in v)
    if isinstance(v, Closure):
        return T.sym("<closure>", real=True)
    return v


def _show(v):
    v = _t(v)
    if isinstance(v, T.Poly):
        return T.show(v, 90)
    return repr(v)[:90]


def val_eq(a, b):
    a, b = _t(a), _t(b)
    if isinstance(a, tuple) or isinstance(b, tuple):
        if isinstance(a, tuple) and isinstance(b, tuple):
            return len(a) == len(b) and all(val_eq(x, y) for x, y in zip(a, b))
        # a python tuple display vs a term: compare encodings
        return T.enc(a) == T.enc(b)
    if isinstance(a, T.Poly) and isinstance(b, T.Poly):
        return T.eq(a, b)
    return a == b


class Instance:
    """generic symbolic instance of a Linop class on one constructor path"""

    def __init__(self, cls, conds, attrs, oshape, ishape, params):
        self.cls = cls
        self.conds = conds
        self.attrs = attrs
        self.oshape = oshape
        self.ishape = ishape
        self.params = params


class LinAlg:
    def __init__(self, model):
        self.M = model
        self.base = model.cls(LINOP)
        self.classes = {c.qual: c for c in model.subclasses(LINOP)}
        self.depth = 0
        self.notes = []
        # symbols known to hold arrays (so `A * y` is an application, not a scaling)
        self.array_syms = {"input", "self.y", "self.x", "self.z", "x", "y", "v", "u", "output", "$x", "$input"}

    # ------------------------------------------------------------------ VN plumbing
    def vn(self, func, **kw):
        kw.setdefault("loop_hook", havoc_loop)
        return VN(self.M, func, call_hook=self.call_hook, **kw)

    def call_hook(self, vn, call, st):
        f = call.func
        # super().__init__(oshape, ishape, ...)
        if (isinstance(f, ast.Attribute) and f.attr == "__init__" and isinstance(f.value, ast.Call)
                and isinstance(f.value.func, ast.Name) and f.value.func.id == "super"):
            init = self.M.method(self.base, "__init__")
            b = self.M.bind(call, init)
            st.env["self.oshape"] = vn.ev(b["oshape"], st)
            st.env["self.ishape"] = vn.ev(b["ishape"], st)
            return NONE
        # super()._normal_linop() / super()._adjoint_linop(): the base class's method evaluated on the same operator
        if (isinstance(f, ast.Attribute) and f.attr in ("_normal_linop", "_adjoint_linop") and isinstance(f.value, ast.Call)
                and isinstance(f.value.func, ast.Name) and f.value.func.id == "super" and not call.args):
            bf = self.M.method(self.base, f.attr, inherit=False)
            if bf is not None and self.depth <= 6:
                self.depth += 1
                try:
                    outs = [o for o in self.vn(bf).run(bf.body, State(st.env, st.conds)) if o.status == "return"]
                finally:
                    self.depth -= 1
                if len(outs) == 1:
                    return outs[0].ret
        if vn.func is None:
            return None
        tgt = self.M.resolve_call(vn.func, call)
        if tgt[0] == "class" and (tgt[1].qual in self.classes):
            cls = tgt[1]
            init = self.M.method(cls, "__init__")
            b = self.M.bind(call, init)
            vals = {}
            for p, node in b.items():
                if isinstance(node, (list, dict)):
                    raise Unrecognised("varargs constructor call", call)
                vals[p] = vn.ev(node, st)
            return self.make(cls.qual, vals, st_conds=st.conds, node=call)
        return None

    # ------------------------------------------------------------------ construction
    def make(self, qual, vals, st_conds=(), node=None):
        cls = self.M.cls(qual)
        # Compose([...]) / Add([...]) written out explicitly over known operator values are the algebra's own nodes
        if qual in ("sigpy.linop.Compose", "sigpy.linop.Add") and isinstance(vals.get("linops"), tuple) and vals["linops"] \
                and all(isinstance(x, LV) for x in vals["linops"]):
            return self.compose(list(vals["linops"])) if qual.endswith("Compose") else self.add(list(vals["linops"]))
        init = self.M.method(cls, "__init__")
        if init is None:
            raise AnchorMissing(qual + ".__init__")
        params = init.params[1:]
        env = {}
        for p in params:
            if p in vals:
                env[p] = vals[p]
            elif p in init.defaults:
                env[p] = VN().ev(init.defaults[p], State())
            else:
                raise Unrecognised("constructor %s called without `%s`" % (qual, p), node)
        if self.depth > 6:
            raise Unrecognised("constructor nesting too deep at %s" % qual, node)
        self.depth += 1
        try:
            vn = self.vn(init)
            outs = vn.run(init.body, State(env, list(st_conds)))
        finally:
            self.depth -= 1
        outs = [o for o in outs if o.status != "raise"]
        if not outs:
            raise Unrecognised("every path of %s.__init__ raises for these arguments" % qual, node)
        base_n = len(list(st_conds))
        cols = [(o.conds[base_n:], self._collect(o)) for o in outs]
        attrs_keys = set()
        for _, (a, _, _) in cols:
            attrs_keys |= set(a)
        attrs = {k: _merge([(cd, a.get(k, NONE)) for cd, (a, _, _) in cols]) for k in sorted(attrs_keys)}
        osh = _merge([(cd, o_) for cd, (_, o_, _) in cols])
        ish = _merge([(cd, i_) for cd, (_, _, i_) in cols])
        return LV(self, "prim", cls=cls, args={p: env[p] for p in params}, attrs=attrs, oshape=osh, ishape=ish, node=node)

    def _collect(self, st):
        attrs = {k[5:]: v for k, v in st.env.items() if k.startswith("self.") and k.count(".") == 1}
        osh = attrs.pop("oshape", None)
        ish = attrs.pop("ishape", None)
        return attrs, osh, ish

    def instances(self, cls):
        """generic instances: one per non-raising constructor path with symbolic parameters"""
        init = self.M.method(cls, "__init__")
        params = init.params[1:]
        env = {p: T.sym(p, real=True) for p in params}
        vn = self.vn(init, real=set(params))
        outs = vn.run(init.body, State(env, []))
        res = []
        for o in outs:
            if o.status == "raise":
                continue
            attrs, osh, ish = self._collect(o)
            if osh is None or ish is None:
                raise Unrecognised("%s.__init__ has a path that never calls super().__init__" % cls.qual, init.node)
            # a parameter known to be None on this path is the constant None
            none_map = {}
            for cnd in o.conds:
                a = cnd.single_atom()
                if a is not None and a[0] == "app" and a[1] == "is":
                    x, y = T.dec(a[2][0]), T.dec(a[2][1])
                    xa = x.single_atom() if isinstance(x, T.Poly) else None
                    if y == NONE and xa is not None and xa[0] == "sym" and xa[1] in params:
                        none_map[xa[1]] = NONE
            if none_map:
                attrs = {k: _subst_val(v, none_map) for k, v in attrs.items()}
                osh, ish = _subst_val(osh, none_map), _subst_val(ish, none_map)
            res.append(Instance(cls, o.conds, attrs, osh, ish, params))
        return res

    def self_lv(self, inst):
        args = {p: T.sym(p, real=True) for p in inst.params}
        return LV(self, "prim", cls=inst.cls, args=args, attrs=dict(inst.attrs), oshape=inst.oshape, ishape=inst.ishape)

    def eval_method(self, inst_or_lv, name, conds=()):
        """value-number method `name` of the instance's class with self bound to it; returns list of
        (conds, returned value)"""
        lv = inst_or_lv if isinstance(inst_or_lv, LV) else self.self_lv(inst_or_lv)
        f = self.M.method(lv.cls, name)
        if f is None:
            raise AnchorMissing("%s.%s" % (lv.cls.qual, name))
        env = {"self": lv}
        for k, v in lv.attrs.items():
            env["self." + k] = v
        env["self.oshape"] = lv.oshape
        env["self.ishape"] = lv.ishape
        base_conds = list(conds) if conds else (list(inst_or_lv.conds) if isinstance(inst_or_lv, Instance) else [])
        vn = self.vn(f, real={p for p in lv.args})
        if self.depth > 6:
            raise Unrecognised("adjoint nesting too deep at %s" % f.qual)
        self.depth += 1
        try:
            outs = vn.run(f.body, State(env, base_conds))
        finally:
            self.depth -= 1
        res = []
        for o in outs:
            if o.status == "raise":
                continue
            if o.status != "return":
                raise Unrecognised("%s has a path without return" % f.qual, f.node)
            res.append((o.conds, o.ret))
        return f, res

    # ------------------------------------------------------------------ algebra
    def compose(self, parts):
        flat = []
        for p in parts:
            if isinstance(p, LV) and p.kind == "compose":
                flat.extend(p.parts)
            else:
                flat.append(p)
        return LV(self, "compose", parts=flat)

    def add(self, parts):
        return LV(self, "add", parts=list(parts))

    def neg(self, lv):
        return self.compose([self.make("sigpy.linop.Multiply", {"ishape": lv.oshape, "mult": T.const(-1)}), lv])

    def opaque(self, name):
        return LV(self, "opaque", name=name)

    def adjoint(self, lv, vn=None, st=None, conds=None):
        if conds is None:
            conds = st.conds if st is not None else ()
        if lv.kind == "opaque":
            return LV(self, "adj", parts=[lv])
        if lv.kind == "adj":
            return lv.parts[0]
        if lv.kind == "compose":  # relies on rule A4 (Compose reverses and adjoints)
            return self.compose([self.adjoint(p) for p in reversed(lv.parts)])
        if lv.kind == "add":
            return self.add([self.adjoint(p) for p in lv.parts])
        if lv.kind == "prim":
            f, res = self.eval_method(lv, "_adjoint_linop", conds=conds)
            vals = [r for _, r in res]
            if len(vals) != 1:
                first = vals[0]
                if not all(isinstance(v, LV) and v.as_term() == first.as_term() for v in vals):
                    raise Unrecognised("adjoint of %s is path-dependent" % lv.describe())
            if not isinstance(vals[0], LV):
                raise Unrecognised("adjoint of %s is not a recognised operator expression" % lv.describe())
            return vals[0]
        raise Unrecognised("adjoint of %s" % lv.kind)

    def normal(self, lv, vn=None, st=None):
        if lv.kind == "prim":
            f, res = self.eval_method(lv, "_normal_linop", conds=(st.conds if st is not None else ()))
            vals = [r for _, r in res]
            if len(vals) == 1 and isinstance(vals[0], LV):
                return vals[0]
        return self.compose([self.adjoint(lv), lv])


def _merge(items):
    """value that depends on the constructor path: equal on all paths -> that value, else a canonical
    `paths` term keyed by the path conditions (deterministic, so equal constructions give equal terms)"""
    first = items[0][1]
    if all(val_eq(first, v) for _, v in items[1:]):
        return first
    alts = []
    for conds, v in items:
        c = T.app("and", *conds) if conds else TRUE
        alts.append(T.app("path", c, _t(v)))
    alts.sort(key=lambda a: repr(a.key()))
    return T.app("paths", *alts)


def _subst_val(v, mapping):
    if isinstance(v, (T.Poly, tuple)):
        try:
            return T.subst(v, mapping)
        except TypeError:
            return v
    return v


def havoc_loop(vn, s, st):
    """loops inside value-numbered constructors: every name written in the loop becomes an opaque but
    deterministic function of everything the loop reads (equal inputs => equal outputs)"""
    written = set()
    reads = []
    for n in ast.walk(s):
        if isinstance(n, (ast.Assign, ast.AugAssign)):
            tgts = n.targets if isinstance(n, ast.Assign) else [n.target]
            for t in tgts:
                for x in ast.walk(t):
                    k = vn.key_of(x) if isinstance(x, (ast.Name, ast.Attribute)) else None
                    if k and isinstance(x.ctx, ast.Store):
                        written.add(k)
                    if isinstance(x, ast.Subscript) and isinstance(x.ctx, ast.Store):
                        kk = vn.key_of(x.value)
                        if kk:
                            written.add(kk)
        if isinstance(n, ast.Call) and isinstance(n.func, ast.Attribute) and n.func.attr in ("append", "extend"):
            k = vn.key_of(n.func.value)
            if k:
                written.add(k)
        if isinstance(n, (ast.For,)):
            for x in ast.walk(n.target):
                if isinstance(x, ast.Name):
                    written.add(x.id)
    seen = set()
    import copy as _copy
    s_canon = _canon_compare(_copy.deepcopy(s))     # the order in which the loop's inputs are listed must not depend on `a < b` vs `b > a`
    for n in ast.walk(s_canon):
        if isinstance(n, (ast.Name, ast.Attribute)) and isinstance(getattr(n, "ctx", None), ast.Load):
            k = vn.key_of(n)
            if k and k not in seen and (k in st.env):
                seen.add(k)
                reads.append(vn._as_term(st.env[k]))
    sig, canon = _loop_sig(s)
    tag = T.sym("loop@" + sig, real=True)
    for k in sorted(written):
        st.env[k] = T.app("loopval:" + canon.get(k, k), tag, *reads)
    return [st]


def _canon_compare(t):
    """`a < b` and `b > a` are one comparison: one direction is kept (in place, on a copy owned by the caller)"""
    for n in ast.walk(t):
        if isinstance(n, ast.Compare) and len(n.ops) == 1 and isinstance(n.ops[0], (ast.Lt, ast.LtE)):
            n.left, n.comparators = n.comparators[0], [n.left]
            n.ops = [ast.Gt() if isinstance(n.ops[0], ast.Lt) else ast.GtE()]
    return t


def _loop_sig(s):
    """alpha-invariant signature of a loop: plain names are numbered by first appearance before hashing, so that renaming a local
    does not change the opaque value the loop stands for (attribute names, constants and structure still count)"""
    import copy
    import hashlib
    t = _canon_compare(copy.deepcopy(s))
    canon = {}
    for n in ast.walk(t):
        if isinstance(n, ast.Name):
            if n.id not in canon:
                canon[n.id] = "n%d" % len(canon)
            n.id = canon[n.id]
    return hashlib.sha1(ast.dump(t).encode()).hexdigest()[:10], canon
