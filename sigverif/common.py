"""Helpers shared by rule modules."""
import ast

from . import terms as T
from .model import Unrecognised, norm_text, unparse
from .vn import VN, State, cond_text


def loc(func, node=None):
    return func.loc(node)


def parse_ref(src):
    return ast.parse(src).body


def vn_paths(model, func, stmts=None, env=None, **kw):
    """value-number a function body (or given statements); returns list of final States"""
    vn = VN(model, func, **kw)
    st = State(env or {})
    return vn, vn.run(stmts if stmts is not None else func.body, st)


def vn_ref(src, env=None, model=None, func=None, **kw):
    vn = VN(model, func, **kw)
    return vn, vn.run(parse_ref(src), State(env or {}))


def condset(st):
    return frozenset(c.key() for c in st.conds)


def compare_with_reference(run, rule, construct, func, code_states, ref_states, variables, what,
                           default_sym=None, live_only=False):
    """Every code path must refine exactly the reference paths whose condition set it contains, and
    agree with them on the listed state variables (E3 equality)."""
    vn_sym = default_sym or (lambda k: T.sym(k))
    n_ok = 0
    # a procedure that ends with a bare `return` and one that falls off its end finish the same way
    for st_ in list(code_states) + list(ref_states):
        if st_.status == "return" and (st_.ret is None or (isinstance(st_.ret, T.Poly) and T.show(st_.ret, 10) == "None")):
            st_.status = "live"
    for cs in code_states:
        if cs.status == "raise":
            continue
        cset = condset(cs)
        matches = [rs for rs in ref_states if condset(rs) <= cset and rs.status == cs.status]
        if not matches:
            # the code may split the cases differently (nested ifs for an if/elif chain): a reference path also covers this code path when each of
            # its conditions is implied by the code path's -- it is one of them, or a disjunction one of whose members is
            matches = [rs for rs in ref_states if rs.status == cs.status and all(_implied(r, cs.conds) for r in rs.conds)]
        if not matches:
            run.bad(rule, construct, loc(func), "%s: the path under [%s] (ends in %s) has no counterpart in the reference %s"
                    % (func.qual, cond_text(cs.conds), cs.status, what), stmt="path:" + cond_text(cs.conds))
            continue
        # most specific reference path
        rs = max(matches, key=lambda r: len(r.conds))
        diffs = []
        for v in variables:
            a = cs.env.get(v)
            b = rs.env.get(v)
            if a is None:
                a = vn_sym(v)
            if b is None:
                b = vn_sym(v)
            if isinstance(a, T.Poly) and isinstance(b, T.Poly):
                same = T.eq(a, b)
            else:
                same = T.enc(a) == T.enc(b) if not (isinstance(a, tuple) or isinstance(b, tuple)) else _tuple_eq(a, b)
            if not same:
                diffs.append((v, a, b))
        if cs.status == "return" and "<return>" in variables:
            pass
        if diffs:
            for v, a, b in diffs:
                run.bad(rule, construct, loc(func),
                        "%s: on the path [%s] the new value of %s is not the %s value; found %s ; expected %s"
                        % (func.qual, cond_text(cs.conds), v, what, _short(a), _short(b)), stmt="%s@%s" % (v, cond_text(rs.conds)))
        else:
            n_ok += 1
            run.ok(rule, construct + " path[" + cond_text(rs.conds)[:80] + "]",
                   "post-state of %s equals the %s on this path" % (", ".join(variables), what), loc(func))
    return n_ok


def _implied(r, conds):
    from .vn import conjuncts
    if any(r == c for c in conds):
        return True
    a = r.single_atom() if isinstance(r, T.Poly) else None
    if a is not None and a[0] == "app" and a[1] in ("nonneg", "nonzero") and len(a[2]) == 1:
        x = T.dec(a[2][0])
        if isinstance(x, T.Poly):
            nx = T.neg(x)
            have = lambda name, t: any(c == T.app(name, t) for c in conds)
            if a[1] == "nonneg" and (have("zero", x) or have("zero", nx) or have("pos", x)):
                return True      # d == 0 or d > 0 gives d >= 0
            if a[1] == "nonzero" and (have("pos", x) or have("pos", nx)):
                return True      # d > 0 or d < 0 gives d != 0
    if a is not None and a[0] == "app" and a[1] == "or":
        for d in a[2]:
            dd = T.dec(d)
            if isinstance(dd, T.Poly) and all(_implied(x, conds) for x in conjuncts(dd)):
                return True
    return False


def _tuple_eq(a, b):
    if isinstance(a, tuple) and isinstance(b, tuple):
        return len(a) == len(b) and all(_tuple_eq(x, y) for x, y in zip(a, b))
    if isinstance(a, T.Poly) and isinstance(b, T.Poly):
        return T.eq(a, b)
    return False


def _short(v, n=260):
    s = T.show(v, n) if isinstance(v, T.Poly) else repr(v)
    return s if len(s) <= n else s[:n] + "..."


def find_assign(func, name):
    """all Assign/AugAssign nodes in func (no nested defs) whose target is the plain name / dotted key"""
    out = []
    from .model import walk_no_nested
    for n in walk_no_nested(func.node):
        if isinstance(n, ast.Assign):
            for t in n.targets:
                if _key(t) == name:
                    out.append(n)
        elif isinstance(n, ast.AugAssign) and _key(n.target) == name:
            out.append(n)
    out.sort(key=lambda n: n.lineno)
    return out


def _key(e):
    if isinstance(e, ast.Name):
        return e.id
    if isinstance(e, ast.Attribute):
        b = _key(e.value)
        return None if b is None else b + "." + e.attr
    return None


key_of = _key


def term_of_expr(model, func, expr, env=None, **kw):
    vn = VN(model, func, **kw)
    return vn.ev(expr, State(env or {}))


def term_of_src(src, env=None, **kw):
    vn = VN(None, None, **kw)
    return vn.ev(ast.parse(src, mode="eval").body, State(env or {}))


def bound_args(model, func, call):
    """the call's arguments bound to the resolved callee's parameters (defaults filled in from its signature), as source text:
    positional / keyword spelling and explicitly passed defaults do not matter.  None when the callee is not a repo function."""
    tgt = model.resolve_call(func, call)
    if tgt[0] not in ("repo", "class"):
        return None
    try:
        b = model.bind(call, tgt[1])
    except Unrecognised:
        return None
    return {p: (unparse(n) if isinstance(n, ast.AST) else repr(n)) for p, n in b.items()}


def check_operator_results_not_updated(run, eff, rule, funcs, why):
    """no in-place update of a value returned by an opaque callable (an operator application A(x), A.H(u), A.N(x), a user function): such
    a callable may hand back its very argument (Identity, Reshape, FFT's Identity normal operator, `lambda u: u`), so the update would
    overwrite the iterate / the caller's array it was computed from.  `funcs` = Func objects to examine; also flags writes to their
    own array parameters when `why` says so."""
    n = 0
    for f in funcs:
        sm = eff.of(f.qual)
        n += 1
        if not sm.opaque_mut:
            run.ok(rule, f.qual, "no in-place update of an operator/callable result", f.loc())
        for node, how in sm.opaque_mut[:3]:
            run.bad(rule, f.qual, f.loc(node), "%s updates in place a value that an operator or user callable returned (`%s`: %s): when that callable returns its "
                    "argument itself (Identity, Reshape, an Identity normal operator, `lambda u: u`) this overwrites %s" % (f.qual, unparse(node)[:70], how, why), stmt=node)
    return n


def check_no_memoisation(run, model, rule, modules, why):
    """functions of the given modules neither carry a memoising decorator (functools.lru_cache / cache / a *memo* wrapper) nor keep
    results in a module-level container: a cached array is handed to every later caller, and a cached buffer keeps what an earlier call
    left in it -- either way the result stops being a function of the arguments of *this* call"""
    n = 0
    for q, f in sorted(model.funcs.items()):
        if f.mod.name not in modules:
            continue
        n += 1
        # the decorator's own name (numba's `jit(cache=True)` is a compile cache, not a result cache)
        caching = [unparse(d) for d in f.node.decorator_list
                   if any(w in unparse(d.func if isinstance(d, ast.Call) else d).lower() for w in ("cache", "memo"))]
        if caching:
            run.bad(rule, q, f.loc(), "%s is decorated with %s: %s" % (q, caching, why), stmt="%s:%s" % (rule, q))
        # stores into module-level containers
        glob = {t.id for n_ in f.mod.tree.body if isinstance(n_, ast.Assign) for t in n_.targets if isinstance(t, ast.Name)
                and isinstance(n_.value, (ast.Dict, ast.List, ast.Set, ast.Call))}
        local = {a.arg for a in f.node.args.args + f.node.args.kwonlyargs} | {x.id for x in ast.walk(f.node) if isinstance(x, ast.Name) and isinstance(x.ctx, ast.Store)}
        for n_ in ast.walk(f.node):
            tg = n_.targets if isinstance(n_, ast.Assign) else ([n_.target] if isinstance(n_, ast.AugAssign) else [])
            for t in tg:
                if isinstance(t, ast.Subscript) and isinstance(t.value, ast.Name) and t.value.id in glob and t.value.id not in local:
                    run.bad(rule, q, f.loc(n_), "%s stores into the module-level container `%s` (`%s`): %s" % (q, t.value.id, unparse(n_)[:60], why), stmt=n_)
    run.ok(rule, ", ".join(modules), "%d functions examined: no memoising decorator, no module-level result cache" % n)
    return n
