"""E2 -- flow-sensitive may-alias / mutation / purity analysis with interprocedural summaries.

Abstract value of a variable = set of roots: ('P', param) | ('A', attr) (self.attr) | ('F',) fresh |
('S',) scalar/non-array.  Views keep roots, copies give fresh.  Calls into sigpy use summaries
(returns_alias_of, mutates) computed to a fixpoint over the whole package.  Unresolvable callees are
opaque callables: may return an alias of any argument, do not mutate arguments (assume/guarantee, the
guarantee for Linop/Prox children is what C02 establishes class by class).
"""
import ast

from .model import Unrecognised, is_self_attr, unparse

F = ("F",)
S = ("S",)

VIEW_METHODS = {"reshape", "ravel", "view", "transpose", "swapaxes", "squeeze", "__getitem__", "diagonal"}
VIEW_ATTRS = {"T", "real", "imag", "flat", "mT"}
SCALAR_ATTRS = {"shape", "dtype", "ndim", "size", "itemsize", "nbytes", "device"}
VIEW_FUNCS = {
    "reshape", "ravel", "transpose", "swapaxes", "squeeze", "expand_dims", "asarray", "ascontiguousarray",
    "real", "imag", "atleast_1d", "atleast_2d", "atleast_3d", "broadcast_to", "moveaxis", "asanyarray",
    "rollaxis", "diagonal", "flipud", "fliplr", "flip", "rot90", "array_split", "split", "hsplit", "vsplit",
    "broadcast_arrays", "nan_to_num_view",
}
MUT_METHODS = {"sort", "fill", "put", "itemset", "partition", "resize", "setfield", "byteswap_inplace", "set"}
NP_MUT_FUNCS = {"copyto": 0, "put": 0, "place": 0, "putmask": 0, "fill_diagonal": 0, "put_along_axis": 0,
                "shuffle": 0}
FRESH_CONTAINERS = {"list", "tuple", "dict", "sorted", "set", "zip", "range", "enumerate", "len", "int", "float",
                    "abs", "max", "min", "sum", "any", "all", "isinstance", "str", "bool", "round", "complex", "map"}
# documented out-parameters (DESIGN 3(4)): a named symbol and a reason each
DOCUMENTED_OUT = {
    ("sigpy.util.axpy", "y"): "documented in-place y = a*x + y",
    ("sigpy.util.xpay", "y"): "documented in-place y = x + a*y",
    ("sigpy.backend.copyto", "output"): "documented copy into output",
}


class Summary:
    __slots__ = ("mut", "ret", "ret_attrs", "detail", "selfsets", "rng", "attr_mut", "selfset_roots", "opaque_mut")

    def __init__(self):
        self.mut = set()        # parameter names mutated
        self.ret = set()        # parameter names the return value may alias
        self.ret_attrs = set()  # self attributes the return value may alias
        self.detail = {}        # root -> [(node, why)]
        self.selfsets = []      # (attr, node) -- self.attr = ... / self.attr op= ...
        self.rng = []           # nodes calling numpy.random.*
        self.attr_mut = set()   # self attributes mutated in place
        self.selfset_roots = []  # (attr, node, roots of the assigned value)
        self.opaque_mut = []    # (node, why): in-place updates of a value returned by an opaque callable (operator / user function)


class Effects:
    def __init__(self, model):
        self.M = model
        self.summ = {q: Summary() for q in model.funcs}
        self.rounds = 0
        self._spec = {}
        self._fixpoint()
        self._spec = {}

    def _fixpoint(self):
        for it in range(8):
            self.rounds = it + 1
            changed = False
            for q, f in self.M.funcs.items():
                s = Analyzer(self, f).run()
                old = self.summ[q]
                if (s.mut != old.mut or s.ret != old.ret or s.ret_attrs != old.ret_attrs or s.attr_mut != old.attr_mut
                        or bool(s.rng) != bool(old.rng)):
                    changed = True
                self.summ[q] = s
            if not changed:
                return
        raise Unrecognised("effect summaries did not reach a fixpoint in 8 rounds")

    def of(self, qual):
        return self.summ[qual]

    def specialised(self, fn, noneness):
        """summary of `fn` for a call site that fixes which of its optional parameters are None (`out=None` helpers that work in place or
        out of place): branches on `p is None` are pruned accordingly"""
        key = (fn.qual, tuple(sorted(noneness.items())))
        if key not in self._spec:
            self._spec[key] = self.summ[fn.qual]    # recursion guard
            self._spec[key] = Analyzer(self, fn, assume=noneness).run()
        return self._spec[key]


def params_of(f):
    return f.all_params


def _none_test(test):
    """(`p`, True) for `p is None`, (`p`, False) for `p is not None`, else None"""
    if isinstance(test, ast.Compare) and len(test.ops) == 1 and isinstance(test.left, ast.Name) and isinstance(test.comparators[0], ast.Constant) \
            and test.comparators[0].value is None:
        if isinstance(test.ops[0], ast.Is):
            return test.left.id, True
        if isinstance(test.ops[0], ast.IsNot):
            return test.left.id, False
    return None


class Analyzer:
    def __init__(self, eff, func, assume=None):
        self.E = eff
        self.M = eff.M
        self.f = func
        self.assume = dict(assume or {})   # parameter -> True (is None at this call) / False (is not None): prunes `p is None` tests
        self.env = {}
        for p in func.all_params:
            name = p.lstrip("*")
            self.env[name] = {("P", name)}
        self.s = Summary()
        self.nested_defs = {}
        self._maybe_none = {}   # local -> True when some assignment binds it to the constant None
        for n in ast.walk(func.node):
            if isinstance(n, ast.Assign) and isinstance(n.value, ast.Constant) and n.value.value is None:
                for t in n.targets:
                    if isinstance(t, ast.Name):
                        self._maybe_none[t.id] = True
        for pn, d in (getattr(func, "defaults", {}) or {}).items():
            if isinstance(d, ast.Constant) and d.value is None and pn not in self.assume:
                self._maybe_none[pn] = True
        for pn, v in self.assume.items():
            if v:
                self._maybe_none[pn] = True

    # ---------------------------------------------------------------- roots of an expression
    def roots(self, e):
        if e is None:
            return {S}
        if isinstance(e, ast.Name):
            if e.id in self.env:
                return set(self.env[e.id])
            return {F}
        if isinstance(e, ast.Constant):
            return {S}
        if isinstance(e, ast.Attribute):
            if is_self_attr(e):
                return {("A", e.attr)}
            if e.attr in VIEW_ATTRS:
                return self.roots(e.value)
            if e.attr in SCALAR_ATTRS:
                return {S}
            base = self.roots(e.value)
            # attribute of an object held in a parameter/attribute (linop.ishape, self.A.H ...): treat as
            # belonging to that object (conservative: keeps P/A roots)
            return {r for r in base if r[0] in ("P", "A")} | {F}
        if isinstance(e, ast.Subscript):
            self.roots(e.slice) if not isinstance(e.slice, ast.Slice) else None
            return self.roots(e.value)
        if isinstance(e, ast.Slice):
            return {S}
        if isinstance(e, (ast.BinOp,)):
            self.roots(e.left)
            self.roots(e.right)
            return {F}
        if isinstance(e, ast.UnaryOp):
            self.roots(e.operand)
            return {F}
        if isinstance(e, (ast.Compare,)):
            self.roots(e.left)
            for c in e.comparators:
                self.roots(c)
            return {S}
        if isinstance(e, ast.BoolOp):
            r = set()
            for v in e.values:
                r |= self.roots(v)
            return r
        if isinstance(e, ast.IfExp):
            self.roots(e.test)
            nt = _none_test(e.test)
            if nt is not None and nt[0] in self.assume and not self._rebound(nt[0]):
                return self.roots(e.body if self.assume[nt[0]] == nt[1] else e.orelse)
            return self.roots(e.body) | self.roots(e.orelse)
        if isinstance(e, (ast.Tuple, ast.List, ast.Set)):
            r = set()
            for x in e.elts:
                r |= self.roots(x.value if isinstance(x, ast.Starred) else x)
            return r or {F}
        if isinstance(e, ast.Dict):
            r = set()
            for x in e.values:
                r |= self.roots(x)
            return r or {F}
        if isinstance(e, (ast.ListComp, ast.GeneratorExp, ast.SetComp, ast.DictComp)):
            saved = {k: set(v) for k, v in self.env.items()}
            for g in e.generators:
                self.bind_target(g.target, self.roots(g.iter), e)
                for c in g.ifs:
                    self.roots(c)
            r = self.roots(e.elt) if not isinstance(e, ast.DictComp) else self.roots(e.value)
            self.env = saved
            return r
        if isinstance(e, ast.Call):
            return self.call(e)
        if isinstance(e, ast.Lambda):
            return {F}
        if isinstance(e, (ast.JoinedStr, ast.FormattedValue)):
            return {S}
        if isinstance(e, ast.Starred):
            return self.roots(e.value)
        if isinstance(e, ast.NamedExpr):
            r = self.roots(e.value)
            self.env[e.target.id] = set(r)
            return r
        return {F}

    def _rebound(self, name):
        """is the parameter assigned anywhere in the function? (then a test on it no longer speaks about the caller's argument)"""
        for n in ast.walk(self.f.node):
            if isinstance(n, ast.Name) and n.id == name and isinstance(n.ctx, ast.Store):
                return True
        return False

    def _noneness(self, fn, bound):
        """for the optional parameters of `fn` that it tests against None: what this call site passes (True = None, False = certainly an object)"""
        out = {}
        tested = set()
        for n in ast.walk(fn.node):
            nt = _none_test(n.test) if isinstance(n, (ast.If, ast.IfExp)) else None
            if nt is not None and nt[0] in fn.params:
                tested.add(nt[0])
        for pn in tested:
            node = bound.get(pn)
            if node is None:
                d = fn.defaults.get(pn) if hasattr(fn, "defaults") else None
                if isinstance(d, ast.Constant) and d.value is None:
                    out[pn] = True
            elif isinstance(node, ast.Constant) and node.value is None:
                out[pn] = True
            elif isinstance(node, ast.AST) and not isinstance(node, ast.Constant):
                r = self.roots(node)
                # an array-valued expression (a fresh result, a view of a parameter / attribute) is never the constant None; a local that
                # some assignment binds to None, or a parameter defaulting to None, may be
                if r and S not in r and not (isinstance(node, ast.Name) and self._maybe_none.get(node.id)):
                    out[pn] = False
        return out

    # ---------------------------------------------------------------- calls
    def call(self, c):
        f = c.func
        args = [a.value if isinstance(a, ast.Starred) else a for a in c.args]
        arg_roots = [self.roots(a) for a in args]
        kw_roots = {k.arg: self.roots(k.value) for k in c.keywords}
        if "out" in kw_roots:
            self.record(kw_roots["out"], c, "out= argument")
        # scipy / numpy `overwrite_*` switches allow the callee to destroy the corresponding operand
        for k in c.keywords:
            if k.arg and k.arg.startswith("overwrite_") and not (isinstance(k.value, ast.Constant) and k.value.value in (False, None, 0)):
                pos = {"overwrite_a": 0, "overwrite_b": 1, "overwrite_ab": 0, "overwrite_x": 0, "overwrite_input": 0, "overwrite_data": 0,
                       "overwrite_c": 0, "overwrite_y": 1}.get(k.arg, 0)
                tgt_arg = c.args[pos] if pos < len(c.args) else None
                if tgt_arg is not None:
                    self.record(self.roots(tgt_arg), c, "%s=%s lets `%s` overwrite its operand `%s`" % (k.arg, unparse(k.value), unparse(c.func), unparse(tgt_arg)))
        # ---- method calls on values
        if isinstance(f, ast.Attribute):
            base = f.value
            head = self.M.dotted(base)
            is_module = head is not None and (head[0] in ("np", "xp", "numpy", "cp", "signal", "pywt", "nb", "math")
                                              or head[0] in self.f.mod.imports or head[0] in self.M.xp_names(self.f))
            if not is_module:
                br = self.roots(base)
                if f.attr in VIEW_METHODS:
                    return br
                if f.attr == "astype":
                    for k in c.keywords:
                        if k.arg == "copy" and isinstance(k.value, ast.Constant) and k.value.value is False:
                            return br | {F}
                    return {F}
                if f.attr in MUT_METHODS:
                    self.record(br, c, "in-place method .%s()" % f.attr)
                    return {S}
                if f.attr in ("append", "extend", "insert", "pop", "remove", "clear", "update", "setdefault"):
                    # python containers: the container now holds the argument's roots
                    if isinstance(base, ast.Name) and base.id in self.env:
                        add = set()
                        for r in arg_roots:
                            add |= r
                        self.env[base.id] = set(self.env[base.id]) | {r for r in add if r != S}
                    elif is_self_attr(base):
                        self.s.attr_mut.add(base.attr)
                        self.s.detail.setdefault(("A", base.attr), []).append((c, "container .%s()" % f.attr))
                    return {S}
                if f.attr in ("copy", "conj", "conjugate", "flatten", "tolist", "item", "get", "sum", "mean", "max",
                              "min", "dot", "round", "clip", "cumsum", "prod", "std", "var", "argmax", "argmin",
                              "nonzero", "any", "all", "tobytes", "format", "join", "index", "count", "keys",
                              "values", "items"):
                    return {F} if f.attr not in ("item", "any", "all", "argmax", "argmin", "index", "count") else {S}
        tgt = self.M.resolve_call(self.f, c)
        kind = tgt[0]
        if kind == "ext":
            name = tgt[1]
            short = name.split(".")[-1]
            if name.startswith("numpy.random.") or name.startswith("random."):
                self.s.rng.append(c)
            if short in NP_MUT_FUNCS and args:
                self.record(arg_roots[NP_MUT_FUNCS[short]], c, "%s writes its first argument" % name)
                return {S}
            if short in VIEW_FUNCS and args:
                return arg_roots[0] | ({F} if short in ("asarray", "ascontiguousarray", "asanyarray") else set())
            return {F}
        if kind == "repo":
            fn = tgt[1]
            # nested closure defined in this function: analyse its body in place at call time
            sm = self.E.summ.get(fn.qual)
            try:
                bound = self.M.bind(c, fn)
            except Unrecognised:
                bound = None
            if sm is None or bound is None:
                return self.opaque(arg_roots, kw_roots)
            nn = self._noneness(fn, bound)
            if nn:
                sm = self.E.specialised(fn, nn)
            if sm.rng:
                self.s.rng.append(c)
            for p in sm.mut:
                node = bound.get(p)
                if node is not None and not isinstance(node, (list, dict)):
                    why = "call %s mutates its parameter `%s`" % (fn.qual, p)
                    self.record(self.roots(node), c, why, via=(fn.qual, p))
            r = {F}
            for p in sm.ret:
                node = bound.get(p)
                if isinstance(node, list):
                    for x in node:
                        r |= self.roots(x)
                elif node is not None and not isinstance(node, dict):
                    r |= self.roots(node)
            if sm.ret_attrs and isinstance(f, ast.Attribute) and is_self_attr(f.value) is False and isinstance(f.value, ast.Name) and f.value.id == "self":
                r |= {("A", a) for a in sm.ret_attrs}
            # methods mutating self attributes propagate when called on self
            if isinstance(f, ast.Attribute) and isinstance(f.value, ast.Name) and f.value.id == "self":
                for a in sm.attr_mut:
                    self.s.attr_mut.add(a)
                    self.s.detail.setdefault(("A", a), []).append((c, "call self.%s mutates self.%s" % (fn.name, a)))
            return r
        if kind == "class":
            return {F}
        if kind == "name":
            if tgt[1] in FRESH_CONTAINERS:
                if tgt[1] in ("list", "tuple", "sorted", "zip", "enumerate", "map", "dict", "set"):
                    r = {F}
                    for a in arg_roots:
                        r |= {x for x in a if x != S}
                    # containers of arrays keep element roots (elements are still the same arrays) -- but a
                    # list()/tuple() of *shape-like* parameters is a fresh container of scalars:
                    return r if tgt[1] in ("zip", "enumerate", "map") else {F}
                return {S}
            if tgt[1] in self.nested_defs:
                return self.opaque(arg_roots, kw_roots)
            if tgt[1][:1].isupper():
                return {F}
        # kernel tables: _interpolate[kernel][ndim - 1](output, ...)
        if isinstance(f, ast.Subscript):
            base = f
            while isinstance(base, ast.Subscript):
                base = base.value
            tab = self.M.resolve_name(self.f.mod, base, self.f) if isinstance(base, (ast.Name, ast.Attribute)) else None
            if isinstance(base, ast.Name):
                muts = self.table_mutates(base.id)
                if muts is not None:
                    for idx in muts:
                        if idx < len(args):
                            self.record(arg_roots[idx], c, "kernel table %s writes argument %d" % (base.id, idx))
                    return {F}
        return self.opaque(arg_roots, kw_roots)

    def table_mutates(self, name):
        """module-level dict filled from a factory returning jitted kernels: positions mutated by any kernel"""
        mod = self.f.mod
        facts = []
        for n in ast.walk(mod.tree):
            if isinstance(n, ast.Assign) and len(n.targets) == 1 and isinstance(n.targets[0], ast.Subscript):
                t = n.targets[0]
                if isinstance(t.value, ast.Name) and t.value.id == name and isinstance(n.value, ast.Call):
                    q = self.M.resolve_name(mod, n.value.func, None)
                    if q in self.M.funcs:
                        facts.append(self.M.funcs[q])
        if not facts:
            return None
        out = set()
        for fac in facts:
            for r in ast.walk(fac.node):
                if isinstance(r, ast.Return) and isinstance(r.value, ast.Tuple):
                    for el in r.value.elts:
                        q = self.M.resolve_name(mod, el, fac)
                        if q in self.M.funcs:
                            k = self.M.funcs[q]
                            sm = self.E.summ.get(q)
                            for p in (sm.mut if sm else ()):
                                if p in k.params:
                                    out.add(k.params.index(p))
        return out

    def opaque(self, arg_roots, kw_roots):
        r = {F}
        for a in list(arg_roots) + list(kw_roots.values()):
            r |= {x for x in a if x[0] in ("P", "A")}
        if len(r) > 1:
            r.add(("O",))   # the result of an opaque callable: it may be one of its arguments (Identity, Reshape, `lambda u: u`)
        return r

    # ---------------------------------------------------------------- recording
    def record(self, roots, node, why, via=None):
        if ("O",) in roots:
            self.s.opaque_mut.append((node, why))
        for r in roots:
            if r[0] == "P":
                self.s.mut.add(r[1])
                self.s.detail.setdefault(r, []).append((node, why))
            elif r[0] == "A":
                self.s.attr_mut.add(r[1])
                self.s.detail.setdefault(r, []).append((node, why))

    def bind_target(self, tgt, roots, node):
        if isinstance(tgt, ast.Name):
            self.env[tgt.id] = set(roots)
        elif isinstance(tgt, (ast.Tuple, ast.List)):
            for t in tgt.elts:
                self.bind_target(t.value if isinstance(t, ast.Starred) else t, roots, node)
        elif isinstance(tgt, ast.Subscript):
            self.roots(tgt.slice) if not isinstance(tgt.slice, ast.Slice) else None
            self.record(self.roots(tgt.value), node, "subscript store `%s = ...`" % unparse(tgt))
        elif isinstance(tgt, ast.Attribute):
            if is_self_attr(tgt):
                self.s.selfsets.append((tgt.attr, node))
                self.s.selfset_roots.append((tgt.attr, node, set(roots)))
            else:
                # attribute store on another object (A.repr_str = ...): mutation of that object
                self.record({r for r in self.roots(tgt.value)}, node, "attribute store `%s = ...`" % unparse(tgt))

    # ---------------------------------------------------------------- statements
    def block(self, stmts):
        for s in stmts:
            self.stmt(s)

    def merge(self, e1, e2):
        out = {}
        for k in set(e1) | set(e2):
            out[k] = set(e1.get(k, set())) | set(e2.get(k, set()))
        return out

    def stmt(self, s):
        if isinstance(s, ast.Assign):
            # tuple-to-tuple assignment binds element-wise
            if (len(s.targets) == 1 and isinstance(s.targets[0], (ast.Tuple, ast.List)) and isinstance(s.value, (ast.Tuple, ast.List))
                    and len(s.targets[0].elts) == len(s.value.elts)):
                vals = [self.roots(v) for v in s.value.elts]
                for t, v in zip(s.targets[0].elts, vals):
                    self.bind_target(t, v, s)
                return
            r = self.roots(s.value)
            for t in s.targets:
                self.bind_target(t, r, s)
        elif isinstance(s, ast.AnnAssign):
            if s.value is not None:
                self.bind_target(s.target, self.roots(s.value), s)
        elif isinstance(s, ast.AugAssign):
            t = s.target
            vr = self.roots(s.value)
            if isinstance(t, ast.Name):
                cur = self.env.get(t.id, {F})
                if cur <= {S}:
                    # `output = 0; output += arr` : rebinding to a new array
                    self.env[t.id] = {F}
                else:
                    self.record(cur, s, "augmented assignment `%s`" % unparse(s))
                    self.env[t.id] = {x for x in cur if x != S} | {F}
            elif isinstance(t, ast.Subscript):
                self.record(self.roots(t.value), s, "augmented subscript assignment `%s`" % unparse(s))
            elif isinstance(t, ast.Attribute):
                if is_self_attr(t):
                    self.s.selfsets.append((t.attr, s))
                    self.record({("A", t.attr)}, s, "augmented assignment to self.%s" % t.attr)
                else:
                    self.record(self.roots(t.value), s, "augmented attribute assignment `%s`" % unparse(s))
        elif isinstance(s, ast.Expr):
            self.roots(s.value)
        elif isinstance(s, ast.Return):
            if s.value is not None:
                r = self.roots(s.value)
                self.s.ret |= {x[1] for x in r if x[0] == "P"}
                self.s.ret_attrs |= {x[1] for x in r if x[0] == "A"}
        elif isinstance(s, ast.If):
            self.roots(s.test)
            nt = _none_test(s.test)
            if nt is not None and nt[0] in self.assume and not self._rebound(nt[0]):
                self.block(s.body if self.assume[nt[0]] == nt[1] else s.orelse)
                return
            e0 = {k: set(v) for k, v in self.env.items()}
            self.block(s.body)
            e1 = self.env
            self.env = {k: set(v) for k, v in e0.items()}
            self.block(s.orelse)
            self.env = self.merge(e1, self.env)
        elif isinstance(s, (ast.For, ast.While)):
            for _ in range(3):
                e0 = {k: set(v) for k, v in self.env.items()}
                if isinstance(s, ast.For):
                    self.bind_target(s.target, self.roots(s.iter), s)
                else:
                    self.roots(s.test)
                self.block(s.body)
                self.env = self.merge(e0, self.env)
            self.block(s.orelse)
        elif isinstance(s, ast.With):
            for it in s.items:
                r = self.roots(it.context_expr)
                if it.optional_vars is not None:
                    self.bind_target(it.optional_vars, r, s)
            self.block(s.body)
        elif isinstance(s, ast.Try):
            self.block(s.body)
            for h in s.handlers:
                self.block(h.body)
            self.block(s.orelse)
            self.block(s.finalbody)
        elif isinstance(s, (ast.FunctionDef, ast.AsyncFunctionDef)):
            self.nested_defs[s.name] = s
            self.env[s.name] = {F}
        elif isinstance(s, ast.Assert):
            self.roots(s.test)
        elif isinstance(s, ast.Delete):
            pass
        elif isinstance(s, ast.Raise):
            if s.exc is not None:
                self.roots(s.exc)

    def run(self):
        self.block(self.f.node.body)
        return self.s
