"""C-linearity typing of operator bodies (DESIGN C02/M3).

Abstract value of an expression w.r.t. the operator input:
  Z zero, K independent of the input, L C-linear, A anti-linear (conjugate-linear), N neither.
"""
import ast

from .model import Unrecognised, is_self_attr, unparse

Z, K, L, A, N = "Z", "K", "L", "A", "N"


def join(a, b):
    if a == b:
        return a
    if a == Z:
        return b if b in (L, A) else (K if b == K else N)
    if b == Z:
        return join(b, a)
    return N


def add(a, b):
    if a == Z:
        return b
    if b == Z:
        return a
    if a == b and a in (K, L, A):
        return a
    return N


def mul(a, b):
    if a == Z or b == Z:
        return Z
    if a == K and b == K:
        return K
    if a == K:
        return b if b in (L, A) else N
    if b == K:
        return a if a in (L, A) else N
    return N


def conj(a):
    return {L: A, A: L}.get(a, a)


# sigpy functions that are linear in the named argument(s); other arguments must be K
LINEAR_IN = {
    "sigpy.fourier.fft": ["input"], "sigpy.fourier.ifft": ["input"],
    "sigpy.fourier.nufft": ["input"], "sigpy.fourier.nufft_adjoint": ["input"],
    "sigpy.interp.interpolate": ["input"], "sigpy.interp.gridding": ["input"],
    "sigpy.util.resize": ["input"], "sigpy.util.flip": ["input"], "sigpy.util.circshift": ["input"],
    "sigpy.util.downsample": ["input"], "sigpy.util.upsample": ["input"],
    "sigpy.block.array_to_blocks": ["input"], "sigpy.block.blocks_to_array": ["input"],
    "sigpy.wavelet.fwt": ["input"], "sigpy.wavelet.iwt": ["input"],
    "sigpy.backend.to_device": ["input"],
    "sigpy.util.vec": ["inputs"],
}
# functions whose value does not depend on the *values* held in their array argument
CONST_FUNCS = {"sigpy.backend.get_device", "sigpy.backend.get_array_module", "sigpy.backend.Device"}
CONST_EXT = {"isscalar", "issubdtype", "shape", "ndim", "size", "result_type", "iscomplexobj", "isrealobj"}
# bilinear / sesquilinear: (linear args, anti-linear args)
BILINEAR = {
    "sigpy.conv.convolve": (["data", "filt"], []),
    "sigpy.conv.convolve_data_adjoint": (["output"], ["filt"]),
    "sigpy.conv.convolve_filter_adjoint": (["output"], ["data"]),
}
NP_LINEAR_FIRST = {
    "sum", "tile", "reshape", "transpose", "roll", "ravel", "squeeze", "expand_dims", "swapaxes", "moveaxis",
    "ascontiguousarray", "asarray", "array", "copy", "flip", "cumsum", "mean", "repeat", "broadcast_to", "fftn", "ifftn",
    "fft", "ifft", "fftshift", "ifftshift", "diff", "pad", "trace", "diagonal", "stack_first", "split", "array_split",
}
NP_NONLINEAR = {"real", "imag", "abs", "absolute", "angle", "sqrt", "exp", "log", "sign", "clip", "maximum", "minimum",
                "floor", "ceil", "round", "square", "power", "sin", "cos", "linalg.norm", "norm", "sort", "where"}
NP_CONST = {"zeros": Z, "zeros_like": Z, "empty": Z, "empty_like": Z}
METH_KEEP = {"copy", "reshape", "ravel", "flatten", "transpose", "swapaxes", "squeeze", "view", "sum", "mean", "get",
             "cumsum", "repeat", "dot_"}
FLOAT_DTYPES = ("float", "float16", "float32", "float64", "int", "int32", "int64", "uint8", "bool", "double", "single")


class Lin:
    def __init__(self, model, func, input_name="input", env=None, depth=0):
        self.M = model
        self.f = func
        self.env = dict(env) if env is not None else {input_name: L}
        self.returns = []  # (node, kind)
        self.notes = []
        self.depth = depth

    def kind(self, e):
        if e is None:
            return K
        if isinstance(e, ast.Constant):
            if isinstance(e.value, (int, float, complex)) and not isinstance(e.value, bool) and e.value == 0:
                return Z
            if e.value is None:
                return Z  # the "no buffer yet" placeholder (output = None; output = alloc_or_widen(output, ...))
            return K
        if isinstance(e, ast.Name):
            return self.env.get(e.id, K)
        if isinstance(e, ast.Attribute):
            if is_self_attr(e):
                return K
            b = self.kind(e.value)
            if e.attr in ("shape", "dtype", "ndim", "size", "device"):
                return K
            if e.attr in ("T", "mT", "flat"):
                return b
            if e.attr == "H":
                return b
            if e.attr in ("real", "imag"):
                return N if b in (L, A, N) else b
            return b if b == K else N
        if isinstance(e, ast.Subscript):
            b = self.kind(e.value)
            i = K if isinstance(e.slice, ast.Slice) else self.kind(e.slice)
            if isinstance(e.slice, ast.Slice):
                for p in (e.slice.lower, e.slice.upper, e.slice.step):
                    if p is not None and self.kind(p) not in (K, Z):
                        return N
            return b if i in (K, Z) else N
        if isinstance(e, ast.UnaryOp):
            v = self.kind(e.operand)
            if isinstance(e.op, (ast.USub, ast.UAdd)):
                return v
            return K if v in (K, Z) else N
        if isinstance(e, ast.BinOp):
            a, b = self.kind(e.left), self.kind(e.right)
            if isinstance(e.op, (ast.Add, ast.Sub)):
                return add(a, b)
            if isinstance(e.op, (ast.Mult, ast.MatMult)):
                return mul(a, b)
            if isinstance(e.op, ast.Div):
                if b == K:
                    return a if a != Z else Z
                return N
            if isinstance(e.op, ast.Pow):
                return K if a in (K, Z) and b in (K, Z) else N
            return K if a in (K, Z) and b in (K, Z) else N
        if isinstance(e, (ast.Compare, ast.BoolOp)):
            return K
        if isinstance(e, ast.IfExp):
            return join(self.kind(e.body), self.kind(e.orelse))
        if isinstance(e, (ast.Tuple, ast.List)):
            k = Z
            ks = [self.kind(x.value if isinstance(x, ast.Starred) else x) for x in e.elts]
            if not ks:
                return K
            out = ks[0]
            for x in ks[1:]:
                out = join(out, x)
            return out
        if isinstance(e, (ast.ListComp, ast.GeneratorExp)):
            saved = dict(self.env)
            for g in e.generators:
                self.bind(g.target, self.kind(g.iter))
            r = self.kind(e.elt)
            self.env = saved
            return r
        if isinstance(e, ast.Call):
            return self.call(e)
        if isinstance(e, ast.Slice):
            return K
        return N

    def call(self, c):
        f = c.func
        args = c.args
        kws = {k.arg: k.value for k in c.keywords if k.arg}
        akinds = [self.kind(a.value if isinstance(a, ast.Starred) else a) for a in args]
        kkinds = {k: self.kind(v) for k, v in kws.items()}
        allk = akinds + list(kkinds.values())
        if all(k in (K, Z) for k in allk) and not (isinstance(f, ast.Attribute) and self.kind(f.value) not in (K, Z)):
            # nothing input-dependent flows in
            tgt = self.M.resolve_call(self.f, c)
            if tgt[0] == "ext" and tgt[1].split(".")[-1] in NP_CONST:
                return NP_CONST[tgt[1].split(".")[-1]]
            if isinstance(f, ast.Attribute) and isinstance(f.value, ast.Name) and (f.value.id in ("xp", "np") or f.value.id in self.M.xp_names(self.f)) and f.attr in NP_CONST:
                return NP_CONST[f.attr]  # array module received as a parameter
            if isinstance(f, ast.Attribute) and f.attr in METH_KEEP | {"astype"} and self.kind(f.value) == Z:
                return Z  # view / copy / cast of a zero buffer is a zero buffer
            return K
        tgt = self.M.resolve_call(self.f, c)
        if tgt[0] == "repo" and tgt[1].qual in CONST_FUNCS:
            return K
        if tgt[0] == "class" and tgt[1].qual in CONST_FUNCS:
            return K
        if tgt[0] == "ext" and tgt[1].split(".")[-1] in CONST_EXT:
            return K
        if tgt[0] == "repo":
            fn = tgt[1]
            try:
                bound = self.M.bind(c, fn)
            except Unrecognised:
                return N
            bk = {p: (self.kind(n) if not isinstance(n, (list, dict)) else K) for p, n in bound.items()}
            if fn.qual in LINEAR_IN:
                lin = LINEAR_IN[fn.qual]
                others = [k for p, k in bk.items() if p not in lin]
                if any(k not in (K, Z) for k in others):
                    return N
                ks = [bk.get(p, K) for p in lin]
                return ks[0] if len(ks) == 1 else N
            if fn.qual in BILINEAR:
                lin, anti = BILINEAR[fn.qual]
                others = [k for p, k in bk.items() if p not in lin + anti]
                if any(k not in (K, Z) for k in others):
                    return N
                out = K
                for p in lin:
                    out = mul(out, bk.get(p, K))
                for p in anti:
                    out = mul(out, conj(bk.get(p, K)))
                return out
            # any other repo helper: type its own body under the kinds of the actual arguments (context-sensitive, depth <= 3)
            self_call = isinstance(f, ast.Attribute) and isinstance(f.value, ast.Name) and f.value.id == "self" and fn.cls is not None and fn.qual != self.f.qual
            if self.depth < 3 and (not fn.cls or self_call):
                # (a helper method of the same object, `self._transform(input, ...)`, is typed like any other helper)
                sub = Lin(self.M, fn, env={p: k for p, k in bk.items() if p != "self"}, depth=self.depth + 1)
                rets = sub.run()
                if not rets:
                    return K
                out = rets[0][1]
                for _, k in rets[1:]:
                    out = join(out, k)
                return out
            return N
        if tgt[0] == "self" and len(tgt) > 2 and tgt[2] is not None and self.depth < 3 and tgt[2].qual != self.f.qual:
            # a helper method of the same object (`self._transform(input, ...)`): typed like any other repo helper, under the kinds of the actual arguments
            fn = tgt[2]
            try:
                bound = self.M.bind(c, fn, skip_self=True)
            except Unrecognised:
                return N
            bk = {p: (self.kind(n) if not isinstance(n, (list, dict)) else K) for p, n in bound.items()}
            sub = Lin(self.M, fn, env={p: k for p, k in bk.items()}, depth=self.depth + 1)
            rets = sub.run()
            if not rets:
                return K
            out = rets[0][1]
            for _, k in rets[1:]:
                out = join(out, k)
            return out
        if tgt[0] == "ext":
            name = tgt[1]
            short = name.split(".")[-1]
            if short in ("conj", "conjugate"):
                return conj(akinds[0]) if akinds else K
            if short in ("matmul", "multiply", "dot", "tensordot", "kron", "outer", "inner_"):
                return mul(akinds[0], akinds[1]) if len(akinds) == 2 else N
            if short in ("add", "subtract"):
                return add(akinds[0], akinds[1]) if len(akinds) == 2 else N
            if short in ("concatenate", "stack", "vstack", "hstack"):
                rest = akinds[1:] + list(kkinds.values())
                return akinds[0] if all(k in (K, Z) for k in rest) else N
            if short in NP_LINEAR_FIRST:
                rest = akinds[1:] + list(kkinds.values())
                return akinds[0] if akinds and all(k in (K, Z) for k in rest) else N
            if short == "vdot":
                # vdot(a, b) = sum conj(a) b
                return mul(conj(akinds[0]), akinds[1]) if len(akinds) == 2 else N
            return N
        if isinstance(f, ast.Attribute):
            b = self.kind(f.value)
            rest_ok = all(k in (K, Z) for k in allk)
            if f.attr in ("conj", "conjugate") and not args:
                return conj(b)
            if f.attr in METH_KEEP and rest_ok:
                return b
            if f.attr == "astype" and rest_ok:
                txt = unparse(args[0]) if args else unparse(kws.get("dtype", ast.Constant(None)))
                last = txt.split(".")[-1]
                if last in FLOAT_DTYPES and b in (L, A, N):
                    return N
                return b
            if f.attr in ("append", "extend"):
                if isinstance(f.value, ast.Name):
                    self.env[f.value.id] = join(self.env.get(f.value.id, Z), akinds[0] if akinds else K)
                return K
            if b in (K, Z):
                # opaque child operator held in an attribute / local (self.A(x), linop(x), self.A.H(x)):
                # linear by induction (every Linop class is checked by this same rule)
                if len(allk) == 1:
                    return allk[0]
                return N
            return N
        if isinstance(f, ast.Name):
            if f.id in ("list", "tuple"):
                return akinds[0] if akinds else K
            if f.id in ("len", "range", "int", "isinstance", "float"):
                return K
            if f.id in ("abs", "max", "min", "round", "sorted"):
                return N
            if f.id == "sum":
                return akinds[0] if akinds else K
            if self.env.get(f.id, K) in (K, Z) and len(allk) == 1:
                return allk[0]  # child operator bound to a local name (for linop in self.linops)
            return N
        if isinstance(f, ast.Subscript):
            return N
        return N

    # ------------------------------------------------------------------ statements
    def bind(self, t, k):
        if isinstance(t, ast.Name):
            self.env[t.id] = k
        elif isinstance(t, (ast.Tuple, ast.List)):
            for x in t.elts:
                self.bind(x, k)

    def bind_iter(self, target, it):
        """`for a, b in zip(xs, ys)` binds a to elements of xs and b to elements of ys (not both to the join); enumerate likewise"""
        if isinstance(it, ast.Call) and isinstance(it.func, ast.Name) and not it.keywords and isinstance(target, (ast.Tuple, ast.List)):
            if it.func.id == "zip" and len(it.args) == len(target.elts) and not any(isinstance(a, ast.Starred) for a in it.args):
                for t, a in zip(target.elts, it.args):
                    self.bind_iter(t, a) if isinstance(t, (ast.Tuple, ast.List)) else self.bind(t, self.kind(a))
                return
            if it.func.id == "enumerate" and len(it.args) == 1 and len(target.elts) == 2:
                self.bind(target.elts[0], K)
                self.bind_iter(target.elts[1], it.args[0]) if isinstance(target.elts[1], (ast.Tuple, ast.List)) else self.bind(target.elts[1], self.kind(it.args[0]))
                return
        self.bind(target, self.kind(it))

    def block(self, stmts):
        for s in stmts:
            self.stmt(s)

    def stmt(self, s):
        if isinstance(s, ast.Assign):
            k = self.kind(s.value)
            for t in s.targets:
                if isinstance(t, ast.Subscript):
                    base = t.value
                    if isinstance(base, ast.Name):
                        cur = self.env.get(base.id, K)
                        idx_ok = isinstance(t.slice, ast.Slice) or self.kind(t.slice) in (K, Z)
                        new = add(cur, k) if cur in (Z,) or cur == k else (cur if k == Z else N)
                        self.env[base.id] = new if idx_ok else N
                    elif k not in (K, Z):
                        self.notes.append((s, "store of input-dependent value into non-local container"))
                elif isinstance(t, ast.Attribute):
                    pass  # purity rule M2 handles self.* writes
                else:
                    self.bind(t, k)
        elif isinstance(s, ast.AugAssign):
            k = self.kind(s.value)
            t = s.target
            name = t.id if isinstance(t, ast.Name) else (t.value.id if isinstance(t, ast.Subscript) and isinstance(t.value, ast.Name) else None)
            if name is None:
                return
            cur = self.env.get(name, K)
            if isinstance(s.op, (ast.Add, ast.Sub)):
                self.env[name] = add(cur, k)
            elif isinstance(s.op, (ast.Mult, ast.MatMult)):
                self.env[name] = mul(cur, k)
            elif isinstance(s.op, ast.Div):
                self.env[name] = cur if k == K else N
            else:
                self.env[name] = N if (cur not in (K, Z) or k not in (K, Z)) else K
        elif isinstance(s, ast.Return):
            k_ = self.kind(s.value) if s.value is not None else K
            if getattr(self, "dep_depth", 0) > 0 or getattr(self, "after_dep_return", False):
                k_ = N if k_ in (L, A) else k_   # which expression is returned depends on the input's dtype/values: a piecewise map
                self.notes.append((s, "the returned expression is selected by the input's dtype/values"))
            self.returns.append((s, k_))
        elif isinstance(s, ast.Expr):
            self.kind(s.value)
        elif isinstance(s, ast.If):
            dep = self.value_dependent(s.test) and not self._widening_only(s)
            e0 = dict(self.env)
            if dep:
                self.dep_depth = getattr(self, "dep_depth", 0) + 1
            n_ret0 = len(self.returns)
            self.block(s.body)
            e1 = self.env
            self.env = dict(e0)
            self.block(s.orelse)
            if dep:
                self.dep_depth -= 1
                if len(self.returns) > n_ret0:
                    self.after_dep_return = True   # later returns are reached only for the other kind of input
            out = {}
            for k in set(e1) | set(self.env):
                a, b = e1.get(k), self.env.get(k)
                out[k] = a if b is None else (b if a is None else join(a, b))
            if dep:
                # the branch is selected by the values / dtype of the operator input: whatever the arms assign is a piecewise
                # function of the input (e.g. "conjugate the matrix only for complex input" is not C-linear: A(i y) != i A(y) for real y)
                for n in _assigned(s.body) | _assigned(s.orelse):
                    out[n] = N
                    self.notes.append((s, "branch on the input's dtype/values selects the value of `%s`" % n))
            self.env = out
        elif isinstance(s, (ast.For, ast.While)):
            for _ in range(3):
                e0 = dict(self.env)
                if isinstance(s, ast.For):
                    self.bind_iter(s.target, s.iter)
                self.block(s.body)
                for k in set(e0) | set(self.env):
                    a, b = e0.get(k), self.env.get(k)
                    self.env[k] = a if b is None else (b if a is None else join(a, b))
            self.block(s.orelse)
        elif isinstance(s, ast.With):
            self.block(s.body)
        elif isinstance(s, ast.Try):
            self.block(s.body)
            for h in s.handlers:
                self.block(h.body)
            self.block(s.finalbody)

    def _widening_only(self, s):
        """`if dtype != buf.dtype: return buf.astype(dtype)` with dtype = result_type(buf, ...): both outcomes hold the same values (a cast
        to a common, wider type), so the choice does not make the map piecewise"""
        wide = set()
        for n in ast.walk(self.f.node):
            if isinstance(n, ast.Assign) and len(n.targets) == 1 and isinstance(n.targets[0], ast.Name) and isinstance(n.value, ast.Call) \
                    and unparse(n.value.func).split(".")[-1] == "result_type":
                wide.add((n.targets[0].id, tuple(x.id for x in n.value.args if isinstance(x, ast.Name))))
        stmts = list(s.body) + list(s.orelse)
        if not stmts:
            return False
        # the test itself must be "the common type differs from the type of the buffer that is kept / cast": `d != buf.dtype` (or ==)
        t = s.test
        if isinstance(t, ast.UnaryOp) and isinstance(t.op, ast.Not):
            t = t.operand
        if not (isinstance(t, ast.Compare) and len(t.ops) == 1 and isinstance(t.ops[0], (ast.Eq, ast.NotEq))):
            return False
        sides = [t.left, t.comparators[0]]
        dn = [x.id for x in sides if isinstance(x, ast.Name)]
        bf = [x.value.id for x in sides if isinstance(x, ast.Attribute) and x.attr == "dtype" and isinstance(x.value, ast.Name)]
        if len(dn) != 1 or len(bf) != 1 or not any(dn[0] == d and bf[0] in srcs for d, srcs in wide):
            return False
        buf = bf[0]
        same = {buf}
        for st in stmts:   # what is kept or cast is that very buffer (or a local the cast was just bound to)
            v = st.value if isinstance(st, (ast.Assign, ast.Return)) else None
            if isinstance(v, ast.Name) and v.id not in same:
                return False
            if isinstance(st, ast.Assign) and len(st.targets) == 1 and isinstance(st.targets[0], ast.Name):
                same.add(st.targets[0].id)
            if isinstance(v, ast.Call) and isinstance(v.func, ast.Attribute) and isinstance(v.func.value, ast.Name) and v.func.value.id != buf:
                return False
        def widen(v):
            return isinstance(v, ast.Call) and isinstance(v.func, ast.Attribute) and v.func.attr == "astype" and isinstance(v.func.value, ast.Name) \
                and len(v.args) == 1 and isinstance(v.args[0], ast.Name) and any(v.args[0].id == d and v.func.value.id in srcs for d, srcs in wide)
        for st in stmts:
            if isinstance(st, ast.Assign) and len(st.targets) == 1 and isinstance(st.targets[0], ast.Name):
                v = st.value       # `tmp = buf.astype(dtype)` / `buf = buf.astype(dtype)`: the same widening, named
            elif isinstance(st, ast.Return) and st.value is not None:
                v = st.value
            else:
                return False
            if isinstance(v, ast.Name) or widen(v):
                continue
            return False
        return True

    def value_dependent(self, test):
        """does the test read the *values or dtype* of something that depends on the operator input?  (shape, ndim, device, len() and
        the array module are fixed by the operator's advertised shapes / placement and do not count)"""
        def walk(e, shielded):
            if isinstance(e, ast.Compare) and len(e.ops) == 1 and isinstance(e.ops[0], (ast.Is, ast.IsNot)) and isinstance(e.comparators[0], ast.Constant) \
                    and e.comparators[0].value is None:
                return False   # `buf is None`: whether a buffer exists yet, not what it holds
            if isinstance(e, ast.Attribute):
                if e.attr in ("shape", "ndim", "size", "device", "xp"):
                    return False
                if e.attr == "dtype":
                    return self.kind(e.value) in (L, A, N)
                return walk(e.value, shielded)
            if isinstance(e, ast.Call):
                f = e.func
                nm = f.attr if isinstance(f, ast.Attribute) else (f.id if isinstance(f, ast.Name) else "")
                if nm in ("len", "get_device", "get_array_module", "isinstance", "Device"):
                    return False
                return any(walk(a, shielded) for a in e.args) or any(walk(k.value, shielded) for k in e.keywords) or \
                    (isinstance(f, ast.Attribute) and walk(f.value, shielded))
            if isinstance(e, ast.Name):
                return self.env.get(e.id, K) in (L, A, N)
            return any(walk(c, shielded) for c in ast.iter_child_nodes(e) if isinstance(c, ast.expr))
        return walk(test, False)

    def run(self):
        self.block(self.f.node.body)
        return self.returns


def _assigned(stmts):
    out = set()
    for s in stmts:
        for n in ast.walk(s):
            tg = []
            if isinstance(n, ast.Assign):
                tg = n.targets
            elif isinstance(n, (ast.AugAssign, ast.AnnAssign)):
                tg = [n.target]
            for t in tg:
                base = t
                while isinstance(base, (ast.Subscript, ast.Attribute)):
                    base = base.value
                if isinstance(base, ast.Name):
                    out.add(base.id)
                for x in ast.walk(t):
                    if isinstance(x, ast.Name) and isinstance(x.ctx, ast.Store):
                        out.add(x.id)
    return out
