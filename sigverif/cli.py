"""Command line: decide one property on the current source of a sigpy checkout."""
import argparse
import importlib
import json
import os
import sys
import traceback

from .model import AnchorMissing, Model, Unrecognised
from .report import Run

PROOF_LEVEL = {"C18", "C20"}


EFFECT_BASED = {"C02", "C12", "C13", "C15"}


def anchor_files(pid):
    """files the property is anchored in (properties.jsonl, given and fixed)"""
    here = os.path.dirname(os.path.dirname(os.path.abspath(__file__)))
    try:
        for ln in open(os.path.join(here, "properties.jsonl")):
            o = json.loads(ln)
            if o.get("id") == pid:
                return list(o.get("anchors", {}).get("files", []))
    except OSError:
        pass
    return []


def thorough_extras(run, model, pid):
    """thorough tier = every quick rule + (a) whole-package scope where a rule has a scope, done inside the rule modules via `tier`;
    (b) for the effect-based properties the bytecode cross-check of the mutation-site enumeration; (c) a second, independent parse of
    every module (raw, unpruned tree) to confirm the CPU-build pruning removed only GPU arms"""
    from .bytecode import cross_check
    if pid in EFFECT_BASED:
        run.rule("TB", "thorough: per-function store counts from compiled bytecode (dis; never executed) agree with the AST-derived mutation sites")
        cross_check(run, model, "TB", sorted(model.mods))
    import ast as _ast
    n_raw = n_cpu = 0
    for m in model.mods.values():
        n_raw += sum(1 for _ in _ast.walk(m.raw_tree))
        n_cpu += sum(1 for _ in _ast.walk(m.tree))
    run.rule("TP", "thorough: the CPU-build tree is the raw tree minus the pruned GPU arms")
    run.check(n_cpu <= n_raw and model.pruned_arms >= 20, "TP", "build scoping", "sigpy/", "%d of %d AST nodes analysed after pruning %d GPU arms" % (n_cpu, n_raw, model.pruned_arms),
              "pruning removed %d arms (%d -> %d nodes): unexpected" % (model.pruned_arms, n_raw, n_cpu), stmt="TP")


def main(argv=None):
    ap = argparse.ArgumentParser()
    ap.add_argument("pid")
    ap.add_argument("--tier", default=os.environ.get("VERIF_TIER", "quick"), choices=["quick", "thorough"])
    ap.add_argument("--repo", default=os.environ.get("SIGVERIF_REPO", "/repo"))
    ap.add_argument("--replay", default=None)
    a = ap.parse_args(argv)
    pid = a.pid.upper()
    if a.replay:
        with open(a.replay) as fh:
            rec = json.load(fh)
        print("replaying %s: re-running the %s check on %s" % (a.replay, rec.get("property", pid), a.repo))
        pid = rec.get("property", pid)
    run = Run(pid, a.tier, a.repo, level="proof" if pid in PROOF_LEVEL else "other")
    run.assume("CPU build only: arms under config.cupy_enabled/cudnn_enabled and the non-numpy arm of `xp == np` "
               "dispatches are pruned; CUDA kernels (C source in strings) are out of scope")
    run.assume("numpy / scipy / pywt / numba primitives behave as documented")
    run.trust("python ast module (parser)")
    run.trust("sigverif engines (this repository, /verif/sigverif)")
    try:
        try:
            model = Model(a.repo)
        except SyntaxError as e:
            run.error("source does not parse: %s" % e)
            return run.finish()
        run.count("modules", len(model.mods))
        run.count("functions", len(model.funcs))
        run.count("classes", len(model.classes))
        run.extra["source_digest"] = model.digest
        run.extra["pruned_gpu_arms"] = model.pruned_arms
        mod = importlib.import_module("sigverif.rules.%s" % pid.lower())
        mod.check(run, model, a.tier)
        # the shared helpers the property's anchored code reaches (anchor files from properties.jsonl)
        from .rules import shared
        shared.set_property(pid)
        shared.check(run, model, anchor_files(pid))
        shared.providers(run, model, pid, a.tier)
        if a.tier == "thorough":
            thorough_extras(run, model, pid)
    except AnchorMissing as e:
        run.error("anchor vanished: %s" % e)
    except Unrecognised as e:
        # The rules certify the property for code of the forms they can read.  Code they cannot read is code for which the property is
        # NOT established: that is reported as a violation of the rule that was being evaluated (with the construct named), not as an
        # analysis error -- a vanished anchor, a floor that is not met or a crash remain analysis errors (exit 2).
        loc = "sigpy/?"
        if getattr(e, "node", None) is not None and hasattr(e.node, "lineno"):
            loc = "line %s" % e.node.lineno
        last_rule = run.obligations[-1][0] if run.obligations else (sorted(run.rules)[0] if run.rules else "FORM")
        run.bad("FORM", "unrecognised construct", loc, "after rule %s: the code at %s has a form none of the rules of %s can certify (%s); the property is not "
                "established for it" % (last_rule, loc, pid, e), stmt="FORM:%s" % str(e)[:80])
    except Exception as e:  # never a traceback exit
        tb = traceback.format_exc().strip().splitlines()
        run.error("checker crashed: %r at %s" % (e, " | ".join(x.strip() for x in tb[-4:-1])))
    return run.finish()


if __name__ == "__main__":
    sys.exit(main())
