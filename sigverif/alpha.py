"""Alpha-renaming of a function's locals onto the names used by a reference text of the same function.

Rules that look at intermediate values of a function (a buffer, a mode flag, the items of an unpacked tuple) need a way to say *which*
local they mean.  Local names are not API, so a rule must not depend on them: before such a rule runs, the analysed function is
aligned with the rule's own reference text statement by statement -- two statements are partners when their syntax trees are equal
once every plain name is blanked -- and the names at corresponding positions are paired.  The analysed function is then read through
that renaming.  A statement without a partner (a genuinely different statement) contributes nothing and keeps its own names, so a real
change is still seen by the rule as a change, never hidden by the renaming.
"""
import ast
import copy


def _shape(node):
    t = copy.deepcopy(node)
    for n in ast.walk(t):
        if isinstance(n, ast.Name):
            n.id = "_"
        elif isinstance(n, ast.arg):
            n.arg = "_"
    return ast.dump(t)


def _stmts(node):
    """all statements of a function body, outer before inner"""
    out = []
    for n in ast.walk(node):
        if isinstance(n, ast.stmt) and n is not node:
            out.append(n)
    return out


def name_map(code_fn, ref_fn):
    """local-name mapping code -> reference, from statements of equal shape (each reference statement is used at most once)"""
    ref_stmts = _stmts(ref_fn)
    used = set()
    mapping, conflict = {}, set()
    params = {a.arg for a in code_fn.args.args + code_fn.args.kwonlyargs + code_fn.args.posonlyargs}
    ref_by_shape = {}
    for i, r in enumerate(ref_stmts):
        ref_by_shape.setdefault(_shape(r), []).append(i)
    for c in _stmts(code_fn):
        sh = _shape(c)
        cands = [i for i in ref_by_shape.get(sh, []) if i not in used]
        if not cands:
            continue
        i = cands[0]
        used.add(i)
        for cn, rn in zip(ast.walk(c), ast.walk(ref_stmts[i])):
            if isinstance(cn, ast.Name) and isinstance(rn, ast.Name) and cn.id != rn.id:
                if cn.id in mapping and mapping[cn.id] != rn.id:
                    conflict.add(cn.id)
                mapping.setdefault(cn.id, rn.id)
    stored = {n.id for n in ast.walk(code_fn) if isinstance(n, ast.Name) and isinstance(n.ctx, ast.Store)}
    all_names = {n.id for n in ast.walk(code_fn) if isinstance(n, ast.Name)} | params
    out = {}
    for a, b in mapping.items():
        if a in conflict or a not in stored or a in params:
            continue
        if b in all_names and b not in mapping:
            continue  # would capture another name of the analysed function
        out[a] = b
    if len(set(out.values())) != len(out):
        seen, dup = set(), set()
        for v in out.values():
            (dup if v in seen else seen).add(v)
        out = {a: b for a, b in out.items() if b not in dup}
    return out


def align(code_fn, ref_src):
    """deep copy of the function node with its locals renamed onto the reference's names"""
    ref_fn = ast.parse(ref_src).body[0]
    m = name_map(code_fn, ref_fn)
    new = copy.deepcopy(code_fn)
    if m:
        for n in ast.walk(new):
            if isinstance(n, ast.Name) and n.id in m:
                n.id = m[n.id]
    return new, m
