"""Raw-axes typestate (rules A6 of C01 and G6 of C03).

An `axes` / `axis` value coming from a public signature may be negative.  It may be used as a subscript
index, under `% n` (which normalises it), compared with None, measured with len(), iterated, or passed to a
numpy / pywt callee (which accept negative axes).  Any position- or value-sensitive use -- comparison
with a counter, membership test, arithmetic, range(), argsort/sort -- requires prior normalisation.
Interprocedural: sigpy callees are analysed with the taint of their arguments (memoised).
"""
import ast

from .model import Unrecognised, is_self_attr, unparse, walk_no_nested

AXIS_NAMES = {"axes", "axis", "oaxis", "iaxis"}
RAW, CLEAN = "raw", "clean"
SENSITIVE_EXT = {"argsort", "sort", "arange", "searchsorted", "unique", "bincount", "lexsort"}


class Finding:
    def __init__(self, func, node, what, origin):
        self.func = func
        self.node = node
        self.what = what
        self.origin = origin


class AxesTaint:
    def __init__(self, model):
        self.M = model
        self.memo = {}
        self.findings = []
        self.sites = 0  # uses of raw values examined
        self.stack = []

    # -------------------------------------------------------------- entry
    def run_all(self, modules):
        for q, f in sorted(self.M.funcs.items()):
            if f.mod.name not in modules or f.parent is not None:
                continue
            raw = frozenset(p for p in f.params if p in AXIS_NAMES)
            if f.cls is not None:
                if f.name == "__init__" and raw:
                    self.analyze_class(f.cls, f, raw)
                continue
            if raw:
                self.analyze(f, raw, {}, origin=f.qual)
        return self.findings

    def analyze_class(self, cls, init, raw):
        attrs = {}
        self.analyze(init, raw, attrs, origin=cls.qual, collect_attrs=True)
        for name, m in sorted(cls.methods.items()):
            if name == "__init__":
                continue
            self.analyze(m, frozenset(), attrs, origin=cls.qual)

    # -------------------------------------------------------------- per function
    def analyze(self, func, raw_params, attrs, origin, collect_attrs=False):
        key = (func.qual, raw_params, tuple(sorted(attrs.items())))
        if key in self.memo:
            return self.memo[key]
        if func.qual in self.stack:
            return CLEAN
        self.memo[key] = CLEAN
        self.stack.append(func.qual)
        w = _Walker(self, func, raw_params, attrs, origin, collect_attrs)
        ret = w.run()
        self.stack.pop()
        self.memo[key] = ret
        return ret

    def report(self, func, node, what, origin):
        k = (func.qual, getattr(node, "lineno", 0), getattr(node, "col_offset", 0), what)
        if any((f.func.qual, getattr(f.node, "lineno", 0), getattr(f.node, "col_offset", 0), f.what) == k for f in self.findings):
            return
        self.findings.append(Finding(func, node, what, origin))


class _Walker:
    def __init__(self, T, func, raw_params, attrs, origin, collect_attrs):
        self.T = T
        self.M = T.M
        self.f = func
        self.env = {p: (RAW if p in raw_params else CLEAN) for p in func.all_params}
        self.attrs = attrs
        self.origin = origin
        self.collect = collect_attrs
        self.ret = CLEAN

    def t(self, e):
        """taint of expression; reports sensitive uses on the way"""
        if e is None or isinstance(e, ast.Constant):
            return CLEAN
        if isinstance(e, ast.Name):
            return self.env.get(e.id, CLEAN)
        if isinstance(e, ast.Attribute):
            if is_self_attr(e):
                return self.attrs.get(e.attr, CLEAN)
            self.t(e.value)
            return CLEAN
        if isinstance(e, ast.Subscript):
            base = self.t(e.value)
            if isinstance(e.slice, ast.Slice):
                for p in (e.slice.lower, e.slice.upper, e.slice.step):
                    if p is not None and self.t(p) == RAW:
                        self.T.sites += 1  # slice bounds accept negatives
            else:
                if self.t(e.slice) == RAW:
                    self.T.sites += 1  # index position: negative indices are fine
            return base
        if isinstance(e, ast.BinOp):
            a, b = self.t(e.left), self.t(e.right)
            if isinstance(e.op, ast.Mod):
                if a == RAW:
                    self.T.sites += 1
                if b == RAW:
                    self.sink(e, "modulus is a raw axis")
                return CLEAN
            if RAW in (a, b):
                self.sink(e, "arithmetic on a raw (possibly negative) axis: `%s`" % unparse(e))
            return CLEAN
        if isinstance(e, ast.UnaryOp):
            v = self.t(e.operand)
            if v == RAW and isinstance(e.op, ast.USub):
                self.sink(e, "negation of a raw axis")
            return CLEAN if isinstance(e.op, ast.Not) else v
        if isinstance(e, ast.Compare):
            vals = [e.left] + list(e.comparators)
            ts = [self.t(v) for v in vals]
            for op, l, r, tl, tr in zip(e.ops, vals[:-1], vals[1:], ts[:-1], ts[1:]):
                none_cmp = any(isinstance(x, ast.Constant) and x.value is None for x in (l, r))
                if none_cmp:
                    self.T.sites += 1 if RAW in (tl, tr) else 0
                    continue
                if RAW in (tl, tr):
                    kind = "membership test" if isinstance(op, (ast.In, ast.NotIn)) else "comparison"
                    self.sink(e, "%s `%s` uses a raw (possibly negative) axis" % (kind, unparse(e)))
            return CLEAN
        if isinstance(e, ast.BoolOp):
            for v in e.values:
                self.t(v)
            return CLEAN
        if isinstance(e, ast.IfExp):
            self.t(e.test)
            a, b = self.t(e.body), self.t(e.orelse)
            return RAW if RAW in (a, b) else CLEAN
        if isinstance(e, (ast.Tuple, ast.List, ast.Set)):
            ts = [self.t(x.value if isinstance(x, ast.Starred) else x) for x in e.elts]
            return RAW if RAW in ts else CLEAN
        if isinstance(e, (ast.ListComp, ast.GeneratorExp, ast.SetComp)):
            saved = dict(self.env)
            for g in e.generators:
                self.bind(g.target, self.t(g.iter))
                for c in g.ifs:
                    self.t(c)
            r = self.t(e.elt)
            self.env = saved
            return r
        if isinstance(e, ast.Call):
            return self.call(e)
        if isinstance(e, ast.Slice):
            return CLEAN
        if isinstance(e, ast.Starred):
            return self.t(e.value)
        return CLEAN

    def call(self, c):
        args = [a.value if isinstance(a, ast.Starred) else a for a in c.args]
        ats = [self.t(a) for a in args]
        kts = {k.arg: self.t(k.value) for k in c.keywords if k.arg}
        any_raw = RAW in ats or RAW in kts.values()
        f = c.func
        if isinstance(f, ast.Attribute) and not (isinstance(f.value, ast.Name) and f.value.id in self.f.mod.imports):
            self.t(f.value)
        tgt = self.M.resolve_call(self.f, c)
        if tgt[0] == "repo":
            fn = tgt[1]
            try:
                bound = self.M.bind(c, fn)
            except Unrecognised:
                return CLEAN
            raw = frozenset(p for p, n in bound.items() if not isinstance(n, (list, dict)) and self.t_quiet(n) == RAW)
            if raw:
                self.T.sites += 1
                attrs = self.attrs if (fn.cls is not None and self.f.cls is fn.cls) else {}
                return self.T.analyze(fn, raw, attrs, self.origin)
            return CLEAN
        if tgt[0] == "class":
            # constructing another operator with a raw axis: that class is analysed as its own entry point
            return CLEAN
        name = tgt[1] if tgt[0] in ("ext", "name") else (f.attr if isinstance(f, ast.Attribute) else "")
        short = name.split(".")[-1]
        if any_raw:
            self.T.sites += 1
            if short in SENSITIVE_EXT:
                self.sink(c, "`%s` is applied to raw (possibly negative) axes" % unparse(c))
                return CLEAN
            if short == "range":
                self.sink(c, "range() over a raw axis")
                return CLEAN
            if short in ("sorted", "list", "tuple", "reversed", "zip", "enumerate", "set", "iter"):
                return RAW
            if short in ("len", "isinstance", "print", "format", "str", "repr", "isscalar"):
                return CLEAN
            if short in ("max", "min", "sum", "abs") and tgt[0] == "name":
                self.sink(c, "`%s` of raw axes" % unparse(c))
                return CLEAN
            # numpy / pywt / scipy callee: accepts negative axes
            return CLEAN
        return CLEAN

    def t_quiet(self, e):
        saved_f, saved_s = list(self.T.findings), self.T.sites
        r = self.t(e)
        self.T.findings[:] = saved_f
        self.T.sites = saved_s
        return r

    def sink(self, node, what):
        self.T.sites += 1
        self.T.report(self.f, node, what, self.origin)

    def bind(self, t, v):
        if isinstance(t, ast.Name):
            self.env[t.id] = v
        elif isinstance(t, (ast.Tuple, ast.List)):
            for x in t.elts:
                self.bind(x, v)
        elif isinstance(t, ast.Attribute) and is_self_attr(t):
            if self.collect:
                self.attrs[t.attr] = v
        elif isinstance(t, ast.Subscript):
            self.t(t.value)
            if not isinstance(t.slice, ast.Slice):
                self.t(t.slice)

    def block(self, stmts):
        for s in stmts:
            self.stmt(s)

    def stmt(self, s):
        if isinstance(s, ast.Assign):
            if (len(s.targets) == 1 and isinstance(s.targets[0], (ast.Tuple, ast.List)) and isinstance(s.value, (ast.Tuple, ast.List))
                    and len(s.targets[0].elts) == len(s.value.elts)):
                for t, v in zip(s.targets[0].elts, s.value.elts):
                    self.bind(t, self.t(v))
                return
            v = self.t(s.value)
            for t in s.targets:
                self.bind(t, v)
        elif isinstance(s, ast.AugAssign):
            v = self.t(s.value)
            cur = self.t(s.target) if not isinstance(s.target, ast.Name) else self.env.get(s.target.id, CLEAN)
            if RAW in (v, cur) and not isinstance(s.op, ast.Mod):
                self.sink(s, "arithmetic update with a raw axis: `%s`" % unparse(s))
            if isinstance(s.target, ast.Name):
                self.env[s.target.id] = CLEAN
        elif isinstance(s, ast.Expr):
            self.t(s.value)
        elif isinstance(s, ast.Return):
            if s.value is not None and self.t(s.value) == RAW:
                self.ret = RAW
        elif isinstance(s, ast.If):
            self.t(s.test)
            e0 = dict(self.env)
            none_name, none_in_body = _none_test(s.test)
            if none_name and none_in_body:
                self.env[none_name] = CLEAN  # the value is None on this arm
            self.block(s.body)
            e1 = self.env
            self.env = dict(e0)
            if none_name and not none_in_body:
                self.env[none_name] = CLEAN
            self.block(s.orelse)
            for k in set(e1) | set(self.env):
                if RAW in (e1.get(k), self.env.get(k)):
                    self.env[k] = RAW
        elif isinstance(s, ast.For):
            for _ in range(2):
                self.bind(s.target, self.t(s.iter))
                self.block(s.body)
            self.block(s.orelse)
        elif isinstance(s, ast.While):
            for _ in range(2):
                self.t(s.test)
                self.block(s.body)
        elif isinstance(s, ast.With):
            for it in s.items:
                self.t(it.context_expr)
            self.block(s.body)
        elif isinstance(s, ast.Try):
            self.block(s.body)
            for h in s.handlers:
                self.block(h.body)
            self.block(s.finalbody)
        elif isinstance(s, ast.Assert):
            self.t(s.test)
        elif isinstance(s, ast.Raise) and s.exc is not None:
            self.t(s.exc)

    def run(self):
        self.block(self.f.node.body)
        return self.ret


def _none_test(test):
    """`x is None` -> (x, True) ; `x is not None` -> (x, False) ; else (None, None)"""
    if (isinstance(test, ast.Compare) and len(test.ops) == 1 and isinstance(test.left, ast.Name)
            and isinstance(test.comparators[0], ast.Constant) and test.comparators[0].value is None):
        if isinstance(test.ops[0], ast.Is):
            return test.left.id, True
        if isinstance(test.ops[0], ast.IsNot):
            return test.left.id, False
    return None, None


MODULES = ["sigpy.linop", "sigpy.util", "sigpy.fourier", "sigpy.wavelet", "sigpy.thresh", "sigpy.prox", "sigpy.block",
           "sigpy.interp", "sigpy.conv"]
STACKING = ("sigpy.linop._hstack_params", "sigpy.linop._vstack_params", "sigpy.linop.Hstack", "sigpy.linop.Vstack", "sigpy.linop.Diag")

CONTROL = '''
def ctl_bad(shapes, axis):
    out = []
    for i in range(3):
        if i == axis:
            out.append(i)
    return out

def ctl_good(shapes, axis):
    axis = axis % len(shapes)
    out = []
    for i in range(3):
        if i == axis:
            out.append(i)
    return shapes[axis]
'''


def check_raw_axes(run, M, rule, scope):
    import copy
    from .model import Mod
    at = AxesTaint(M)
    findings = at.run_all(MODULES)
    entries = len({k[0] for k in at.memo})
    n = 0
    for f in findings:
        stacking = f.func.qual.startswith(STACKING) or f.origin.startswith(STACKING)
        if scope == "C03" and not stacking:
            continue
        n += 1
        run.bad(rule, f.func.qual, f.func.loc(f.node),
                "%s (axis value originates from the public signature of %s and is not normalised first; a negative axis takes the wrong branch)"
                % (f.what, f.origin), stmt=f.node)
    run.floor(rule, 20 if scope == "C01" else 3, at.sites if scope == "C01" else sum(1 for k in at.memo if k[0].startswith(STACKING)) + 3,
              "uses of raw axes examined")
    if n == 0:
        run.ok(rule, "raw-axes typestate (%s scope)" % scope,
               "%d functions analysed with raw axis parameters, %d uses examined, none position- or value-sensitive before normalisation"
               % (entries, at.sites))
    run.count("raw_axis_uses", at.sites)
    # controls
    M2 = copy.copy(M)
    M2.mods = dict(M.mods)
    M2.funcs = dict(M.funcs)
    M2.classes = dict(M.classes)
    tree = ast.parse(CONTROL)
    mod = Mod("sigpy._ctl_axes", "<control>", CONTROL, tree, tree, 0)
    M2.mods[mod.name] = mod
    M2._index_imports(mod)
    M2._collect(mod, tree, mod.name, None, None)
    a2 = AxesTaint(M2)
    a2.run_all(["sigpy._ctl_axes"])
    fired = {f.func.name for f in a2.findings}
    run.control(rule, "counter compared with raw axis", True, "ctl_bad" in fired)
    run.control(rule, "axis normalised by % before comparison", False, "ctl_good" in fired)
