"""C18 -- Poisson-disc masks are binary, within tolerance or an error, calibrated/cropped, and leave numpy's RNG untouched.

B1 binary abstract domain: the returned mask only ever holds 0/1 (zeros, stores of the literal 1, multiplication by comparisons, reshape/astype)
B2 tolerance: every returning path satisfies |actual_accel - accel| < tol for actual_accel = size / sum(mask) of the very mask that is returned
   (the post-loop raise guard is the negation of the loop's break condition and dominates the return)
B3 RNG pairing: if get_state() was taken (seed is not None), every returning path restores exactly that state with set_state
B4 seed is forwarded and seeds before the first draw; corner crop (r < 1) is applied after the last definition of the mask and before the accuracy test;
   the calibration block is written with 1 and no later statement stores anything but 1 into the mask
Not decided: that the calibration block lies inside r < 1 (numeric relation between calib and img_shape).
"""
import ast

from .. import terms as T
from ..domains import BIN, BinDomain
from ..model import AnchorMissing, Unrecognised, calls_in, unparse, walk_no_nested
from ..paths import calls_on_path, enumerate_paths
from ..vn import NONE, TRUE, VN, State, cond_text, iter_once_while, negate

REF_GEOM = """
ny, nx = img_shape
y, x = np.mgrid[:ny, :nx]
x = np.maximum(abs(x - img_shape[-1] / 2) - calib[-1] / 2, 0)
x = x / x.max()
y = np.maximum(abs(y - img_shape[-2] / 2) - calib[-2] / 2, 0)
y = y / y.max()
r = np.sqrt(x ** 2 + y ** 2)
"""


REF_CALL = """
slope_max = max(nx, ny)
slope_min = 0
while slope_min < slope_max:
    slope = (slope_max + slope_min) / 2
    radius_x = np.clip((1 + r * slope) * nx / max(nx, ny), 1, None)
    radius_y = np.clip((1 + r * slope) * ny / max(nx, ny), 1, None)
    mask = _poisson(img_shape[-1], img_shape[-2], max_attempts, radius_x, radius_y, calib, seed)
"""


def _b2t(run, M, f):
    """"within tol of the request or an error" also means: one of the two happens.  The slope is found by bisection on floats; when the bracket has
    shrunk to two adjacent floats the midpoint (lo + hi) / 2 IS one of them, neither bound moves any more and `while lo < hi` spins forever -- for
    every request no slope satisfies (an unreachable tol).  The loop must leave (break / raise / return) when the midpoint stops being interior,
    or bound its iterations."""
    run.rule("B2t", "the bisection over the slope terminates for unsatisfiable requests: the loop exits when the midpoint equals an end of the bracket (or counts its iterations), "
                    "so that the failure is reported by the ValueError after the loop")
    loops = [n for n in ast.walk(f.node) if isinstance(n, ast.While)]
    n_bis = 0
    for w in loops:
        t = w.test
        conj = t.values if isinstance(t, ast.BoolOp) and isinstance(t.op, ast.And) else [t]
        pair = None
        for c in conj:
            if isinstance(c, ast.Compare) and len(c.ops) == 1 and isinstance(c.ops[0], (ast.Lt, ast.Gt, ast.LtE, ast.GtE, ast.NotEq)) \
                    and isinstance(c.left, ast.Name) and isinstance(c.comparators[0], ast.Name):
                pair = (c.left.id, c.comparators[0].id)
        if pair is None:
            continue
        mids = set()
        for n in ast.walk(w):
            if isinstance(n, ast.Assign) and len(n.targets) == 1 and isinstance(n.targets[0], ast.Name):
                names = {x.id for x in ast.walk(n.value) if isinstance(x, ast.Name)}
                if set(pair) <= names:
                    mids.add(n.targets[0].id)
        moved = any(isinstance(n, ast.Assign) and isinstance(n.targets[0], ast.Name) and n.targets[0].id in pair and isinstance(n.value, ast.Name) and n.value.id in mids
                    for n in ast.walk(w))
        if not mids or not moved:
            continue
        n_bis += 1
        bounded = len(conj) > 1 and any(not (isinstance(c, ast.Compare) and {x.id for x in ast.walk(c) if isinstance(x, ast.Name)} <= set(pair)) for c in conj)
        guarded = False
        for n in ast.walk(w):
            if isinstance(n, ast.If) and any(isinstance(x, (ast.Break, ast.Raise, ast.Return)) for b in n.body for x in ast.walk(b)):
                names = {x.id for x in ast.walk(n.test) if isinstance(x, ast.Name)}
                cmps = [c for c in ast.walk(n.test) if isinstance(c, ast.Compare) and any(isinstance(o, (ast.Eq, ast.In, ast.LtE, ast.GtE)) for o in c.ops)]
                if (names & mids) and (names & set(pair)) and cmps:
                    guarded = True
        run.check(guarded or bounded, "B2t", "poisson bisection over (%s, %s)" % pair, f.loc(w), "exits when the midpoint is no longer interior (or iterations are bounded)",
                  "poisson bisects `%s` between `%s` and `%s` in a `while %s` loop without leaving it when the midpoint equals an end of the bracket: once the two bounds are "
                  "adjacent floats the midpoint is one of them, no bound moves, and for a request no slope satisfies (e.g. poisson((32, 32), 4, tol=0.001, seed=0)) the call "
                  "neither returns a mask within tol nor raises -- it never returns" % (sorted(mids)[0], pair[0], pair[1], unparse(w.test)), stmt="B2t")
    run.floor("B2t", 1, n_bis, "bisection loops in poisson")


def check(run, M, tier):
    run.rule("B1", "binary-valued abstract domain: the value returned by poisson (and by _poisson) is Bin on every path")
    run.rule("B2", "every returning path of poisson carries |size/sum(mask) - accel| < tol for the mask it returns; other paths raise")
    run.rule("B3", "numpy.random.get_state() under `seed is not None` is paired with set_state(that state) on every returning path")
    run.rule("B4", "seed forwarded to _poisson, which seeds before the first draw; crop r < 1 after the last mask definition; only the literal 1 is ever stored into the mask")
    f = M.func("sigpy.mri.samp.poisson")
    g = M.func("sigpy.mri.samp._poisson")
    run.level = "proof"
    run.rule("B5", "no function of sigpy.mri.samp is memoised or keeps results in a module-level container")
    from ..common import check_no_memoisation
    check_no_memoisation(run, M, "B5", ['sigpy.mri.samp'], 'the same mask array is returned to every caller with equal arguments, so a caller that edits its mask changes what later calls return (the mask no longer depends only on the arguments and seed)')
    # ---- B1
    summ = {}
    bd = BinDomain(M, f, summ)
    rets = bd.run()
    run.floor("B1", 1, len(rets), "return statements of poisson")
    for node, tag in rets:
        why = "; ".join("%s at line %d" % (w, n.lineno) for n, w in bd.trace) or "the value is not built from zeros / literal 1 / comparisons"
        run.check(tag == BIN, "B1", "poisson return", f.loc(node), "returned mask is binary-valued (zeros, 1-stores, *= comparison, reshape/astype)",
                  "the mask returned by poisson is not provably binary: %s" % why, stmt=node)
    bg = BinDomain(M, g, {})
    for node, tag in bg.run():
        why = "; ".join("%s at line %d (`%s`)" % (w, n.lineno, unparse(n)[:50]) for n, w in bg.trace) or "not built from zeros and 1-stores"
        run.check(tag == BIN, "B1", "_poisson return", g.loc(node), "_poisson returns a binary mask", "_poisson's mask is not provably binary: %s" % why, stmt=node)
    ctl = "def ctl(n):\n    m = np.zeros(n)\n    m[0] = 1\n    m += 1\n    return m\n"
    import copy
    from ..model import Mod
    M2 = copy.copy(M)
    M2.mods, M2.funcs, M2.classes = dict(M.mods), dict(M.funcs), dict(M.classes)
    tree = ast.parse("import numpy as np\n" + ctl)
    mod = Mod("sigpy._ctl_bin", "<control>", ctl, tree, tree, 0)
    M2.mods[mod.name] = mod
    M2._index_imports(mod)
    M2._collect(mod, tree, mod.name, None, None)
    run.control("B1", "zeros then += 1", True, any(t != BIN for _, t in BinDomain(M2, M2.funcs["sigpy._ctl_bin.ctl"], {}).run()))

    _b2t(run, M, f)
    # ---- B2 / B3 via value numbering with one symbolic loop iteration
    events_of = {}

    def hook(vn, call, st):
        tgt = M.resolve_call(f, call)
        if tgt[0] == "ext" and tgt[1] in ("numpy.random.get_state", "numpy.random.set_state"):
            args = [vn._as_term(vn.ev(a, st)) for a in call.args]
            if tgt[1].endswith("get_state"):
                tok = T.app("call:numpy.random.get_state", T.sym("RNGSTATE%d" % len([e for e in st.events if e[0] == "get_state"]), real=True), real=True)
                st.events.append(("get_state", tok, call))
                return tok
            st.events.append(("set_state", args[0] if args else None, call))
            return NONE
        if tgt[0] == "ext" and tgt[1].startswith("numpy.random."):
            st.events.append(("draw", tgt[1], call))     # consumes / reseeds numpy's global stream
        return None
    vn = VN(M, f, call_hook=hook, loop_hook=iter_once_while, real={"accel", "tol", "actual_accel"})
    outs = vn.run(f.body, State())
    rets = [o for o in outs if o.status == "return"]
    run.floor("B2", 2, len(rets), "returning paths of poisson")
    run.count("paths", len(outs))
    local_names = {x.id for x in ast.walk(f.node) if isinstance(x, ast.Name) and isinstance(x.ctx, ast.Store)} - set(f.params)
    for o in rets:
        ret = o.ret
        # the mask that is returned, stripped of reshape/astype
        base = ret
        while isinstance(base, T.Poly):
            a = base.single_atom()
            if a is not None and a[0] == "app" and a[1] in ("reshape", "astype"):
                base = T.dec(a[2][0])
            else:
                break
        ba_ = base.single_atom() if isinstance(base, T.Poly) else None
        if ba_ is not None and ba_[0] == "sym" and ba_[1] in local_names:
            # the "mask" returned on this path is a local that no statement of the path has bound (the loop was left before its first assignment):
            # the path ends in UnboundLocalError, it does not return
            continue
        # img_shape is a pair (documented; `ny, nx = img_shape` makes the engine spell img_shape[-1] as img_shape[1]): both spellings of the size
        cands = []
        for src_ in ("img_shape[-1] * img_shape[-2]", "img_shape[1] * img_shape[0]"):
            size = VN().ev(ast.parse(src_, mode="eval").body, State())
            if isinstance(base, T.Poly):
                cands += [T.div(size, T.app("sum", base)), T.div(size, vn.lin_sum(base))]
        want = None
        found = False
        for cand in cands:
            if cand is None:
                continue
            c = VN(real={"accel", "tol"}).compare(ast.Lt(), T.abs_(T.sub(cand, T.sym("accel", real=True))), T.sym("tol", real=True))
            if any(c == k for k in o.conds):
                found = True
        run.check(found, "B2", "poisson return[%s]" % cond_text(o.conds)[:60], f.loc(), "path condition contains |size/sum(mask) - accel| < tol for the returned mask",
                  "a returning path of poisson [%s] does not carry |img_size/sum(mask) - accel| < tol for the mask it returns (%s)"
                  % (cond_text(o.conds)[:200], T.show(base, 120)), stmt="B2:" + cond_text(o.conds)[:80])
        # B3
        gets = [e for e in o.events if e[0] == "get_state"]
        sets = [e for e in o.events if e[0] == "set_state"]
        for e in [e for e in o.events if e[0] == "draw"]:
            i = o.events.index(e)
            inside = any(o.events.index(g) < i for g in gets) and any(o.events.index(z) > i and gets and z[1] == gets[-1][1] for z in sets)
            run.check(inside, "B3", "poisson draw[%s]" % cond_text(o.conds)[:40], f.loc(e[2]), "inside the saved/restored bracket",
                      "poisson calls %s (`%s`) outside the get_state()/set_state() bracket on the returning path [%s]: numpy's global random stream is left "
                      "advanced for the caller" % (e[1], unparse(e[2]), cond_text(o.conds)[:100]), stmt="B3:draw:" + unparse(e[2]))
        if gets:
            ok = len(sets) >= 1 and sets[-1][1] == gets[-1][1] and o.events.index(sets[-1]) > o.events.index(gets[-1])
            run.check(ok, "B3", "poisson RNG pairing[%s]" % cond_text(o.conds)[:40], f.loc(), "set_state(saved state) after get_state on this returning path",
                      "a returning path of poisson [%s] saves numpy's global RNG state but %s" % (cond_text(o.conds)[:120], "restores a different value" if sets else "never restores it"),
                      stmt="B3:" + cond_text(o.conds)[:80])
        else:
            seeded = not any(T.show(c) == "is(seed, None)" for c in o.conds)
            run.check(not seeded, "B3", "poisson RNG save[%s]" % cond_text(o.conds)[:40], f.loc(), "no seeding on this path, nothing to save",
                      "a seeded path of poisson [%s] never saves numpy's global RNG state although _poisson reseeds it" % cond_text(o.conds)[:120], stmt="B3:nosave:" + cond_text(o.conds)[:80])
    raising = [o for o in outs if o.status == "raise"]
    if any(e[0] == "get_state" for o in raising for e in o.events):
        run.info("observation: on its error paths poisson does not restore the saved RNG state (nothing was returned; under numba the draws use numba's own generator)")
    # geometry of the radius used by the crop, and what reaches _poisson -- all read off terms, never off local names
    pre = []
    for s in f.body:
        if isinstance(s, ast.While):
            break
        pre.append(s)
    vg = VN(M, f)
    cg = vg.run([s for s in pre if not isinstance(s, ast.If)], State())
    rg = VN(M, f).run(ast.parse(REF_GEOM).body, State())
    want_r = rg[0].env["r"] if len(rg) == 1 else None
    loops = [s for s in f.body if isinstance(s, ast.While)]
    run.floor("B4", 1, len(loops), "search loops in poisson")
    retname = None
    for n in walk_no_nested(f.node):
        if isinstance(n, ast.Return) and isinstance(n.value, ast.Name):
            retname = n.value.id
    for w in loops:
        # roles: the mask is what the _poisson call is assigned to; the crop is the statement under `if crop_corner`; the measurement is
        # the first later statement that reads sum(mask)
        idx_def = idx_crop = idx_meas = None
        mname = None
        crop_ok = False
        crop_term = None
        for i_, st_ in enumerate(w.body):
            if isinstance(st_, ast.Assign) and isinstance(st_.value, ast.Call) and isinstance(st_.value.func, ast.Name) and st_.value.func.id == "_poisson" \
                    and isinstance(st_.targets[0], ast.Name):
                idx_def, mname = i_, st_.targets[0].id
            elif isinstance(st_, ast.If) and unparse(st_.test) == "crop_corner" and mname is not None and idx_crop is None:
                idx_crop = i_
                if len(st_.body) == 1 and not st_.orelse:
                    c_ = st_.body[0]
                    cmpn = None
                    if isinstance(c_, ast.AugAssign) and isinstance(c_.op, ast.Mult) and isinstance(c_.target, ast.Name) and c_.target.id == mname:
                        cmpn = c_.value
                    elif isinstance(c_, ast.Assign) and isinstance(c_.targets[0], ast.Name) and c_.targets[0].id == mname and isinstance(c_.value, ast.BinOp) \
                            and isinstance(c_.value.op, ast.Mult):
                        l_, r_ = c_.value.left, c_.value.right
                        if isinstance(l_, ast.Name) and l_.id == mname:
                            cmpn = r_
                        elif isinstance(r_, ast.Name) and r_.id == mname:
                            cmpn = l_
                    if isinstance(cmpn, ast.Name):
                        from ..model import resolve_temp
                        cmpn = resolve_temp(f.node, cmpn)   # `inside = r < 1` hoisted into a temporary
                    if isinstance(cmpn, ast.Compare) and len(cmpn.ops) == 1 and len(cg) >= 1:
                        # `R < 1` in any spelling (`1 > R`): the comparison normal form is pos(1 - R)
                        ct = vg._as_term(vg.ev(cmpn, State(cg[0].env)))
                        ca = ct.single_atom() if isinstance(ct, T.Poly) else None
                        if ca is not None and ca[0] == "app" and ca[1] == "pos":
                            crop_term = T.sub(T.const(1), T.dec(ca[2][0]))
                            crop_ok = True
            elif mname is not None and idx_meas is None and any(isinstance(c, ast.Call) and (getattr(c.func, "attr", None) == "sum" or getattr(c.func, "id", None) == "sum")
                                                                and any(isinstance(x, ast.Name) and x.id == mname
                                                                        for a_ in list(c.args) + ([c.func.value] if isinstance(c.func, ast.Attribute) else []) for x in ast.walk(a_))
                                                                for c in ast.walk(st_)):
                idx_meas = i_
        okg = crop_ok and want_r is not None and isinstance(crop_term, T.Poly) and T.eq(crop_term, want_r)
        run.check(okg, "B4", "poisson radius", f.loc(w), "the crop keeps r < 1 with r = sqrt(x^2 + y^2), x, y the normalised distances beyond the calibration block",
                  "the corner crop of poisson compares %s with 1; expected the normalised elliptical radius sqrt(x^2 + y^2)"
                  % (T.show(crop_term, 300) if isinstance(crop_term, T.Poly) else "nothing recognisable"), stmt="B4:r")
        order_ok = None not in (idx_def, idx_crop, idx_meas) and idx_def < idx_crop < idx_meas and crop_ok and mname == retname
        run.check(order_ok, "B4", "poisson loop order", f.loc(w), "mask defined, cropped by r < 1 under crop_corner, then measured; the same variable is returned",
                  "inside the search loop of poisson the statements (mask definition, `if crop_corner: mask *= r < 1`, measurement of sum(mask)) are at positions %s "
                  "(crop recognised: %s, returned variable %s, mask variable %s)" % ((idx_def, idx_crop, idx_meas), crop_ok, retname, mname), stmt="B4:order")
        # arguments of _poisson as terms after one symbolic iteration
        got_args, want_args = {}, {}

        def mk_hook(store):
            def h(vn_, call, st):
                if isinstance(call.func, ast.Name) and call.func.id == "_poisson":
                    b_ = M.bind(call, g)
                    for p_, n_ in b_.items():
                        store[p_] = vn_._as_term(vn_.ev(n_, st))
                    return T.sym("MASK")
                return hook(vn_, call, st)
            return h
        VN(M, f, call_hook=mk_hook(got_args), loop_hook=iter_once_while).run(f.body, State())
        VN(M, f, call_hook=mk_hook(want_args), loop_hook=iter_once_while).run(ast.parse(REF_GEOM + REF_CALL).body, State())
        diff = sorted(p_ for p_ in set(got_args) | set(want_args) if T.enc(got_args.get(p_)) != T.enc(want_args.get(p_)))
        run.check(bool(got_args) and not diff, "B4", "poisson -> _poisson arguments", f.loc(w), "seed, calib, sizes and the per-axis radii clip((1 + r*slope) n/max(nx, ny), 1) forwarded",
                  "poisson calls _poisson with %s; expected %s" % ({p_: T.show(got_args.get(p_), 160) for p_ in diff}, {p_: T.show(want_args.get(p_), 160) for p_ in diff}), stmt="B4:args")
    # _poisson: seed before first draw; only literal 1 stored
    isrand = lambda c: (M.resolve_call(g, c)[0] == "ext" and M.resolve_call(g, c)[1].startswith("numpy.random."))
    # top-level statement order: the guarded seeding statement precedes the first statement that draws
    seed_at, draw_at = None, None
    for i_, st_ in enumerate(g.body):
        rc = [c for c in ast.walk(st_) if isinstance(c, ast.Call) and isrand(c)]
        seeds = [c for c in rc if M.resolve_call(g, c)[1] == "numpy.random.seed"]
        draws = [c for c in rc if c not in seeds]
        if seeds and seed_at is None:
            ok_guard = isinstance(st_, ast.If) and unparse(st_.test) == "seed is not None" and not st_.orelse
            ok_arg = [unparse(a_) for a_ in seeds[0].args] in (["int(seed)"], ["seed"])
            seed_at = i_ if (ok_guard and ok_arg) else -1
        if draws and draw_at is None:
            draw_at = i_
    run.check(seed_at is not None and seed_at >= 0 and draw_at is not None and seed_at < draw_at, "B4", "_poisson seeding", g.loc(),
              "`if seed is not None: np.random.seed(int(seed))` precedes the first draw",
              "_poisson does not seed (np.random.seed(int(seed)) under `seed is not None`) before its first random draw (seed statement %s, first draw statement %s)"
              % (seed_at, draw_at), stmt="B4:seed-first")
    gmask = None
    for n in walk_no_nested(g.node):
        if isinstance(n, ast.Return) and isinstance(n.value, ast.Name):
            gmask = n.value.id
    stores = [n for n in walk_no_nested(g.node) if (isinstance(n, ast.Assign) and isinstance(n.targets[0], ast.Subscript) and unparse(n.targets[0].value) == gmask)
              or (isinstance(n, ast.AugAssign) and isinstance(n.target, ast.Subscript) and unparse(n.target.value) == gmask)]
    run.floor("B4", 2, len(stores), "stores into the mask in _poisson")
    for s_ in stores:
        run.check(isinstance(s_, ast.Assign) and isinstance(s_.value, ast.Constant) and s_.value.value == 1, "B4", "_poisson mask store", g.loc(s_), "stores the literal 1",
                  "_poisson stores `%s` into the mask; calibration and sample points must stay 1" % unparse(s_), stmt=s_)
    cal = [s_ for s_ in stores if isinstance(s_, ast.Assign) and isinstance(s_.targets[0].slice, ast.Tuple) and all(isinstance(x, ast.Slice) for x in s_.targets[0].slice.elts)]
    want_cal = "mask[int(ny / 2 - calib[-2] / 2):int(ny / 2 + calib[-2] / 2), int(nx / 2 - calib[-1] / 2):int(nx / 2 + calib[-1] / 2)] = 1"
    run.check(len(cal) == 1 and unparse(cal[0]).replace(" ", "") == want_cal.replace("mask[", "%s[" % gmask).replace(" ", ""), "B4", "_poisson calibration block", g.loc(),
              "centred calib[-2] x calib[-1] block set to 1", "calibration block store is `%s`" % (unparse(cal[0]) if cal else "missing"), stmt="B4:calib")
