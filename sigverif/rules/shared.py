"""SH -- the shared helpers every property leans on equal their documented forms.

The rules of the twenty properties read the code their property is anchored in and treat calls of a handful of small shared helpers
(sigpy/util.py, sigpy/backend.py) as *named* operations: `util.vec` is "ravel and concatenate", `util.split` its inverse, `backend.copyto`
"overwrite output with input", and so on.  That reading is only as good as the helpers: an edit to one of them, made for the sake of some
other user, changes the behaviour behind every property whose code reaches it.  This module certifies the helpers once, by comparing each
with its documented form path by path (value numbering, canonical terms), and every property's check evaluates it for exactly those helpers
its anchored code can reach through the resolved call graph.

Compared: path conditions, returned value, and -- for the helpers that update an argument in place -- the final value of that argument.
"""
import ast

from .. import terms as T
from ..model import AnchorMissing, Unrecognised
from ..vn import VN, State, cond_text

# helper -> (documented form, names of parameters updated in place)
REF = {
    "sigpy.util._normalize_axes": ("""
if axes is None:
    return tuple(range(ndim))
else:
    return tuple(a % ndim for a in sorted(axes))
""", ()),
    "sigpy.util._normalize_shape": ("""
if isinstance(shape, int):
    return (shape,)
else:
    return tuple(shape)
""", ()),
    "sigpy.util._expand_shapes": ("""
shapes = [list(shape) for shape in shapes]
max_ndim = max(len(shape) for shape in shapes)
return tuple([[1] * (max_ndim - len(shape)) + shape for shape in shapes])
""", ()),
    "sigpy.util.prod": ("return np.prod(shape, dtype=np.int64)", ()),
    "sigpy.util.vec": ("""
xp = backend.get_array_module(inputs[0])
return xp.concatenate([i.ravel() for i in inputs])
""", ()),
    "sigpy.util.split": ("""
outputs = []
for oshape in oshapes:
    osize = prod(oshape)
    outputs.append(vec[:osize].reshape(oshape))
    vec = vec[osize:]
return outputs
""", ()),
    "sigpy.util.rss": ("""
xp = backend.get_array_module(input)
return xp.sum(xp.abs(input) ** 2, axis=axes) ** 0.5
""", ()),
    "sigpy.util.dirac": ("""
device = backend.Device(device)
xp = device.xp
with device:
    return resize(xp.ones([1], dtype=dtype), shape)
""", ()),
    "sigpy.util.randn": ("""
device = backend.Device(device)
xp = device.xp
with device:
    if np.issubdtype(dtype, np.complexfloating):
        real_dtype = np.array([], dtype=dtype).real.dtype
        real_shape = tuple(shape) + (2,)
        output = xp.random.normal(size=real_shape, scale=scale / 2**0.5)
        output = output.astype(real_dtype)
        output = output.view(dtype=dtype).reshape(shape)
        return output
    else:
        return xp.random.normal(size=shape, scale=scale).astype(dtype)
""", ()),
    "sigpy.util.axpy": ("y += a * x", ("y",)),
    "sigpy.util.xpay": ("""
y *= a
y += x
""", ("y",)),
    "sigpy.backend.get_array_module": ("return np", ()),
    # (CPU build: the model prunes the non-numpy arm of `get_array_module(array) == np`)
    "sigpy.backend.get_device": ("return cpu_device", ()),
    "sigpy.backend.copyto": ("""
idevice = get_device(input)
odevice = get_device(output)
if idevice == cpu_device and odevice != cpu_device:
    with odevice:
        output.set(input)
elif idevice != cpu_device and odevice == cpu_device:
    with idevice:
        np.copyto(output, input.get())
else:
    idevice.xp.copyto(output, input)
""", ("output",)),
}
DEFAULTS = {
    "sigpy.util.rss": {"axes": "(0,)"},
    "sigpy.util.randn": {"scale": "1", "dtype": "np.float64", "device": "backend.cpu_device"},
    "sigpy.util.dirac": {"dtype": "np.float64", "device": "backend.cpu_device"},
}


_LAST_SEEN = {}


def reachable(M, files):
    """qualified names of the certified helpers that code in `files` can reach through resolved calls"""
    seen, work = set(), [f for f in M.funcs.values() if f.mod.path in files]
    hit = set()
    _LAST_SEEN[id(M)] = seen
    while work:
        f = work.pop()
        if f.qual in seen:
            continue
        seen.add(f.qual)
        for n in ast.walk(f.node):
            if isinstance(n, ast.Call):
                try:
                    tgt = M.resolve_call(f, n)
                except Exception:
                    continue
                if tgt[0] == "repo":
                    g = tgt[1]
                    if g.qual in REF:
                        hit.add(g.qual)
                    if g.qual not in seen:
                        work.append(g)
                elif tgt[0] == "class":
                    for m in tgt[1].methods.values():
                        if m.qual not in seen:
                            work.append(m)
    return hit


def _loop_hook():
    from ..linopdesc import havoc_loop
    return havoc_loop


def check(run, M, files):
    run.rule("SH", "the shared helpers this property's code reaches (util.vec / split / prod / rss / _expand_shapes / _normalize_axes / axpy / xpay / dirac / randn, "
                   "backend.copyto / get_device / get_array_module) equal their documented forms path by path, including their in-place effect and their defaults")
    names = sorted(reachable(M, set(files)))
    n = 0
    for q in names:
        if q not in M.funcs:
            raise AnchorMissing("function %s not found" % q)
        f = M.func(q)
        src, inplace = REF[q]
        try:
            code = VN(M, f, loop_hook=_loop_hook()).run(f.body, State())
            ref = VN(M, f, loop_hook=_loop_hook()).run(ast.parse(src.strip()).body, State())
        except Unrecognised as e:
            run.bad("SH", q, f.loc(), "%s cannot be read as its documented form (%s): `%s`" % (q, e, " ".join(src.split())[:160]), stmt="SH:form:" + q)
            n += 1
            continue

        def sig(outs):
            res = []
            for o in outs:
                if o.status == "raise":
                    res.append((tuple(sorted(repr(c.key()) for c in o.conds)), "raise", ""))
                    continue
                ret = "" if o.ret is None else repr(T.enc(VN()._as_term(o.ret)))
                eff = tuple(repr(T.enc(VN()._as_term(o.env[p]))) if p in o.env else "" for p in inplace)
                res.append((tuple(sorted(repr(c.key()) for c in o.conds)), ret, eff))
            return sorted(res, key=repr)
        same = sig(code) == sig(ref)
        shown = "; ".join("[%s] -> %s%s" % (cond_text(o.conds)[:60], (T.show(VN()._as_term(o.ret), 120) if o.ret is not None else o.status),
                                              "".join(" ; %s := %s" % (p, T.show(VN()._as_term(o.env[p]), 80)) for p in inplace if p in o.env)) for o in code[:3])
        run.check(same, "SH", q, f.loc(), "equals its documented form on %d path(s)" % len(ref),
                  "%s deviates from its documented form `%s`: it computes %s -- every caller that relies on the documented meaning of this helper (this property's "
                  "code reaches it) inherits the difference" % (q, " ".join(src.split())[:140], shown), stmt="SH:" + q)
        want = DEFAULTS.get(q)
        if want is not None:
            got = {k: " ".join(ast.unparse(v).split()) for k, v in f.defaults.items()}
            run.check(got == want, "SH", q + " defaults", f.loc(), "defaults %s" % want, "%s has defaults %s; documented %s" % (q, got, want), stmt="SH:def:" + q)
        n += 1
    run.count("shared_helpers", n)
    base_contracts(run, M)
    jit_options(run, M)
    shared_state(run, M)
    late_binding(run, M)


def base_contracts(run, M):
    """the base classes the property's code builds on keep their contracts: Linop (__call__/apply with shape guards, operator overloads, cached
    H and N), Prox.__call__ (shape guards around _prox), Alg.update (one _update, one increment), App.run (the while-not-done loop).  These
    are rules of C03 / C04 / C11 / C15; a property whose code reaches the class evaluates them as well (once)."""
    seen = _LAST_SEEN.get(id(M), set())
    have = set(run.rules)
    mods = {q.rsplit(".", 2)[0] if q.count(".") >= 3 else q.rsplit(".", 1)[0] for q in seen}
    uses = lambda prefix: any(q.startswith(prefix) for q in seen)
    if uses("sigpy.linop.") and "G3" not in have:
        from . import c03, c04
        from ..linopdesc import LinAlg
        alg = LinAlg(M)
        base = M.cls("sigpy.linop.Linop")
        run.rule("G1", "(Linop base class) __mul__/__rmul__/__add__/__neg__/__sub__/__call__ build Compose / Multiply / Add as documented and __call__ is apply(input)")
        run.rule("G3", "(Linop base class) every returning path of Linop.apply passes _check_ishape(input), output = _apply(input), _check_oshape(output) in this order")
        c03._g1(run, M, alg, base)
        c03._g3(run, M, base)
        if "N1" not in have:
            run.rule("N1", "(Linop base class) _normal_linop returns self.H * self; properties N/H return the cached result of _normal_linop()/_adjoint_linop()")
            c04._n1(run, M, alg, base)
    if uses("sigpy.prox.") and "P1" not in have:
        from . import c11
        run.rule("P1", "(Prox base class) every returning path of Prox.__call__ runs _check_shape(input), output = _prox(alpha, input), _check_shape(output)")
        c11._p1(run, M, M.cls(c11.PROX))
    if (uses("sigpy.alg.") or uses("sigpy.app.")) and "T1" not in have:
        from . import c15
        run.rule("T1", "(Alg base class) self.iter is written only by Alg.update (`+= 1`, once, after self._update()) and set to the literal 0 in constructors")
        run.rule("T4", "(App base class) App.run loops `while not alg.done()` with exactly one alg.update() per iteration and returns self._output()")
        c15._t1(run, M, M.cls(c15.ALG))
        c15._t4(run, M)


JIT_NEUTRAL = {"nopython", "cache", "nogil", "forceobj", "looplift", "locals", "debug", "inline", "target_backend"}


def jit_options(run, M):
    """the compiled kernels the property's code reaches run the Python they spell: numba options that change the meaning of that code are not
    admitted -- `parallel=True` turns the accumulating loops of gridding / blocks_to_array into data races, `fastmath=True` licenses
    re-association and assumes no NaN/inf (exactness and the isinf masks go), `error_model="numpy"` turns ZeroDivisionError into inf/nan,
    `boundscheck` changes which inputs raise.  The analysis of the kernels (loop nests, accumulation statements) reads them as sequential Python."""
    seen = _LAST_SEEN.get(id(M), set())
    run.rule("SJ", "numba decorators of the functions this property's code reaches carry only meaning-preserving options (nopython, cache, nogil); no parallel / fastmath / "
                   "error_model / boundscheck, and no prange")
    n = 0
    for q in sorted(seen):
        f = M.funcs.get(q)
        if f is None:
            continue
        for d in f.node.decorator_list:
            call = d if isinstance(d, ast.Call) else None
            head = ast.unparse(call.func if call else d)
            if head.split(".")[-1] not in ("jit", "njit", "vectorize", "guvectorize", "stencil"):
                continue
            n += 1
            bad = [k.arg for k in (call.keywords if call else []) if k.arg not in JIT_NEUTRAL and not (isinstance(k.value, ast.Constant) and k.value.value in (False, None))]
            pr = [x for x in ast.walk(f.node) if isinstance(x, ast.Call) and ast.unparse(x.func).split(".")[-1] == "prange"]
            if bad or pr:
                run.bad("SJ", q, f.loc(d), "%s is compiled with `%s`%s: %s changes what the loops compute (races on accumulated outputs / re-associated or NaN-free "
                        "arithmetic / different error behaviour), while every rule reads the kernel as sequential Python" % (
                            q, ast.unparse(d), " and uses prange" if pr else "", ", ".join(bad) or "prange"), stmt="SJ:" + q)
            else:
                run.ok("SJ", q, "`%s`" % ast.unparse(d)[:80], f.loc(d))
    run.count("jit_decorators", n)


def _mutable_literal(v):
    if isinstance(v, (ast.List, ast.Dict, ast.Set, ast.ListComp, ast.DictComp, ast.SetComp)):
        return True
    if isinstance(v, ast.Call):
        nm = ast.unparse(v.func).split(".")[-1]
        return nm in ("list", "dict", "set", "defaultdict", "OrderedDict", "zeros", "ones", "empty", "array", "zeros_like", "ones_like", "deque")
    return False


def shared_state(run, M):
    """objects that outlive a call and are shared between calls or instances must not be written: a mutable default argument is created once
    per function, a mutable class attribute once per class -- writing to either makes results depend on the history of calls"""
    from ..effects import Effects
    seen = _LAST_SEEN.get(id(M), set())
    run.rule("SD", "no function this property's code reaches writes to one of its own mutable default arguments, and no method writes to a mutable class-level attribute "
                   "(state shared between calls / instances)")
    eff = None
    n = 0
    for q in sorted(seen):
        f = M.funcs.get(q)
        if f is None:
            continue
        muts = [p for p, d in f.defaults.items() if _mutable_literal(d)]
        if muts:
            eff = eff or Effects(M)
            sm = eff.of(q)
            for p in muts:
                n += 1
                hit = p in sm.mut
                grows = any(isinstance(x, ast.Call) and isinstance(x.func, ast.Attribute) and isinstance(x.func.value, ast.Name) and x.func.value.id == p
                            and x.func.attr in ("append", "extend", "update", "add", "setdefault", "insert", "pop", "clear", "remove") for x in ast.walk(f.node))
                run.check(not (hit or grows), "SD", "%s default `%s`" % (q, p), f.loc(), "mutable default is only read",
                          "%s writes to its default argument `%s=%s`: the object is created once, so what one call stores is seen by every later call" % (
                              q, p, ast.unparse(f.defaults[p])), stmt="SD:%s:%s" % (q, p))
    for cq, c in sorted(M.classes.items()):
        if not any(m.qual in seen for m in c.methods.values()):
            continue
        shared = {}
        for b in c.node.body:
            if isinstance(b, ast.Assign) and len(b.targets) == 1 and isinstance(b.targets[0], ast.Name) and _mutable_literal(b.value):
                shared[b.targets[0].id] = b
        if not shared:
            continue
        eff = eff or Effects(M)
        for a, node in shared.items():
            n += 1
            writers = []
            for m in c.methods.values():
                sm = eff.of(m.qual)
                rebinds = any(isinstance(x, ast.Assign) and any(isinstance(t, ast.Attribute) and isinstance(t.value, ast.Name) and t.value.id == "self" and t.attr == a
                                                                  for t in x.targets) for x in ast.walk(m.node))
                if a in sm.attr_mut and not rebinds:
                    writers.append(m.name)
            run.check(not writers, "SD", "%s.%s" % (cq, a), c.mod.path, "class-level container is not written through instances",
                      "%s defines the mutable class attribute `%s = %s` and %s write(s) into it through self: all instances share one object" % (
                          cq, a, ast.unparse(node.value)[:60], ", ".join(writers)), stmt="SD:%s:%s" % (cq, a))
    run.count("shared_mutable_objects", n)


def late_binding(run, M):
    """a lambda / nested function created inside a loop sees the loop variable by reference: every closure made by the loop reads the value of
    the LAST iteration when it is called later.  (Binding the value through a default argument, `lambda x, i=i: ...`, is the idiom that avoids it.)"""
    seen = _LAST_SEEN.get(id(M), set())
    run.rule("SL", "no closure created inside a loop (or comprehension) of the code this property reaches reads that loop's variable as a free name")
    n = 0
    for q in sorted(seen):
        f = M.funcs.get(q)
        if f is None or f.parent is not None:
            continue
        for loop in ast.walk(f.node):
            if isinstance(loop, ast.For):
                tnames = {x.id for x in ast.walk(loop.target) if isinstance(x, ast.Name)}
                body = loop.body
            elif isinstance(loop, (ast.ListComp, ast.GeneratorExp, ast.SetComp, ast.DictComp)):
                tnames = {x.id for g in loop.generators for x in ast.walk(g.target) if isinstance(x, ast.Name)}
                body = [loop.elt] if not isinstance(loop, ast.DictComp) else [loop.key, loop.value]
            else:
                continue
            tnames |= {t.id for b in body for s_ in ast.walk(b) if isinstance(s_, ast.Assign) for t in s_.targets if isinstance(t, ast.Name)}
            for b in body:
                for x in ast.walk(b):
                    if not isinstance(x, (ast.Lambda, ast.FunctionDef)):
                        continue
                    n += 1
                    params = {a.arg for a in x.args.args + x.args.kwonlyargs + x.args.posonlyargs}
                    inner = x.body if isinstance(x.body, list) else [x.body]
                    free = {y.id for i_ in inner for y in ast.walk(i_) if isinstance(y, ast.Name) and isinstance(y.ctx, ast.Load)} - params
                    local = {y.id for i_ in inner for y in ast.walk(i_) if isinstance(y, ast.Name) and isinstance(y.ctx, ast.Store)}
                    captured = sorted((free - local) & tnames)
                    run.check(not captured, "SL", "%s closure at line %d" % (q, x.lineno), f.loc(x), "binds the loop's values (default arguments) or does not use them",
                              "%s creates a closure inside a loop that reads the loop variable(s) %s as free names (`%s`): when the closure is called after the loop it sees "
                              "the values of the last iteration" % (q, captured, ast.unparse(x)[:100]), stmt="SL:%s:%d" % (q, x.lineno))
    run.count("closures_in_loops", n)
