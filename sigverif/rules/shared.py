"""SH -- the shared helpers every property leans on equal their documented forms.

The rules of the twenty properties read the code their property is anchored in and treat calls of a handful of small shared helpers
(sigpy/util.py, sigpy/backend.py) as *named* operations: `util.vec` is "ravel and concatenate", `util.split` its inverse, `backend.copyto`
"overwrite output with input", and so on.  That reading is only as good as the helpers: an edit to one of them, made for the sake of some
other user, changes the behaviour behind every property whose code reaches it.  This module certifies the helpers once, by comparing each
with its documented form path by path (value numbering, canonical terms), and every property's check evaluates it for exactly those helpers
its anchored code can reach through the resolved call graph.

Compared: path conditions, returned value, and -- for the helpers that update an argument in place -- the final value of that argument.
"""
import ast

from .. import terms as T
from ..model import AnchorMissing, Unrecognised
from ..vn import VN, State, cond_text

# helper -> (documented form, names of parameters updated in place)
REF = {
    "sigpy.util._normalize_axes": ("""
if axes is None:
    return tuple(range(ndim))
else:
    return tuple(a % ndim for a in sorted(axes))
""", ()),
    "sigpy.util._normalize_shape": ("""
if isinstance(shape, int):
    return (shape,)
else:
    return tuple(shape)
""", ()),
    "sigpy.util._expand_shapes": ("""
shapes = [list(shape) for shape in shapes]
max_ndim = max(len(shape) for shape in shapes)
return tuple([[1] * (max_ndim - len(shape)) + shape for shape in shapes])
""", ()),
    "sigpy.util.prod": ("return np.prod(shape, dtype=np.int64)", ()),
    "sigpy.util.vec": ("""
xp = backend.get_array_module(inputs[0])
return xp.concatenate([i.ravel() for i in inputs])
""", ()),
    "sigpy.util.split": ("""
outputs = []
for oshape in oshapes:
    osize = prod(oshape)
    outputs.append(vec[:osize].reshape(oshape))
    vec = vec[osize:]
return outputs
""", ()),
    "sigpy.util.rss": ("""
xp = backend.get_array_module(input)
return xp.sum(xp.abs(input) ** 2, axis=axes) ** 0.5
""", ()),
    "sigpy.util.dirac": ("""
device = backend.Device(device)
xp = device.xp
with device:
    return resize(xp.ones([1], dtype=dtype), shape)
""", ()),
    "sigpy.util.randn": ("""
device = backend.Device(device)
xp = device.xp
with device:
    if np.issubdtype(dtype, np.complexfloating):
        real_dtype = np.array([], dtype=dtype).real.dtype
        real_shape = tuple(shape) + (2,)
        output = xp.random.normal(size=real_shape, scale=scale / 2**0.5)
        output = output.astype(real_dtype)
        output = output.view(dtype=dtype).reshape(shape)
        return output
    else:
        return xp.random.normal(size=shape, scale=scale).astype(dtype)
""", ()),
    "sigpy.util.axpy": ("y += a * x", ("y",)),
    "sigpy.util.xpay": ("""
y *= a
y += x
""", ("y",)),
    "sigpy.backend.get_array_module": ("return np", ()),
    # (CPU build: the model prunes the non-numpy arm of `get_array_module(array) == np`)
    "sigpy.backend.get_device": ("return cpu_device", ()),
    "sigpy.backend.copyto": ("""
idevice = get_device(input)
odevice = get_device(output)
if idevice == cpu_device and odevice != cpu_device:
    with odevice:
        output.set(input)
elif idevice != cpu_device and odevice == cpu_device:
    with idevice:
        np.copyto(output, input.get())
else:
    idevice.xp.copyto(output, input)
""", ("output",)),
}
DEFAULTS = {
    "sigpy.util.rss": {"axes": "(0,)"},
    "sigpy.util.randn": {"scale": "1", "dtype": "np.float64", "device": "backend.cpu_device"},
    "sigpy.util.dirac": {"dtype": "np.float64", "device": "backend.cpu_device"},
}


_LAST_SEEN = {}
_PID = {"pid": None}


def _anchor_start(M, files):
    """the functions / methods the property's anchors point at (frozen by tools/gen_anchor_funcs.py from the `where` line ranges of properties.jsonl
    in the pinned tree); new private helpers such a function calls are reached through the call graph.  Falls back to every function of the anchor files."""
    import json
    import os
    here = os.path.dirname(os.path.dirname(os.path.abspath(__file__)))
    quals = None
    try:
        data = json.load(open(os.path.join(here, "anchor_funcs.json")))
        quals = data.get("anchors", {}).get(_PID["pid"])
    except (OSError, ValueError):
        quals = None
    if not quals:
        return [f for f in M.funcs.values() if f.mod.path in set(files)]
    out = []
    for q in quals:
        f = M.funcs.get(q)
        if f is None:
            try:
                f = M.func(q)
            except Exception:
                f = None
        if f is not None:
            out.append(f)
        else:
            # a method that now lives in a (flattened) private base or was removed: take the methods of the class that still exist
            cq = q.rsplit(".", 1)[0]
            c = M.classes.get(cq)
            if c is not None:
                out.extend(c.methods.values())
    return out


def reachable(M, files):
    """qualified names of the certified helpers that code in `files` can reach through resolved calls"""
    start = _anchor_start(M, files)
    seen, work = set(), list(start)
    hit = set()
    _LAST_SEEN[id(M)] = seen
    while work:
        f = work.pop()
        if f.qual in seen:
            continue
        seen.add(f.qual)
        for n in ast.walk(f.node):
            if isinstance(n, ast.Call):
                try:
                    tgt = M.resolve_call(f, n)
                except Exception:
                    continue
                if tgt[0] == "repo":
                    g = tgt[1]
                    if g.qual in REF:
                        hit.add(g.qual)
                    if g.qual not in seen:
                        work.append(g)
                elif tgt[0] == "class":
                    for m in tgt[1].methods.values():
                        if m.qual not in seen:
                            work.append(m)
    return hit


def _loop_hook():
    from ..linopdesc import havoc_loop
    return havoc_loop


def check(run, M, files):
    run.rule("SH", "the shared helpers this property's code reaches (util.vec / split / prod / rss / _expand_shapes / _normalize_axes / axpy / xpay / dirac / randn, "
                   "backend.copyto / get_device / get_array_module) equal their documented forms path by path, including their in-place effect and their defaults")
    names = sorted(reachable(M, set(files)))
    n = 0
    for q in names:
        if q not in M.funcs:
            raise AnchorMissing("function %s not found" % q)
        f = M.func(q)
        src, inplace = REF[q]
        try:
            code = VN(M, f, loop_hook=_loop_hook()).run(f.body, State())
            ref = VN(M, f, loop_hook=_loop_hook()).run(ast.parse(src.strip()).body, State())
        except Unrecognised as e:
            run.bad("SH", q, f.loc(), "%s cannot be read as its documented form (%s): `%s`" % (q, e, " ".join(src.split())[:160]), stmt="SH:form:" + q)
            n += 1
            continue

        def sig(outs):
            res = []
            for o in outs:
                if o.status == "raise":
                    res.append((tuple(sorted(repr(c.key()) for c in o.conds)), "raise", ""))
                    continue
                ret = "" if o.ret is None else repr(T.enc(VN()._as_term(o.ret)))
                eff = tuple(repr(T.enc(VN()._as_term(o.env[p]))) if p in o.env else "" for p in inplace)
                res.append((tuple(sorted(repr(c.key()) for c in o.conds)), ret, eff))
            return sorted(res, key=repr)
        same = sig(code) == sig(ref)
        shown = "; ".join("[%s] -> %s%s" % (cond_text(o.conds)[:60], (T.show(VN()._as_term(o.ret), 120) if o.ret is not None else o.status),
                                              "".join(" ; %s := %s" % (p, T.show(VN()._as_term(o.env[p]), 80)) for p in inplace if p in o.env)) for o in code[:3])
        run.check(same, "SH", q, f.loc(), "equals its documented form on %d path(s)" % len(ref),
                  "%s deviates from its documented form `%s`: it computes %s -- every caller that relies on the documented meaning of this helper (this property's "
                  "code reaches it) inherits the difference" % (q, " ".join(src.split())[:140], shown), stmt="SH:" + q)
        want = DEFAULTS.get(q)
        if want is not None:
            got = {k: " ".join(ast.unparse(v).split()) for k, v in f.defaults.items()}
            run.check(got == want, "SH", q + " defaults", f.loc(), "defaults %s" % want, "%s has defaults %s; documented %s" % (q, got, want), stmt="SH:def:" + q)
        n += 1
    run.count("shared_helpers", n)
    base_contracts(run, M)
    jit_options(run, M)
    shared_state(run, M)
    late_binding(run, M)
    inplace_targets(run, M)
    reexports(run, M, files)
    pinned_defaults(run, M)


def base_contracts(run, M):
    """the base classes the property's code builds on keep their contracts: Linop (__call__/apply with shape guards, operator overloads, cached
    H and N), Prox.__call__ (shape guards around _prox), Alg.update (one _update, one increment), App.run (the while-not-done loop).  These
    are rules of C03 / C04 / C11 / C15; a property whose code reaches the class evaluates them as well (once)."""
    seen = _LAST_SEEN.get(id(M), set())
    have = set(run.rules)
    mods = {q.rsplit(".", 2)[0] if q.count(".") >= 3 else q.rsplit(".", 1)[0] for q in seen}
    uses = lambda prefix: any(q.startswith(prefix) for q in seen)
    if uses("sigpy.linop.") and "G3" not in have:
        from . import c03, c04
        from ..linopdesc import LinAlg
        alg = LinAlg(M)
        base = M.cls("sigpy.linop.Linop")
        run.rule("G1", "(Linop base class) __mul__/__rmul__/__add__/__neg__/__sub__/__call__ build Compose / Multiply / Add as documented and __call__ is apply(input)")
        run.rule("G3", "(Linop base class) every returning path of Linop.apply passes _check_ishape(input), output = _apply(input), _check_oshape(output) in this order")
        c03._g1(run, M, alg, base)
        c03._g3(run, M, base)
        if "N1" not in have:
            run.rule("N1", "(Linop base class) _normal_linop returns self.H * self; properties N/H return the cached result of _normal_linop()/_adjoint_linop()")
            c04._n1(run, M, alg, base)
    if uses("sigpy.prox.") and "P1" not in have:
        from . import c11
        run.rule("P1", "(Prox base class) every returning path of Prox.__call__ runs _check_shape(input), output = _prox(alpha, input), _check_shape(output)")
        c11._p1(run, M, M.cls(c11.PROX))
    if (uses("sigpy.alg.") or uses("sigpy.app.")) and "T1" not in have:
        from . import c15
        run.rule("T1", "(Alg base class) self.iter is written only by Alg.update (`+= 1`, once, after self._update()) and set to the literal 0 in constructors")
        run.rule("T4", "(App base class) App.run loops `while not alg.done()` with exactly one alg.update() per iteration and returns self._output()")
        c15._t1(run, M, M.cls(c15.ALG))
        c15._t4(run, M)


JIT_NEUTRAL = {"nopython", "cache", "nogil", "forceobj", "looplift", "locals", "debug", "inline", "target_backend"}


def jit_options(run, M):
    """the compiled kernels the property's code reaches run the Python they spell: numba options that change the meaning of that code are not
    admitted -- `parallel=True` turns the accumulating loops of gridding / blocks_to_array into data races, `fastmath=True` licenses
    re-association and assumes no NaN/inf (exactness and the isinf masks go), `error_model="numpy"` turns ZeroDivisionError into inf/nan,
    `boundscheck` changes which inputs raise.  The analysis of the kernels (loop nests, accumulation statements) reads them as sequential Python."""
    seen = _LAST_SEEN.get(id(M), set())
    run.rule("SJ", "numba decorators of the functions this property's code reaches carry only meaning-preserving options (nopython, cache, nogil); no parallel / fastmath / "
                   "error_model / boundscheck, and no prange")
    n = 0
    # (kernels defined inside a reached factory function are compiled when the factory runs: they count as reached)
    nested = {q2 for q2, g in M.funcs.items() if g.parent is not None and g.parent.qual in seen}
    for q in sorted(set(seen) | nested):
        f = M.funcs.get(q)
        if f is None:
            continue
        for d in f.node.decorator_list:
            call = d if isinstance(d, ast.Call) else None
            head = ast.unparse(call.func if call else d)
            if head.split(".")[-1] not in ("jit", "njit", "vectorize", "guvectorize", "stencil"):
                continue
            n += 1
            bad = [k.arg for k in (call.keywords if call else []) if k.arg not in JIT_NEUTRAL and not (isinstance(k.value, ast.Constant) and k.value.value in (False, None))]
            pr = [x for x in ast.walk(f.node) if isinstance(x, ast.Call) and ast.unparse(x.func).split(".")[-1] == "prange"]
            if bad or pr:
                run.bad("SJ", q, f.loc(d), "%s is compiled with `%s`%s: %s changes what the loops compute (races on accumulated outputs / re-associated or NaN-free "
                        "arithmetic / different error behaviour), while every rule reads the kernel as sequential Python" % (
                            q, ast.unparse(d), " and uses prange" if pr else "", ", ".join(bad) or "prange"), stmt="SJ:" + q)
            else:
                run.ok("SJ", q, "`%s`" % ast.unparse(d)[:80], f.loc(d))
    run.count("jit_decorators", n)


def _mutable_literal(v):
    if isinstance(v, (ast.List, ast.Dict, ast.Set, ast.ListComp, ast.DictComp, ast.SetComp)):
        return True
    if isinstance(v, ast.Call):
        nm = ast.unparse(v.func).split(".")[-1]
        return nm in ("list", "dict", "set", "defaultdict", "OrderedDict", "zeros", "ones", "empty", "array", "zeros_like", "ones_like", "deque")
    return False


def shared_state(run, M):
    """objects that outlive a call and are shared between calls or instances must not be written: a mutable default argument is created once
    per function, a mutable class attribute once per class -- writing to either makes results depend on the history of calls"""
    from ..effects import Effects
    seen = _LAST_SEEN.get(id(M), set())
    run.rule("SD", "no function this property's code reaches writes to one of its own mutable default arguments, and no method writes to a mutable class-level attribute "
                   "(state shared between calls / instances)")
    eff = None
    n = 0
    for q in sorted(seen):
        f = M.funcs.get(q)
        if f is None:
            continue
        muts = [p for p, d in f.defaults.items() if _mutable_literal(d)]
        if muts:
            eff = eff or Effects(M)
            sm = eff.of(q)
            for p in muts:
                n += 1
                hit = p in sm.mut
                grows = any(isinstance(x, ast.Call) and isinstance(x.func, ast.Attribute) and isinstance(x.func.value, ast.Name) and x.func.value.id == p
                            and x.func.attr in ("append", "extend", "update", "add", "setdefault", "insert", "pop", "clear", "remove") for x in ast.walk(f.node))
                run.check(not (hit or grows), "SD", "%s default `%s`" % (q, p), f.loc(), "mutable default is only read",
                          "%s writes to its default argument `%s=%s`: the object is created once, so what one call stores is seen by every later call" % (
                              q, p, ast.unparse(f.defaults[p])), stmt="SD:%s:%s" % (q, p))
    for cq, c in sorted(M.classes.items()):
        if not any(m.qual in seen for m in c.methods.values()):
            continue
        shared = {}
        for b in c.node.body:
            if isinstance(b, ast.Assign) and len(b.targets) == 1 and isinstance(b.targets[0], ast.Name) and _mutable_literal(b.value):
                shared[b.targets[0].id] = b
        if not shared:
            continue
        eff = eff or Effects(M)
        for a, node in shared.items():
            n += 1
            writers = []
            for m in c.methods.values():
                sm = eff.of(m.qual)
                rebinds = any(isinstance(x, ast.Assign) and any(isinstance(t, ast.Attribute) and isinstance(t.value, ast.Name) and t.value.id == "self" and t.attr == a
                                                                  for t in x.targets) for x in ast.walk(m.node))
                if a in sm.attr_mut and not rebinds:
                    writers.append(m.name)
            run.check(not writers, "SD", "%s.%s" % (cq, a), c.mod.path, "class-level container is not written through instances",
                      "%s defines the mutable class attribute `%s = %s` and %s write(s) into it through self: all instances share one object" % (
                          cq, a, ast.unparse(node.value)[:60], ", ".join(writers)), stmt="SD:%s:%s" % (cq, a))
    run.count("shared_mutable_objects", n)


def late_binding(run, M):
    """a lambda / nested function created inside a loop sees the loop variable by reference: every closure made by the loop reads the value of
    the LAST iteration when it is called later.  (Binding the value through a default argument, `lambda x, i=i: ...`, is the idiom that avoids it.)"""
    seen = _LAST_SEEN.get(id(M), set())
    run.rule("SL", "no closure created inside a loop (or comprehension) of the code this property reaches reads that loop's variable as a free name")
    n = 0
    for q in sorted(seen):
        f = M.funcs.get(q)
        if f is None or f.parent is not None:
            continue
        for loop in ast.walk(f.node):
            if isinstance(loop, ast.For):
                tnames = {x.id for x in ast.walk(loop.target) if isinstance(x, ast.Name)}
                body = loop.body
            elif isinstance(loop, (ast.ListComp, ast.GeneratorExp, ast.SetComp, ast.DictComp)):
                tnames = {x.id for g in loop.generators for x in ast.walk(g.target) if isinstance(x, ast.Name)}
                body = [loop.elt] if not isinstance(loop, ast.DictComp) else [loop.key, loop.value]
            else:
                continue
            tnames |= {t.id for b in body for s_ in ast.walk(b) if isinstance(s_, ast.Assign) for t in s_.targets if isinstance(t, ast.Name)}
            for b in body:
                for x in ast.walk(b):
                    if not isinstance(x, (ast.Lambda, ast.FunctionDef)):
                        continue
                    n += 1
                    params = {a.arg for a in x.args.args + x.args.kwonlyargs + x.args.posonlyargs}
                    inner = x.body if isinstance(x.body, list) else [x.body]
                    free = {y.id for i_ in inner for y in ast.walk(i_) if isinstance(y, ast.Name) and isinstance(y.ctx, ast.Load)} - params
                    local = {y.id for i_ in inner for y in ast.walk(i_) if isinstance(y, ast.Name) and isinstance(y.ctx, ast.Store)}
                    captured = sorted((free - local) & tnames)
                    run.check(not captured, "SL", "%s closure at line %d" % (q, x.lineno), f.loc(x), "binds the loop's values (default arguments) or does not use them",
                              "%s creates a closure inside a loop that reads the loop variable(s) %s as free names (`%s`): when the closure is called after the loop it sees "
                              "the values of the last iteration" % (q, captured, ast.unparse(x)[:100]), stmt="SL:%s:%d" % (q, x.lineno))
    run.count("closures_in_loops", n)


# property -> (functions / methods that are the core of what that property certifies, a rule id that shows its check has already run)
PROVIDERS = [
    ("C09", ("sigpy.util.resize", "sigpy.util.flip", "sigpy.util.circshift", "sigpy.util.downsample", "sigpy.util.upsample",
             "sigpy.block.array_to_blocks", "sigpy.block.blocks_to_array"), "X1"),
    ("C05", ("sigpy.fourier.fft", "sigpy.fourier.ifft"), "F1"),
    ("C07", ("sigpy.interp.interpolate", "sigpy.interp.gridding"), "I1"),
    ("C06", ("sigpy.fourier.nufft", "sigpy.fourier.nufft_adjoint", "sigpy.fourier.toeplitz_psf"), "U1"),
    ("C08", ("sigpy.conv.convolve", "sigpy.conv.convolve_data_adjoint", "sigpy.conv.convolve_filter_adjoint"), "V1"),
    ("C10", ("sigpy.wavelet.fwt", "sigpy.wavelet.iwt"), "W1"),
    ("C11", ("sigpy.prox.", "sigpy.thresh."), "P4"),
    ("C12", ("sigpy.alg.ConjugateGradient._update",), "K1"),
    ("C13", ("sigpy.alg.GradientMethod._update", "sigpy.alg.PrimalDualHybridGradient._update"), "S2"),
    ("C15", ("sigpy.alg.PowerMethod._update", "sigpy.app.App.run"), "T2"),
    ("C03", ("sigpy.linop.Compose._apply", "sigpy.linop.Add._apply", "sigpy.linop.Hstack._apply", "sigpy.linop.Vstack._apply", "sigpy.linop.Diag._apply"), "G2"),
    ("C04", ("sigpy.linop.Linop.N", "sigpy.linop.Linop._normal_linop"), "N2"),
    ("C01", ("sigpy.linop.",), "A1"),
    ("C14", ("sigpy.app.LinearLeastSquares.",), "L1"),
]


def set_property(pid):
    _PID["pid"] = pid


def providers(run, M, pid, tier):
    """What the property's code reaches is part of the property: when the core functions another property certifies (the centred FFT, resize and
    the other index maps, the interpolation kernels, the convolution cores, the wavelet transform, the proximal operators, the solver updates,
    the operator classes and their algebra) are reachable from this property's anchor files, that property's rules are evaluated as part of
    this check (each once).  A change to shared machinery is then reported by every property it can affect, not only by the one it is filed under."""
    import importlib
    import os
    if os.environ.get("SIGVERIF_NO_INHERIT"):
        # developer switch for regression tools that run all 20 checks on one tree anyway: every rule then runs once instead of many times
        run.extra["inherited_checks"] = "disabled by SIGVERIF_NO_INHERIT"
        return
    seen = _LAST_SEEN.get(id(M), set())
    ran = []
    for q, cores, marker in PROVIDERS:
        if q == pid or marker in run.rules:
            continue
        hit = any((c.endswith(".") and any(s_.startswith(c) for s_ in seen)) or c in seen for c in cores)
        if not hit:
            continue
        mod = importlib.import_module("sigverif.rules.%s" % q.lower())
        mod.check(run, M, tier)
        ran.append(q)
    run.extra["inherited_checks"] = ran


def inplace_targets(run, M):
    """the helpers that update an argument in place (copyto, axpy, xpay, the ufunc out= spellings) write into the argument itself: a write into
    `x.ravel()`, `x.reshape(-1)`, `x.flatten()` or `np.ascontiguousarray(x)` reaches x only if that expression happens to be a view (C-contiguous
    x) -- for a strided or Fortran-ordered array it is a copy and the update is silently lost"""
    seen = _LAST_SEEN.get(id(M), set())
    run.rule("SW", "in-place writes of the reached code target an array itself or a basic-index view of it, never a ravel()/reshape()/flatten() of it "
                   "(a copy for non-contiguous arrays)")
    n = 0
    MAYBE_COPY = ("ravel", "reshape", "flatten", "ascontiguousarray", "asfortranarray", "astype", "squeeze_")
    for q in sorted(seen):
        f = M.funcs.get(q)
        if f is None:
            continue
        for c in ast.walk(f.node):
            tgt = None
            if isinstance(c, ast.Call):
                nm = ast.unparse(c.func).split(".")[-1]
                if nm == "copyto" and c.args:
                    tgt = c.args[0]
                for k in c.keywords:
                    if k.arg == "out":
                        tgt = k.value
            elif isinstance(c, ast.AugAssign):
                tgt = c.target if not isinstance(c.target, ast.Name) else None
            elif isinstance(c, ast.Assign) and len(c.targets) == 1 and isinstance(c.targets[0], ast.Subscript):
                tgt = c.targets[0].value
            if tgt is None:
                continue
            while isinstance(tgt, ast.Subscript):
                tgt = tgt.value
            if isinstance(tgt, ast.Call) and isinstance(tgt.func, ast.Attribute) and tgt.func.attr in MAYBE_COPY:
                # a contiguous slice of a buffer this very function has just allocated (empty / zeros) is C-contiguous: reshaping it gives a view
                root = tgt.func.value
                only_basic = True
                while isinstance(root, ast.Subscript):
                    if not isinstance(root.slice, ast.Slice) or root.slice.step is not None:
                        only_basic = False
                    root = root.value
                fresh = isinstance(root, ast.Name) and only_basic and tgt.func.attr == "reshape" and any(
                    isinstance(a_, ast.Assign) and len(a_.targets) == 1 and isinstance(a_.targets[0], ast.Name) and a_.targets[0].id == root.id
                    and isinstance(a_.value, ast.Call) and ast.unparse(a_.value.func).split(".")[-1] in ("empty", "zeros", "ones")
                    for a_ in ast.walk(f.node))
                if fresh:
                    continue
                n += 1
                run.bad("SW", q, f.loc(c), "%s writes in place into `%s`: for a strided or Fortran-ordered array that expression is a copy, so the update never reaches "
                        "`%s` (in-place semantics hold only for C-contiguous arrays)" % (q, ast.unparse(tgt)[:80], ast.unparse(tgt.func.value)[:40]), stmt="SW:%s:%d" % (q, c.lineno))
    run.count("inplace_targets_flagged", n)


def reexports(run, M, files):
    """the public names of the anchored modules reach the user through package __init__ files (`from sigpy.mri.samp import *`): the name a user calls must
    be bound to the anchored function -- not to a wrapper defined in the __init__ and not to a same-named function of another star-imported module"""
    run.rule("SR", "every public function of this property's anchor modules is re-exported unshadowed: no package __init__ redefines the name and no other "
                   "star-imported sibling module exports the same name")
    anchor_mods = [m for m in M.mods.values() if m.path in set(files)]
    n = 0
    for pkg in [m for m in M.mods.values() if m.is_pkg]:
        stars = pkg.imports.get("*", [])
        if not stars:
            continue
        own = {}
        for node in pkg.tree.body:
            if isinstance(node, (ast.FunctionDef, ast.ClassDef)):
                own[node.name] = node
            elif isinstance(node, ast.Assign):
                for t in node.targets:
                    if isinstance(t, ast.Name) and t.id != "__all__":
                        own[t.id] = node
        for am in anchor_mods:
            if am.name not in stars:
                continue
            public = [x for x in (am.all or []) if (am.name + "." + x) in M.funcs or (am.name + "." + x) in M.classes]
            for name in public:
                n += 1
                others = [s_ for s_ in stars if s_ != am.name and s_ in M.mods and name in (M.mods[s_].all or [])
                          and ((s_ + "." + name) in M.funcs or (s_ + "." + name) in M.classes)]
                # a later star import wins; an earlier one is overwritten by ours
                later = [s_ for s_ in others if stars.index(s_) > stars.index(am.name)]
                shadow = name in own
                run.check(not later and not shadow, "SR", "%s.%s via %s" % (am.name, name, pkg.name), pkg.path, "re-exported unshadowed",
                          "the public name `%s.%s` is not the anchored function %s.%s: %s" % (
                              pkg.name, name, am.name, name,
                              ("the package __init__ defines its own `%s`" % name) if shadow else
                              ("module %s, star-imported later, exports a different `%s`" % (later[0] if later else "?", name))), stmt="SR:%s:%s" % (pkg.name, name))
    run.count("reexported_names", n)


def pinned_defaults(run, M):
    """default argument values are documented behaviour: a caller that omits the argument gets them.  For every reached function / constructor
    that existed when the rules were written, each default it had is still the same expression (new parameters may be added)."""
    import os
    seen = _LAST_SEEN.get(id(M), set())
    run.rule("SG", "default argument values of the functions and constructors this property's code reaches are the documented ones (sigverif/known_sigs.txt, pinned tree)")
    path = os.path.join(os.path.dirname(os.path.dirname(os.path.abspath(__file__))), "known_sigs.txt")
    pinned = {}
    try:
        for ln in open(path):
            if ln.strip() and not ln.startswith("#"):
                r = ln.rstrip("\n").split("|")
                if len(r) >= 5:
                    pinned[r[0]] = dict(x.split("=", 1) for x in r[4].split(";;") if "=" in x)
    except OSError:
        return
    n = 0
    for q in sorted(seen):
        f = M.funcs.get(q)
        want = pinned.get(q)
        if f is None or not want:
            continue
        got = {k: " ".join(ast.unparse(v).split()).replace("|", "\\x7c") for k, v in f.defaults.items()}
        diff = {k: (v, got.get(k)) for k, v in want.items() if k in f.params and got.get(k) != v}
        n += 1
        run.check(not diff, "SG", q + " defaults", f.loc(), "defaults unchanged",
                  "%s: default value(s) changed: %s -- every caller that leaves the argument out (this property's code reaches the function) now runs with a different value" % (
                      q, ", ".join("%s: documented %s, now %s" % (k, a, b if b is not None else "no default") for k, (a, b) in sorted(diff.items()))), stmt="SG:" + q)
    run.count("functions_with_pinned_defaults", n)
