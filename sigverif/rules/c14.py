"""C14 -- LinearLeastSquares routes A, y, lamda, z, proxg, G into the solver of the documented objective
        0.5 ||A x - y||^2 + g(G x) + lamda/2 ||x - z||^2

L1 solver selection / rejections; every set-up path assigns self.alg built on self.x; _output returns self.x
L2 per solver set-up method and per path, the constructed algorithm receives the documented system:
   CG:   (A^H A + lamda I) x = A^H y + lamda z
   GM:   grad = A^H A x - A^H y + lamda (x - z), default step 1 / MaxEig(A^H A + lamda I)
   PDHG: primal prox / dual prox / stacked operator / strong-convexity constants of the documented saddle problem
   ADMM: x-update CG on A^H A + (lamda + rho) I  or  A^H A + lamda I + rho G^H G, rhs A^H y + rho G^H (v - u) + lamda z,
         v-update prox_{1/rho}(G x + u), constraint (G, -I, 0)
Not decided: optimality-gap numbers (depends on iterations and conditioning).
"""
import ast

from .. import terms as T
from ..linopdesc import LV, LinAlg, _show, _t, val_eq, havoc_loop
from ..model import AnchorMissing, Unrecognised, is_self_attr, unparse
from ..vn import FALSE, NONE, TRUE, VN, Closure, State, cond_text

LLS = "sigpy.app.LinearLeastSquares"
REAL = {"self.lamda", "self.rho", "self.tau", "self.sigma", "self.alpha", "self.max_iter", "self.tol", "self.max_cg_iter",
        "self.max_power_iter"}

REF_CG = """
AHA = self.A.N
AHy = self.A.H(self.y)
if self.lamda != 0:
    AHA = AHA + self.lamda * linop.Identity(self.x.shape)
    if self.z is not None:
        AHy = AHy + self.lamda * self.z
self.alg = ConjugateGradient(AHA, AHy, self.x, P=self.P, max_iter=self.max_iter, tol=self.tol)
"""

REF_GM = """
AHy = self.A.H(self.y)
def gradf(x):
    g = self.A.N(x) - AHy
    if self.lamda != 0:
        if self.z is None:
            g = g + self.lamda * x
        else:
            g = g + self.lamda * (x - self.z)
    return g
if self.alpha is None:
    AHA = self.A.N
    if self.lamda != 0:
        AHA = AHA + self.lamda * linop.Identity(self.x.shape)
    max_eig = MaxEig(AHA, dtype=self.x.dtype, device=self.x_device, max_iter=self.max_power_iter, show_pbar=self.show_pbar).run()
    if max_eig == 0:
        self.alpha = 1
    else:
        self.alpha = 1 / max_eig
self.alg = GradientMethod(gradf, self.x, self.alpha, proxg=self.proxg, max_iter=self.max_iter, accelerate=self.accelerate, tol=self.tol)
"""

REF_PDHG = """
A = self.A
if self.lamda > 0:
    gamma_primal = self.lamda
else:
    gamma_primal = 0
if self.G is None:
    if self.lamda > 0:
        proxg = prox.L2Reg(self.x.shape, self.lamda, y=self.z, proxh=self.proxg)
    elif self.proxg is None:
        proxg = prox.NoOp(self.x.shape)
    else:
        proxg = self.proxg
    proxfc = prox.L2Reg(self.y.shape, 1, y=-self.y)
    gamma_dual = 1
else:
    A = linop.Vstack([A, self.G])
    if self.proxg is None:
        dual_g = prox.Conj(prox.NoOp(self.G.oshape))
    else:
        dual_g = prox.Conj(self.proxg)
    proxfc = prox.Stack([prox.L2Reg(self.y.shape, 1, y=-self.y), dual_g])
    if self.lamda > 0:
        proxg = prox.L2Reg(self.x.shape, self.lamda, y=self.z)
    else:
        proxg = prox.NoOp(self.x.shape)
    gamma_dual = 0
if self.tau is None:
    if self.sigma is None:
        self.sigma = 1
    S = linop.Multiply(A.oshape, self.sigma)
    self.tau = 1 / MaxEig(A.H * S * A, dtype=self.x.dtype, device=self.x_device, max_iter=self.max_power_iter, show_pbar=self.show_pbar).run()
elif self.sigma is None:
    Tm = linop.Multiply(A.ishape, self.tau)
    self.sigma = 1 / MaxEig(A * Tm * A.H, dtype=self.x.dtype, device=self.x_device, max_iter=self.max_power_iter, show_pbar=self.show_pbar).run()
u = self.y_device.xp.zeros(A.oshape, dtype=self.y.dtype)
self.alg = PrimalDualHybridGradient(proxfc, proxg, A, A.H, self.x, u, self.tau, self.sigma, gamma_primal=gamma_primal,
                                    gamma_dual=gamma_dual, max_iter=self.max_iter, tol=self.tol)
"""

REF_ADMM_X = """
AHy = self.A.H * self.y
if self.G is None:
    AHy = AHy + self.rho * (v - u)
else:
    AHy = AHy + self.rho * self.G.H(v - u)
if self.z is not None:
    AHy = AHy + self.lamda * self.z
AHA = self.A.N
Id = linop.Identity(self.x.shape)
if self.G is None:
    AHA = AHA + (self.lamda + self.rho) * Id
else:
    if self.lamda > 0:
        AHA = AHA + self.lamda * Id
    AHA = AHA + self.rho * self.G.H * self.G
RESULT = ConjugateGradient(AHA, AHy, self.x, P=self.P, max_iter=self.max_cg_iter)
"""

REF_ADMM_V = """
if self.G is None:
    v = self.x + u
else:
    v = self.G(self.x) + u
if self.proxg is not None:
    v = self.proxg(1 / self.rho, v)
"""

REF_GET_ALG = """
if self.solver is None:
    if self.proxg is None:
        self.solver = "ConjugateGradient"
    elif self.G is None:
        self.solver = "GradientMethod"
    else:
        self.solver = "PrimalDualHybridGradient"
if self.solver == "ConjugateGradient":
    if self.proxg is not None:
        raise ValueError("x")
    self._get_ConjugateGradient()
elif self.solver == "GradientMethod":
    if self.G is not None:
        raise ValueError("x")
    self._get_GradientMethod()
elif self.solver == "PrimalDualHybridGradient":
    self._get_PrimalDualHybridGradient()
elif self.solver == "ADMM":
    self._get_ADMM()
else:
    raise ValueError("x")
"""


def kwargs_of(term, prefix="new:"):
    a = term.single_atom() if isinstance(term, T.Poly) else None
    if a is None or a[0] != "app" or not a[1].startswith(prefix):
        return None, None
    out = {}
    for x in a[2]:
        v = T.dec(x)
        va = v.single_atom() if isinstance(v, T.Poly) else None
        if va is None or va[0] != "app" or not va[1].startswith("kw:"):
            return a[1], None
        out[va[1][3:]] = T.dec(va[2][0])
    return a[1], out


_INHERITED = set()


def _inherited_solvers(run, M, tier):
    """C14's anchors include sigpy/alg.py: "whatever the solver" holds only if each solver LinearLeastSquares routes to performs its documented
    recursion with the arguments it is handed (the preconditioned CG step, the proximal-gradient and primal-dual updates), so the update rules of
    C12 and C13 are evaluated here as well"""
    if id(run) in _INHERITED:
        return
    _INHERITED.add(id(run))
    from . import c12, c13
    c12.check(run, M, tier)
    c13.check(run, M, tier)


def _l6(run, M):
    """the default step sizes are 1/MaxEig(..): the power iteration behind MaxEig finds the top eigenvalue only from a start vector with a
    component in the top eigenspace -- a random draw has one with probability 1, a fixed vector (ones, zeros, a basis vector) is an exact
    eigenvector of a lower eigenvalue for whole families of operators (constants for finite differences, ...)"""
    run.rule("L6", "MaxEig starts its power iteration from a random vector (util.randn over the operator's input shape), handed to PowerMethod as the iterate")
    f = M.func("sigpy.app.MaxEig.__init__")
    seen = []

    def hook(vn, call, st):
        tgt = M.resolve_call(f, call)
        if tgt[0] == "class" and tgt[1].qual == "sigpy.alg.PowerMethod":
            b = M.bind(call, M.method(tgt[1], "__init__"))
            if "x" in b and not isinstance(b["x"], (list, dict)):
                seen.append((call, vn.ev(b["x"], st), vn.ev(b["A"], st) if "A" in b and not isinstance(b["A"], (list, dict)) else None))
            return T.sym("<PowerMethod>", real=True)
        return None
    outs = VN(M, f, call_hook=hook).run(f.body, State({p: T.sym(p) for p in f.params}))
    ok = bool(seen)
    why = "MaxEig.__init__ never builds a PowerMethod"
    for call, xv, av in seen:
        t = xv if isinstance(xv, T.Poly) else None
        at = t.single_atom() if t is not None else None
        shown = T.show(t, 200) if t is not None else repr(xv)[:100]
        if at is None or at[0] != "app" or at[1] != "fn:sigpy.util.randn" or "attr:ishape(A)" not in shown:
            ok = False
            why = "MaxEig hands PowerMethod the start vector %s; expected util.randn(A.ishape, ...): from a fixed start vector the iteration can sit on an eigenvector of " \
                  "a lower eigenvalue, and every default step size 1/MaxEig(..) is then too large" % shown
    run.check(ok, "L6", "MaxEig start vector", f.loc(), "random start vector over A.ishape", why, stmt="L6")


def check(run, M, tier):
    run.rule("L1", "solver selection and rejections of _get_alg; every set-up assigns self.alg built on self.x; _output returns self.x")
    run.rule("L2-CG", "CG receives A^H A + lamda I and A^H y + lamda z")
    run.rule("L2-GM", "GradientMethod receives grad f(x) = A^H A x - A^H y + lamda (x - z), proxg, and the default step 1 / MaxEig(A^H A + lamda I)")
    run.rule("L3-PDHG", "PDHG receives the primal prox carrying lamda and z on x, the dual prox of the data term (stacked with Conj(proxg) on G x when G is given), "
                        "Vstack([A, G]) and its adjoint, gamma_primal = lamda exactly when the primal prox is strongly convex, default steps from MaxEig(A^H S A) / MaxEig(A T A^H)")
    run.rule("L2-ADMM", "ADMM x-update solves (A^H A + lamda I + rho G^H G) x = A^H y + rho G^H (v - u) + lamda z, v-update is prox_{1/rho}(G x + u), constraint operators (G, -I, 0)")
    run.rule("L5", "the functions LinearLeastSquares hands to its algorithms (gradf, minL_x, ...) never update in place what an operator returned, nor their own argument: "
                   "A.N / A.H may return the iterate itself (Identity normal operator of FFT, Reshape, ...)")
    from ..common import check_operator_results_not_updated
    from ..effects import Effects
    _eff = Effects(M)
    closures = [f for q, f in sorted(M.funcs.items()) if f.parent is not None and q.startswith(LLS + ".")]
    run.floor("L5", 3, len(closures), "closures defined by LinearLeastSquares set-up methods")
    check_operator_results_not_updated(run, _eff, "L5", closures, "the solver's iterate x (the gradient / sub-problem is then evaluated at a corrupted point)")
    for f_ in closures:
        sm_ = _eff.of(f_.qual)
        for p_ in sorted(sm_.mut):
            for node_, why_ in sm_.detail.get(("P", p_), [])[:1]:
                if ("O",) and any(node_ is n2 for n2, _ in sm_.opaque_mut):
                    continue
                run.bad("L5", f_.qual, f_.loc(node_), "%s modifies its argument `%s` in place (%s): the algorithm's iterate is overwritten" % (f_.qual, p_, why_), stmt=node_)
    _l6(run, M)
    _inherited_solvers(run, M, tier)
    alg = LinAlg(M)
    cls = M.cls(LLS)
    methods = {}
    for name in ("_get_alg", "_get_ConjugateGradient", "_get_GradientMethod", "_get_PrimalDualHybridGradient", "_get_ADMM", "_output", "__init__"):
        f = M.method(cls, name, inherit=False)
        if f is None:
            raise AnchorMissing("%s.%s" % (LLS, name))
        methods[name] = f

    # ------------------------------------------------------------------ L1
    f = methods["_get_alg"]

    def hook(vn, call, st):
        if isinstance(call.func, ast.Attribute) and is_self_attr(call.func) and call.func.attr.startswith("_get_"):
            st.events.append(("setup", call.func.attr))
            return NONE
        return None

    def _status(o):
        # a procedure that ends with a bare `return` and one that falls off its end finish the same way
        return "live" if (o.status == "return" and (o.ret is None or o.ret == NONE)) else o.status

    def sig(outs):
        return sorted((tuple(sorted(repr(c.key()) for c in o.conds)), _status(o), tuple(e[1] for e in o.events if e[0] == "setup")) for o in outs)
    code = VN(M, f, call_hook=hook).run(f.body, State())
    ref = VN(M, f, call_hook=hook).run(ast.parse(REF_GET_ALG).body, State())
    run.count("paths", len(code))
    if sig(code) == sig(ref):
        run.ok("L1", "LinearLeastSquares._get_alg", "%d paths: documented default solver, one set-up call per accepted combination, "
               "CG+proxg / GM+G / unknown solver rejected" % len(code), f.loc())
    else:
        cs, rs = sig(code), sig(ref)
        for item in cs:
            if item not in rs:
                conds = [o for o in code if (tuple(sorted(repr(c.key()) for c in o.conds)), _status(o), tuple(e[1] for e in o.events if e[0] == "setup")) == item][0]
                run.bad("L1", "LinearLeastSquares._get_alg", f.loc(),
                        "under [%s] _get_alg %s (calls %s); the documented selection has no such case (CG rejects proxg, GradientMethod rejects G, unknown solvers are rejected)"
                        % (cond_text(conds.conds), "raises" if item[1] == "raise" else "continues", list(item[2])), stmt="L1:" + cond_text(conds.conds))
        for item in rs:
            if item not in cs:
                conds = [o for o in ref if (tuple(sorted(repr(c.key()) for c in o.conds)), o.status, tuple(e[1] for e in o.events if e[0] == "setup")) == item][0]
                run.bad("L1", "LinearLeastSquares._get_alg", f.loc(),
                        "the documented case [%s] -> %s %s is missing from _get_alg" % (cond_text(conds.conds), item[1], list(item[2])), stmt="L1:missing:" + cond_text(conds.conds))
    out = methods["_output"]
    src = unparse(out.body[-1]).replace(" ", "")
    run.check(src == "returnself.x", "L1", "LinearLeastSquares._output", out.loc(), "_output returns self.x", "_output is `%s`" % unparse(out.body[-1]), stmt="L1:output")

    # ------------------------------------------------------------------ set-up methods
    A = alg.opaque("A")
    G = alg.opaque("G")

    def run_body(func, stmts, g, extra_env=None):
        env = {"self.A": A, "self.G": (NONE if g is None else G)}
        env.update(extra_env or {})
        vn = alg.vn(func, real=REAL, loop_hook=havoc_loop)
        return vn, [o for o in vn.run(stmts, State(env)) if o.status != "raise"]

    def match(code, ref):
        pairs = []
        for o in code:
            cs = frozenset(c.key() for c in o.conds)
            m = [r for r in ref if frozenset(c.key() for c in r.conds) <= cs]
            pairs.append((o, max(m, key=lambda r: len(r.conds)) if m else None))
        return pairs

    def cmp_kw(rule, label, func, o, got, want, keys):
        ok = True
        for k in keys:
            a, b = got.get(k), want.get(k)
            if a is None or b is None or T.enc(_t(a)) != T.enc(_t(b)):
                if isinstance(a, T.Poly) and isinstance(b, T.Poly) and T.eq(a, b):
                    continue
                ok = False
                run.bad(rule, label, func.loc(), "%s under [%s]: the algorithm receives %s = %s ; the documented problem requires %s"
                        % (func.name, cond_text(o.conds), k, _show_long(a), _show_long(b)), stmt="%s:%s:%s" % (rule, k, cond_text(o.conds)))
        return ok

    # ---- CG
    f = methods["_get_ConjugateGradient"]
    n_paths = 0
    for g in (None,):
        _, code = run_body(f, f.body, g)
        _, ref = run_body(f, ast.parse(REF_CG).body, g)
        for o, r in match(code, ref):
            n_paths += 1
            _, got = kwargs_of(o.env.get("self.alg"))
            _, want = kwargs_of(r.env.get("self.alg")) if r is not None else (None, None)
            if got is None or want is None:
                run.bad("L2-CG", "_get_ConjugateGradient", f.loc(), "under [%s] self.alg is %s" % (cond_text(o.conds), _show(o.env.get("self.alg"))), stmt="L2-CG:alg:" + cond_text(o.conds))
                continue
            if cmp_kw("L2-CG", "_get_ConjugateGradient", f, o, got, want, ["A", "b", "x", "P", "max_iter", "tol"]):
                run.ok("L2-CG", "_get_ConjugateGradient[%s]" % cond_text(o.conds), "system %s ; rhs %s" % (_show(got["A"]), _show(got["b"])), f.loc())
    run.floor("L2-CG", 3, n_paths, "paths of _get_ConjugateGradient")

    # ---- GM
    f = methods["_get_GradientMethod"]
    n_paths = 0
    _, code = run_body(f, f.body, None)
    _, ref = run_body(f, ast.parse(REF_GM).body, None)
    for o, r in match(code, ref):
        n_paths += 1
        _, got = kwargs_of(o.env.get("self.alg"))
        _, want = kwargs_of(r.env.get("self.alg")) if r is not None else (None, None)
        if got is None or want is None:
            run.bad("L2-GM", "_get_GradientMethod", f.loc(), "under [%s] self.alg is %s" % (cond_text(o.conds), _show(o.env.get("self.alg"))), stmt="L2-GM:alg:" + cond_text(o.conds))
            continue
        if cmp_kw("L2-GM", "_get_GradientMethod", f, o, got, want, ["gradf", "x", "alpha", "proxg", "accelerate", "max_iter", "tol"]):
            run.ok("L2-GM", "_get_GradientMethod[%s]" % cond_text(o.conds), "gradient, step and prox as documented", f.loc())
    run.floor("L2-GM", 3, n_paths, "paths of _get_GradientMethod")

    # ---- PDHG
    f = methods["_get_PrimalDualHybridGradient"]
    n_paths = 0
    for g in (None, G):
        _, code = run_body(f, f.body, g)
        _, ref = run_body(f, ast.parse(REF_PDHG).body, g)
        for o, r in match(code, ref):
            n_paths += 1
            _, got = kwargs_of(o.env.get("self.alg"))
            _, want = kwargs_of(r.env.get("self.alg")) if r is not None else (None, None)
            tag = "G given" if g is not None else "G None"
            if got is None or want is None:
                run.bad("L3-PDHG", "_get_PrimalDualHybridGradient", f.loc(), "(%s) under [%s] self.alg is %s" % (tag, cond_text(o.conds), _show(o.env.get("self.alg"))),
                        stmt="L3:alg:%s:%s" % (tag, cond_text(o.conds)))
                continue
            if cmp_kw("L3-PDHG", "_get_PrimalDualHybridGradient (%s)" % tag, f, o, got, want,
                      ["proxfc", "proxg", "A", "AH", "x", "u", "tau", "sigma", "gamma_primal", "gamma_dual", "max_iter", "tol"]):
                run.ok("L3-PDHG", "_get_PrimalDualHybridGradient (%s)[%s]" % (tag, cond_text(o.conds)[:90]),
                       "primal prox %s ; dual prox %s ; gamma (%s, %s)" % (_show(got["proxg"]), _show(got["proxfc"]), _show(got["gamma_primal"]), _show(got["gamma_dual"])), f.loc())
    run.floor("L3-PDHG", 12, n_paths, "paths of _get_PrimalDualHybridGradient over {G None, G given}")

    # ---- ADMM
    f = methods["_get_ADMM"]
    n_paths = 0
    for g in (None, G):
        tag = "G given" if g is not None else "G None"
        vn, code = run_body(f, f.body, g)
        for o in code:
            n_paths += 1
            _, got = kwargs_of(o.env.get("self.alg"))
            if got is None:
                run.bad("L2-ADMM", "_get_ADMM", f.loc(), "(%s) self.alg is %s" % (tag, _show(o.env.get("self.alg"))), stmt="L2-ADMM:alg:" + tag)
                continue
            # constraint operators
            Aop, Bop, cc = got.get("A"), got.get("B"), got.get("c")
            Iv = alg.make("sigpy.linop.Identity", {"shape": T.app("attr:shape", o.env["v"], real=True)})
            wantA = G.as_term() if g is not None else alg.make("sigpy.linop.Identity", {"shape": T.app("attr:shape", T.sym("self.x"), real=True)}).as_term()
            okc = Aop is not None and T.enc(_t(Aop)) == T.enc(wantA) and Bop is not None and T.enc(_t(Bop)) == T.enc(alg.neg(Iv).as_term()) and cc == T.const(0)
            run.check(okc, "L2-ADMM", "_get_ADMM (%s) constraint" % tag, f.loc(), "constraint G x - v = 0 (A=%s, B=-I, c=0)" % ("G" if g is not None else "I"),
                      "ADMM is built with constraint operators A=%s, B=%s, c=%s; expected (%s, -I, 0)" % (_show(Aop), _show(Bop), _show(cc), "G" if g is not None else "I"),
                      stmt="L2-ADMM:constraint:" + tag)
            okx = got.get("x") == T.sym("self.x") and T.enc(_t(got.get("z"))) == T.enc(_t(o.env["v"])) and T.enc(_t(got.get("u"))) == T.enc(_t(o.env["u"]))
            run.check(okx, "L2-ADMM", "_get_ADMM (%s) variables" % tag, f.loc(), "ADMM iterates on (self.x, v, u)",
                      "ADMM receives x=%s z=%s u=%s; expected self.x and the split variables v, u" % (_show(got.get("x")), _show(got.get("z")), _show(got.get("u"))),
                      stmt="L2-ADMM:vars:" + tag)
            # closures, evaluated with v and u as opaque state
            cx, cv = o.env.get("minL_x"), o.env.get("minL_v")
            if not isinstance(cx, Closure) or not isinstance(cv, Closure):
                raise Unrecognised("_get_ADMM: minL_x / minL_v are not local functions", f.node)
            if T.enc(_t(got.get("minL_x"))) != T.enc(vn._as_term(cx)) or T.enc(_t(got.get("minL_z"))) != T.enc(vn._as_term(cv)):
                run.bad("L2-ADMM", "_get_ADMM (%s) callbacks" % tag, f.loc(), "ADMM does not receive (minL_x, minL_v) in this order", stmt="L2-ADMM:callbacks:" + tag)
            env = dict(o.env)
            env["v"] = T.sym("v")
            env["u"] = T.sym("u")
            vx = alg.vn(f, real=REAL)
            xs = [s for s in vx.run(cx.node.body, State(dict(env), list(o.conds))) if s.status != "raise"]
            rx = [s for s in alg.vn(f, real=REAL).run(ast.parse(REF_ADMM_X).body, State(dict(env), list(o.conds))) if s.status != "raise"]
            for s_, r_ in match(xs, rx):
                cgs = [e for e in s_.events if e[0] == "new" and e[1] == "sigpy.alg.ConjugateGradient"]
                if len(cgs) != 1 or r_ is None:
                    run.bad("L2-ADMM", "_get_ADMM (%s) x-update" % tag, f.loc(), "x-update under [%s] does not build exactly one ConjugateGradient" % cond_text(s_.conds),
                            stmt="L2-ADMM:xcg:%s:%s" % (tag, cond_text(s_.conds)))
                    continue
                gotx = {k: v for k, v in cgs[0][2].items()}
                _, wantx = kwargs_of(r_.env["RESULT"])
                if cmp_kw("L2-ADMM", "_get_ADMM (%s) x-update" % tag, f, s_, gotx, wantx, ["A", "b", "x", "P", "max_iter"]):
                    run.ok("L2-ADMM", "_get_ADMM (%s) x-update[%s]" % (tag, cond_text(s_.conds[len(o.conds):])[:80]), "system %s" % _show(gotx["A"]), f.loc())
                # the CG must actually be run
                ran = any(isinstance(n, ast.Call) and isinstance(n.func, ast.Attribute) and n.func.attr == "run" for n in ast.walk(cx.node))
                run.check(ran, "L2-ADMM", "_get_ADMM (%s) x-update runs" % tag, f.loc(), "the inner CG is run", "the x-update builds the CG but never runs it", stmt="L2-ADMM:run:" + tag)
            vs = [s for s in alg.vn(f, real=REAL).run(cv.node.body, State(dict(env), list(o.conds))) if s.status != "raise"]
            rv = [s for s in alg.vn(f, real=REAL).run(ast.parse(REF_ADMM_V).body, State(dict(env), list(o.conds))) if s.status != "raise"]
            for s_, r_ in match(vs, rv):
                a, b = s_.env.get("v"), (r_.env.get("v") if r_ is not None else None)
                run.check(b is not None and T.enc(_t(a)) == T.enc(_t(b)), "L2-ADMM", "_get_ADMM (%s) v-update[%s]" % (tag, cond_text(s_.conds[len(o.conds):])[:60]), f.loc(),
                          "v <- prox_{1/rho}(G x + u)", "v-update computes %s ; expected %s" % (_show_long(a), _show_long(b)), stmt="L2-ADMM:v:%s:%s" % (tag, cond_text(s_.conds)))
    run.floor("L2-ADMM", 2, n_paths, "paths of _get_ADMM over {G None, G given}")

    # __init__: zero initial x of A.ishape when none given, _get_alg called, alg handed to App
    f = methods["__init__"]
    calls = [c for c in ast.walk(f.node) if isinstance(c, ast.Call)]
    has_get = any(isinstance(c.func, ast.Attribute) and is_self_attr(c.func, "_get_alg") for c in calls)
    sup = [c for c in calls if isinstance(c.func, ast.Attribute) and c.func.attr == "__init__" and isinstance(c.func.value, ast.Call)]
    ok = has_get and len(sup) == 1 and sup[0].args and unparse(sup[0].args[0]) == "self.alg"
    run.check(ok, "L1", "LinearLeastSquares.__init__", f.loc(), "calls _get_alg() and hands self.alg to App", "__init__ does not pass the algorithm built by _get_alg to App.__init__", stmt="L1:init")


def _show_long(v):
    if v is None:
        return "nothing"
    v = _t(v)
    return T.show(v, 500) if isinstance(v, T.Poly) else repr(v)[:500]
