"""C11 -- proximal operators: shape discipline, Hermitian eigensolver, closed forms.

P1 Prox.__call__ guards every path: _check_shape(input) -> _prox(alpha, input) -> _check_shape(output); one caller of _prox
P2 shape provenance: no thresholding function or _prox returns the ravelled input
P3 an eigen-decomposition recombined with the conjugate transpose as inverse must come from eigh
P4 closed forms: every _prox and thresholding function equals its documented formula (E3 equality)
Not decided: that the documented closed forms are the minimisers (textbook convex analysis).
"""
import ast

from .. import terms as T
from ..common import vn_paths, vn_ref
from ..domains import FLAT, SAME, ShapeProv
from ..model import AnchorMissing, Unrecognised, calls_in, unparse, walk_no_nested
from ..paths import calls_on_path, enumerate_paths
from ..vn import VN, State, cond_text, unroll_loop

PROX = "sigpy.prox.Prox"
THRESH_FUNCS = ["soft_thresh", "hard_thresh", "l1_proj", "l2_proj", "linf_proj", "psd_proj"]

# documented closed forms (docstrings of sigpy/prox.py, sigpy/thresh.py and the cited references)
REF_PROX = {
    "Conj": "return input - alpha * self.prox(1 / alpha, input / alpha)",   # Moreau identity
    "NoOp": "return input",
    "UnitaryTransform": "return self.A.H(self.prox(alpha, self.A(input)))",
    "L2Reg": """
if self.y is not None:
    out = (input + self.lamda * alpha * self.y) / (1 + self.lamda * alpha)
else:
    out = input / (1 + self.lamda * alpha)
if self.proxh is not None:
    return self.proxh(alpha / (1 + self.lamda * alpha), out)
return out
""",
    "L2Proj": "return thresh.l2_proj(self.epsilon, input - self.y, self.axes) + self.y",
    "LInfProj": "return thresh.linf_proj(self.epsilon, input, bias=self.bias)",
    "PsdProj": "return thresh.psd_proj(input)",
    "L1Reg": "return thresh.soft_thresh(self.lamda * alpha, input)",
    "L1Proj": "return thresh.l1_proj(self.epsilon, input)",
    "BoxConstraint": "return xp.clip(input, self.lower, self.upper)",
    "Stack": """
if np.isscalar(alpha):
    alphas = [alpha] * self.nops
else:
    alphas = util.split(alpha, self.shapes)
inputs = util.split(input, self.shapes)
return util.vec([prox(a, x) for prox, x, a in zip(self.proxs, inputs, alphas)])
""",
}
REF_THRESH = {
    "soft_thresh": "return _soft_thresh(lamda, input)",
    "hard_thresh": "return _hard_thresh(lamda, input)",
    "_soft_thresh": """
abs_input = abs(input)
if abs_input == 0:
    return 0
m = abs_input - lamda
return ((abs(m) + m) / 2) * (input / abs_input)
""",
    "_hard_thresh": """
if abs(input) > lamda:
    return input
else:
    return 0
""",
    "l1_proj": """
flat = input.ravel()
if xp.linalg.norm(flat, 1) < eps:
    return input
else:
    size = len(flat)
    s = xp.sort(xp.abs(flat))[::-1]
    st = (xp.cumsum(s) - eps) / (xp.arange(size) + 1)
    idx = xp.flatnonzero((s - st) > 0).max()
    return soft_thresh(st[idx], input)
""",
    "l2_proj": """
axes = util._normalize_axes(axes, input.ndim)
norm = xp.sum(xp.abs(input) ** 2, axis=axes, keepdims=True) ** 0.5
mask = norm < eps
return mask * input + (1 - mask) * (eps * input / (norm + mask))
""",
    "linf_proj": """
if bias is not None:
    d = input - bias
    return d - soft_thresh(eps, d) + bias
else:
    return input - soft_thresh(eps, input)
""",
    "psd_proj": """
w, v = xp.linalg.eigh((input + xp.conj(input).T) / 2)
w[w < 0] = 0
return (v * w) @ v.conjugate().T
""",
}
REAL = {"alpha", "self.lamda", "lamda", "eps", "self.epsilon"}


def check(run, M, tier):
    run.rule("P1", "every returning path of Prox.__call__ runs _check_shape(input), output = _prox(alpha, input), _check_shape(output); _prox has no other caller")
    run.rule("P2", "shape provenance {Same, Flat, ?}: no return of a thresholding function or _prox is the ravelled input")
    run.rule("P3", "eigenvectors recombined with their conjugate transpose come from a Hermitian eigensolver (eigh)")
    run.rule("P4", "each _prox / thresholding function equals its documented closed form as canonical terms on every path")
    base = M.cls(PROX)
    proxes = M.subclasses(PROX)
    run.floor("P2", 11, len(proxes), "Prox subclasses")
    _p1(run, M, base)
    _p2(run, M, proxes)
    _p3(run, M)
    _p4(run, M, proxes)
    _p5(run, M, proxes)


def _p5(run, M, proxes):
    """P5: what the constructor is given is what _prox uses -- every parameter stored under its own name is stored unchanged (`lower or -inf` turns
    the valid bound 0 into no bound); P6: evaluating a prox never writes its arguments (step size alpha, input) nor the stored parameters: the
    same P(alpha, y) must give the same minimiser the next time"""
    from ..effects import Effects
    run.rule("P5", "Prox constructors store the parameters they keep under their own name unchanged")
    run.rule("P6", "no _prox / thresholding function writes to its arguments (alpha, input, lamda, eps, bias) or to the stored parameters")
    eff = Effects(M)
    n = 0
    for c in proxes:
        init = M.method(c, "__init__", inherit=False)
        if init is not None:
            from ..linopdesc import havoc_loop
            try:
                outs = [o for o in VN(M, init, real=REAL, loop_hook=havoc_loop).run(init.body, State({p: T.sym(p) for p in init.params if p != "self"})) if o.status != "raise"]
            except Unrecognised:
                outs = []
            for o in outs:
                for p in init.params:
                    k = "self." + p
                    if p == "self" or k not in o.env:
                        continue
                    n += 1
                    v = o.env[k]
                    same = isinstance(v, T.Poly) and v == T.sym(p)
                    run.check(same, "P5", "%s.__init__ self.%s[%s]" % (c.name, p, cond_text(o.conds)[:40]), init.loc(), "stored as given",
                              "%s.__init__ stores self.%s = %s under [%s], not the `%s` it was given: the operator then evaluates the prox of a different function "
                              "(e.g. a bound or weight that is 0 / False is replaced by a default)" % (
                                  c.name, p, T.show(v, 120) if isinstance(v, T.Poly) else repr(v)[:80], cond_text(o.conds)[:80], p), stmt="P5:%s:%s" % (c.name, p))
        f = M.method(c, "_prox", inherit=False)
        if f is not None:
            sm = eff.of(f.qual)
            bad = sorted(p for p in sm.mut if p != "self") + sorted("self." + a for a in sm.attr_mut)
            run.check(not bad, "P6", c.name + "._prox", f.loc(), "arguments and stored parameters are only read",
                      "%s._prox writes to %s: %s -- an array-valued step size (PDHG passes tau / sigma arrays, Stack passes views of one) or the input is changed for the "
                      "caller, so the next evaluation with the same arguments is no longer the minimiser" % (
                          c.name, ", ".join(bad), "; ".join(w for r_ in sm.detail.values() for _, w in r_[:1])[:200]), stmt="P6:" + c.name)
    for name in sorted(M.mod("sigpy.thresh").funcs if hasattr(M.mod("sigpy.thresh"), "funcs") else []):
        pass
    for q, f in sorted(M.funcs.items()):
        if f.mod.name == "sigpy.thresh" and f.parent is None and f.cls is None:
            sm = eff.of(q)
            run.check(not sm.mut, "P6", q, f.loc(), "arguments are only read", "%s writes to its argument(s) %s" % (q, sorted(sm.mut)), stmt="P6:" + q)
    run.floor("P5", 8, n, "stored constructor parameters")


def _p1(run, M, base):
    f = M.method(base, "__call__", inherit=False)
    if f is None:
        raise AnchorMissing("Prox.__call__")
    rets = [p for p in enumerate_paths(f.body) if p.end == "return"]
    run.floor("P1", 1, len(rets), "returning paths of Prox.__call__")
    for p in rets:
        seq = calls_on_path(p, lambda c: isinstance(c.func, ast.Attribute) and isinstance(c.func.value, ast.Name) and c.func.value.id == "self"
                            and c.func.attr in ("_check_shape", "_prox"))
        names = [c.func.attr for c in seq]
        ok = names == ["_check_shape", "_prox", "_check_shape"]
        detail = ""
        if ok:
            a0 = unparse(seq[0].args[0]) if seq[0].args else ""
            pa = [unparse(a) for a in seq[1].args]
            a2 = unparse(seq[2].args[0]) if seq[2].args else ""
            tgt = None
            for st in p.stmts():
                if isinstance(st, ast.Assign) and st.value is seq[1] and isinstance(st.targets[0], ast.Name):
                    tgt = st.targets[0].id
            retv = unparse(p.end_node.value) if p.end_node.value is not None else ""
            ok = a0 == "input" and pa == ["alpha", "input"] and tgt is not None and a2 == tgt and retv == tgt
            detail = "(_check_shape(%s); %s = _prox(%s); _check_shape(%s); return %s)" % (a0, tgt, ", ".join(pa), a2, retv)
        run.check(ok, "P1", "Prox.__call__ path", f.loc(), "guards around _prox in order " + detail,
                  "a returning path of Prox.__call__ runs %s %s; expected _check_shape(input), output = _prox(alpha, input), _check_shape(output), return output"
                  % (names, detail), stmt="P1:call")
    g = M.method(base, "_check_shape", inherit=False)
    if g is None:
        raise AnchorMissing("Prox._check_shape")
    shape_val = (T.sym("d0", real=True), T.sym("d1", real=True))

    def run_guard(stmts):
        vn = VN(M, g, loop_hook=unroll_loop)
        orig = vn.ev_Attribute

        def ev_attr(e, st):
            if e.attr == "shape" and isinstance(e.value, ast.Name) and e.value.id == "input":
                return shape_val
            return orig(e, st)
        vn.ev_Attribute = ev_attr
        return vn.run(stmts, State({"self.shape": (T.sym("s0", real=True), T.sym("s1", real=True))}))
    ref_src = "for i1, i2 in zip(input.shape, self.shape):\n    if i2 != -1 and i1 != i2:\n        raise ValueError('x')\n"
    # a guard is characterised by the inputs it lets through: the non-raising paths (a raise written as one `if any(..)` or as one raise per
    # dimension lets the same inputs through); every other path must raise
    sig = lambda outs: (sorted(tuple(sorted(repr(c.key()) for c in o.conds)) for o in outs if o.status != "raise"), any(o.status == "raise" for o in outs))
    code = run_guard(g.body)
    run.check(sig(code) == sig(run_guard(ast.parse(ref_src).body)), "P1", "Prox._check_shape", g.loc(),
              "raises exactly when a dimension differs from the advertised shape",
              "_check_shape does not raise exactly on a mismatching dimension: %s" % [(o.status, cond_text(o.conds)) for o in code], stmt="P1:guard")
    sites = []
    for q, fn in M.funcs.items():
        for c in calls_in(fn.node):
            if isinstance(c.func, ast.Attribute) and c.func.attr == "_prox":
                sites.append((fn, c))
    other = [(fn, c) for fn, c in sites if fn.qual != "sigpy.prox.Prox.__call__"]
    run.floor("P1", 1, len(sites), "call sites of _prox")
    for fn, c in other:
        run.bad("P1", fn.qual, fn.loc(c), "%s calls `%s` directly, bypassing the shape guards of Prox.__call__" % (fn.qual, unparse(c)), stmt=c)
    if not other:
        run.ok("P1", "who-may-call _prox", "_prox is called only from Prox.__call__")


def _p2(run, M, proxes):
    summaries = {}
    funcs = [M.func("sigpy.thresh." + n) for n in THRESH_FUNCS]
    for c in proxes:
        f = M.method(c, "_prox", inherit=False)
        if f is not None:
            funcs.append(f)
    n = 0
    for f in funcs:
        sp = ShapeProv(M, f, "input", summaries)
        rets = sp.run()
        if not rets:
            run.error("P2: %s has no return" % f.qual)
        for node, tag in rets:
            n += 1
            if tag == FLAT:
                run.bad("P2", f.qual, f.loc(node), "%s returns the flattened input (`%s`): for an input of rank >= 2 the result no longer has the input's shape"
                        % (f.qual, unparse(node)), stmt=node)
            else:
                run.ok("P2", f.qual, "return `%s` has provenance %s" % (unparse(node)[:60], tag), f.loc(node))
    run.floor("P2", 18, n, "return statements examined")
    # controls
    src = "def ctl_bad(input):\n    x = input.ravel()\n    return x * 2\n\ndef ctl_ok(input):\n    s = input.shape\n    x = input.ravel()\n    return (x * 2).reshape(s)\n"
    import copy
    from ..model import Mod
    M2 = copy.copy(M)
    M2.mods, M2.funcs, M2.classes = dict(M.mods), dict(M.funcs), dict(M.classes)
    tree = ast.parse(src)
    mod = Mod("sigpy._ctl_shape", "<control>", src, tree, tree, 0)
    M2.mods[mod.name] = mod
    M2._index_imports(mod)
    M2._collect(mod, tree, mod.name, None, None)
    tags = {}
    for nm in ("ctl_bad", "ctl_ok"):
        tags[nm] = [t for _, t in ShapeProv(M2, M2.funcs["sigpy._ctl_shape." + nm]).run()]
    run.control("P2", "returns scaled ravel", True, FLAT in tags["ctl_bad"])
    run.control("P2", "ravel then reshape(input.shape)", False, FLAT in tags["ctl_ok"])


def _p3(run, M):
    n = 0
    for mn in ("sigpy.thresh", "sigpy.prox"):
        for q, f in sorted(M.funcs.items()):
            if f.mod.name != mn:
                continue
            eigs = [c for c in calls_in(f.node) if isinstance(c.func, ast.Attribute) and c.func.attr in ("eig", "eigh", "eigvals", "eigvalsh")]
            if not eigs:
                continue
            uses_ct = False
            for nd in ast.walk(f.node):
                if isinstance(nd, ast.Attribute) and nd.attr in ("T", "mT"):
                    inner = unparse(nd.value)
                    if "conj" in inner:
                        uses_ct = True
            for c in eigs:
                n += 1
                if c.func.attr == "eig" and uses_ct:
                    run.bad("P3", f.qual, f.loc(c), "%s recombines the eigenvectors of `%s` with their conjugate transpose, which is their inverse only for the "
                            "orthonormal eigenvectors of a Hermitian solver (eigh); a general eig returns non-orthogonal vectors for repeated eigenvalues"
                            % (f.qual, unparse(c)[:80]), stmt=c)
                else:
                    run.ok("P3", f.qual, "`%s`" % unparse(c)[:70], f.loc(c))
    run.floor("P3", 1, n, "eigen-decomposition calls")


def _p4(run, M, proxes):
    n = 0
    for c in proxes:
        f = M.method(c, "_prox", inherit=False)
        if f is None:
            continue
        if c.name not in REF_PROX:
            raise Unrecognised("no documented closed form for prox class %s" % c.name, f.node)
        n += _cmp(run, M, f, REF_PROX[c.name], "prox." + c.name)
    th = M.mod("sigpy.thresh")
    for name, src in REF_THRESH.items():
        f = M.func("sigpy.thresh." + name)
        n += _cmp(run, M, f, src, "thresh." + name)
    run.floor("P4", 19, n, "closed forms compared")


def _cmp(run, M, f, ref_src, label):
    try:
        _, code = vn_paths(M, f, real=REAL)
    except Unrecognised as e:
        # the rule is "equals the documented closed form": a body that cannot be read as a formula at all (a loop filling a buffer, ...)
        # has not been shown to equal it
        ln = getattr(getattr(e, "node", None), "lineno", None)
        run.bad("P4", label, f.loc(), "%s cannot be read as its documented closed form (%s%s): `%s`" % (
            f.qual, e, " at line %s" % ln if ln else "", " ".join(ref_src.split())[:200]), stmt="P4:%s:form" % label)
        return 1
    _, ref = vn_ref(ref_src.strip(), model=M, func=f, real=REAL)
    code = [o for o in code if o.status == "return"]
    ref = [o for o in ref if o.status == "return"]
    ok_all = True
    for o in code:
        cs = frozenset(c.key() for c in o.conds)
        match = [r for r in ref if frozenset(c.key() for c in r.conds) <= cs]
        if not match:
            ok_all = False
            run.bad("P4", label, f.loc(), "%s: the path under [%s] has no counterpart in the documented closed form" % (f.qual, cond_text(o.conds)),
                    stmt="P4:%s:%s" % (label, cond_text(o.conds)))
            continue
        r = max(match, key=lambda r: len(r.conds))
        a, b = o.ret, r.ret
        same = T.eq(a, b) if isinstance(a, T.Poly) and isinstance(b, T.Poly) else T.enc(a) == T.enc(b)
        if not same:
            ok_all = False
            run.bad("P4", label, f.loc(), "%s: under [%s] returns %s ; the documented closed form is %s"
                    % (f.qual, cond_text(o.conds), T.show(a, 300) if isinstance(a, T.Poly) else repr(a)[:300],
                       T.show(b, 300) if isinstance(b, T.Poly) else repr(b)[:300]), stmt="P4:%s:%s" % (label, cond_text(r.conds)))
    if len(code) < len(ref):
        ok_all = False
        run.bad("P4", label, f.loc(), "%s has %d returning paths, the documented closed form distinguishes %d cases" % (f.qual, len(code), len(ref)),
                stmt="P4:%s:paths" % label)
    if ok_all:
        run.ok("P4", label, "equals the documented closed form on %d path(s)" % len(code), f.loc())
    return 1
