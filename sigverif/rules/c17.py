"""C17 (partial) -- ESPIRiT maps: per-voxel normalisation over the coil axis, phase reference to coil 0, strict eigenvalue crop.

H1 power iteration divides by the value norm_func returns for the same vector (C15/T5) and EspiritCalib passes its per-voxel norm as norm_func
H2 the per-voxel norm is sqrt(sum |x|^2) over axis -2 with keepdims, and axis -2 is the coil axis of the iterate ones(ksp.shape[::-1] + (1,))
H3 _output: maps * conj(m0/|m0|) makes coil 0 equal |m0| (real, non-negative: E3 identity), then maps are multiplied by the strict mask max_eig > crop
H4 the image-domain Gram matrices: sum over kernels of a^H a with a = conj of the centred inverse FFT of the zero-padded kernel, scaled by N / kernel_width^ndim;
   calibration matrix from sliding blocks of the centred calibration region; SVD truncation at thresh * s_max
NOT decided: eigenvalues in [0, 1], agreement with true maps (numerical), calibration-matrix numerics.
"""
import ast

from .. import terms as T
from ..common import compare_with_reference, vn_paths, vn_ref
from ..model import AnchorMissing, unparse
from ..vn import NONE, VN, State, cond_text, iter_once_loop

REF_INIT = """
self.device = sp.Device(device)
self.output_eigenvalue = output_eigenvalue
self.crop = crop
img_ndim = ksp.ndim - 1
num_coils = len(ksp)
calib_shape = [num_coils] + [calib_width] * img_ndim
calib = sp.resize(ksp, calib_shape)
calib = sp.to_device(calib, device)
xp = self.device.xp
mat = sp.array_to_blocks(calib, [kernel_width] * img_ndim, [1] * img_ndim)
mat = mat.reshape([num_coils, -1, kernel_width ** img_ndim])
mat = mat.transpose([1, 0, 2])
mat = mat.reshape([-1, num_coils * kernel_width ** img_ndim])
_, S, VH = xp.linalg.svd(mat, full_matrices=False)
VH = VH[S > thresh * S.max(), :]
num_kernels = len(VH)
kernels = VH.reshape([num_kernels, num_coils] + [kernel_width] * img_ndim)
img_shape = ksp.shape[1:]
AHA = xp.zeros(img_shape[::-1] + (num_coils, num_coils), dtype=ksp.dtype)
for kernel in kernels:
    img_kernel = sp.ifft(sp.resize(kernel, ksp.shape), axes=range(-img_ndim, 0))
    aH = xp.expand_dims(img_kernel.T, axis=-1)
    a = xp.conj(aH.swapaxes(-1, -2))
    AHA = AHA + aH @ a
AHA = AHA * (sp.prod(img_shape) / kernel_width ** img_ndim)
self.mps = xp.ones(ksp.shape[::-1] + (1,), dtype=ksp.dtype)
def forward(x):
    return AHA @ x
def normalize(x):
    return xp.sum(xp.abs(x) ** 2, axis=-2, keepdims=True) ** 0.5
alg = sp.alg.PowerMethod(forward, self.mps, norm_func=normalize, max_iter=max_iter)
super().__init__(alg, show_pbar=show_pbar)
"""

REF_OUTPUT = """
xp = self.device.xp
mps = self.mps.T[0]
mps = mps * xp.conj(mps[0] / xp.abs(mps[0]))
max_eig = self.alg.max_eig.T[0]
mps = mps * (max_eig > self.crop)
if self.output_eigenvalue:
    return mps, max_eig
else:
    return mps
"""
REAL = {"self.crop", "crop", "thresh", "kernel_width", "calib_width", "img_ndim", "num_coils"}


def check(run, M, tier):
    run.rule("H1", "EspiritCalib hands its per-voxel norm to PowerMethod as norm_func together with the Gram-matrix product and self.mps")
    run.rule("H2", "normalize = sqrt(sum |x|^2, axis=-2, keepdims=True); the iterate is ones(ksp.shape[::-1] + (1,)) so axis -2 is the coil axis")
    run.rule("H3", "_output multiplies by conj(m0/|m0|) (coil 0 becomes |m0| by the identity z conj(z/|z|) = |z|) and by the strict mask max_eig > crop")
    run.rule("H4", "Gram matrices, calibration matrix and SVD truncation are built as documented")
    run.rule("H5", "PowerMethod._update (sigpy/alg.py, the iteration whose iterate the maps are) is y = A(x); x <- y / norm_func(y) for the same y")
    from . import c15
    c15.check_power_method(run, M, "H5")
    init = M.func("sigpy.mri.app.EspiritCalib.__init__")
    out = M.func("sigpy.mri.app.EspiritCalib._output")
    def hook(vn, call, st):
        fn = call.func
        if isinstance(fn, ast.Attribute) and fn.attr == "__init__" and isinstance(fn.value, ast.Call) and isinstance(fn.value.func, ast.Name) and fn.value.func.id == "super":
            args_ = [vn._as_term(vn.ev(a, st)) for a in call.args]
            if not args_:   # App.__init__(alg, show_pbar=...) called with keywords
                kws_ = {k.arg: vn._as_term(vn.ev(k.value, st)) for k in call.keywords if k.arg}
                if "alg" in kws_:
                    args_ = [kws_["alg"]]
            st.env["__super_args__"] = tuple(args_)
            return NONE
        return None
    vn, code = vn_paths(M, init, real=REAL, loop_hook=iter_once_loop, call_hook=hook)
    _, ref = vn_ref(REF_INIT, model=M, func=init, real=REAL, loop_hook=iter_once_loop, call_hook=hook)
    code = [o for o in code if o.status != "raise"]
    ref = [o for o in ref if o.status != "raise"]
    if len(code) != 1 or len(ref) != 1:
        run.error("EspiritCalib.__init__ has %d paths (reference %d)" % (len(code), len(ref)))
        return
    c, r = code[0], ref[0]

    # Local names of the constructor never matter: everything is read off the algorithm object handed to App.__init__ (its operator
    # closure contains the Gram matrices, which contain the kernels, which contain the calibration matrix) and off self.* attributes.
    def parts(side):
        sup = side.env.get("__super_args__")
        alg = sup[0] if isinstance(sup, tuple) and sup else None
        d = {"alg": alg, "self.mps": side.env.get("self.mps")}
        for role, kw in (("forward", "A"), ("normalize", "norm_func"), ("iterate", "x"), ("max_iter", "max_iter")):
            d[role] = _kwarg_of(alg, "new:sigpy.alg.PowerMethod", kw)
        for k in ("self.crop", "self.output_eigenvalue", "self.device"):
            d[k] = side.env.get(k)
        return d
    pc, pr = parts(c), parts(r)

    def same(k):
        a, b = pc.get(k), pr.get(k)
        if isinstance(a, T.Poly) and isinstance(b, T.Poly):
            return T.eq(a, b)
        return a is not None and b is not None and T.enc(vn._as_term(a)) == T.enc(vn._as_term(b))

    def show(k, side=None):
        v = (side or pc).get(k)
        return T.show(vn._as_term(v), 500) if v is not None else "nothing"
    run.check(pc["alg"] is not None and same("iterate") and same("max_iter"), "H1",
              "EspiritCalib PowerMethod", init.loc(), "App.__init__ receives PowerMethod(forward, self.mps, norm_func=normalize, max_iter=max_iter)",
              "EspiritCalib hands %s to App.__init__ ; documented %s" % (show("alg"), show("alg", pr)), stmt="H1:alg")
    run.check(same("normalize") and same("self.mps"), "H2", "EspiritCalib normalize / iterate", init.loc(),
              "normalize(x) = sqrt(sum |x|^2, axis=-2, keepdims=True) on an iterate of shape ksp.shape[::-1] + (1,)",
              "per-voxel norm is %s on an iterate %s ; documented %s on %s" % (show("normalize"), show("self.mps"), show("normalize", pr), show("self.mps", pr)), stmt="H2")
    run.check(same("forward"), "H4", "EspiritCalib Gram matrices / calibration matrix", init.loc(),
              "forward(x) = AHA @ x with AHA = (N / kernel_width^ndim) * sum_k a_k^H a_k, a_k from the centred ifft of the padded kernels, kernels = SVD rows with "
              "S > thresh * S.max() of the block matrix of the centred calibration region",
              "the power-iteration operator is %s ; documented %s" % (show("forward"), show("forward", pr)), stmt="H4:AHA")
    for k in ("self.crop", "self.output_eigenvalue", "self.device"):
        run.check(same(k), "H3", "EspiritCalib " + k, init.loc(), "%s stored from the argument" % k, "%s is %s" % (k, show(k)), stmt="H3:attr:" + k)
    # ---- _output
    _, co = vn_paths(M, out, real=REAL)
    _, ro = vn_ref(REF_OUTPUT, model=M, func=out, real=REAL)
    co = [o for o in co if o.status == "return"]
    ro = [o for o in ro if o.status == "return"]
    ok = len(co) == len(ro)
    bad = []
    for o in co:
        cs = frozenset(x.key() for x in o.conds)
        m = [x for x in ro if frozenset(y.key() for y in x.conds) == cs]
        if len(m) != 1 or T.enc(o.ret) != T.enc(m[0].ret):
            ok = False
            bad.append("under [%s] returns %s ; documented %s" % (cond_text(o.conds), T.show(vn._as_term(o.ret), 400), T.show(vn._as_term(m[0].ret), 400) if m else "no such case"))
    run.check(ok, "H3", "EspiritCalib._output", out.loc(), "phase reference to coil 0 then strict crop mask", "EspiritCalib._output deviates: %s" % "; ".join(bad[:1]), stmt="H3:output")
    # the identity behind "first coil real and non-negative"
    z = T.sym("z")
    lhs = T.mul(z, T.conj(T.div(z, T.abs_(z))))
    run.check(T.eq(lhs, T.abs_(z)), "H3", "identity z*conj(z/|z|) = |z|", out.loc(), "E3 proves coil 0 equals |m0| after the phase step", "normal form failed to prove z*conj(z/|z|) = |z|", stmt="H3:identity")


def _kwarg_of(term, fname, kw):
    a = term.single_atom() if isinstance(term, T.Poly) else None
    if a is None or a[0] != "app" or a[1] != fname:
        return None
    for x in a[2]:
        v = T.dec(x)
        va = v.single_atom() if isinstance(v, T.Poly) else None
        if va is not None and va[0] == "app" and va[1] == "kw:" + kw:
            return T.dec(va[2][0])
    return None
