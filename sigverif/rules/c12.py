"""C12 -- conjugate gradient: one `_update` is one step of the textbook (preconditioned) CG recurrence.

Decided statically: the post-state of `_update`, value-numbered per path, equals the reference PCG
step; `__init__` establishes r = b - A x, p = z, rz = Re<r,z>; the caller's x is only updated in
place; the breakdown guard precedes any write; `_done` is max_iter | breakdown | resid <= tol.
Not decided: rounding; the theorem "recurrence => Krylov optimality" (trusted mathematics).
"""
import ast

from .. import terms as T
from ..common import compare_with_reference, loc, vn_paths, vn_ref
from ..effects import Analyzer, Effects
from ..model import Unrecognised, is_self_attr, walk_no_nested, unparse
from ..vn import VN, State

CG = "sigpy.alg.ConjugateGradient"

REF_UPDATE = """
Ap = self.A(self.p)
pAp = xp.real(xp.vdot(self.p, Ap))
if pAp <= 0:
    self.not_positive_definite = True
    return
alpha = self.rzold / pAp
self.x = self.x + alpha * self.p
if self.iter < self.max_iter - 1:
    self.r = self.r - alpha * Ap
    if self.P is not None:
        z = self.P(self.r)
    else:
        z = self.r
    rznew = xp.real(xp.vdot(self.r, z))
    self.p = z + (rznew / self.rzold) * self.p
    self.rzold = rznew
self.resid = self.rzold ** 0.5
"""

REF_INIT = """
self.A = A
self.b = b
self.P = P
self.x = x
self.tol = tol
self.r = b - self.A(self.x)
if self.P is None:
    z = self.r
else:
    z = self.P(self.r)
self.p = z
self.not_positive_definite = False
self.rzold = xp.real(xp.vdot(self.r, z))
self.resid = self.rzold ** 0.5
"""

REF_DONE = """
return self.iter >= self.max_iter or self.not_positive_definite or self.resid <= self.tol
"""

STATE = ["self.x", "self.r", "self.p", "self.rzold", "self.resid", "self.not_positive_definite"]
REAL = {"self.rzold", "self.iter", "self.max_iter", "max_iter", "self.tol", "tol", "self.resid"}


def check(run, M, tier):
    run.rule("K1", "post-state (x, r, p, rzold, resid, breakdown flag) of ConjugateGradient._update equals the reference "
                   "PCG step on every path {breakdown, last iteration, regular} x {P None, P given}")
    run.rule("K2", "__init__ state: r = b - A(x), z = P(r) or r, p = z, rzold = Re<r,z>, resid = rzold**0.5, flag False")
    run.rule("K3", "the caller's x is never rebound outside __init__ (only in-place updates), and __init__ stores the "
                   "caller's array itself; p is a private copy of z when more than one update can follow")
    run.rule("K4", "_done = iter >= max_iter or breakdown flag or resid <= tol")
    run.assume("theorem trusted: the PCG recurrence yields the Krylov-optimal iterate for Hermitian PD A, P")
    cls = M.cls(CG)
    upd = M.method(cls, "_update", inherit=False)
    init = M.method(cls, "__init__", inherit=False)
    done = M.method(cls, "_done", inherit=False)
    for name, f in (("_update", upd), ("__init__", init), ("_done", done)):
        if f is None:
            from ..model import AnchorMissing
            raise AnchorMissing("%s.%s" % (CG, name))
    run.count("functions_analysed", 3)

    # K1
    _, code = vn_paths(M, upd, real=REAL)
    _, ref = vn_ref(REF_UPDATE, real=REAL)
    run.count("paths", len(code))
    n = compare_with_reference(run, "K1", "ConjugateGradient._update", upd, code, ref, STATE, "preconditioned CG step")
    run.floor("K1", 4, len([c for c in code if c.status != "raise"]), "paths of _update")

    # K2
    _, code = vn_paths(M, init, real=REAL)
    _, ref = vn_ref(REF_INIT, real=REAL)
    run.count("paths", len(code))
    compare_with_reference(run, "K2", "ConjugateGradient.__init__", init, code, ref,
                           ["self.x", "self.r", "self.p", "self.rzold", "self.resid", "self.not_positive_definite",
                            "self.A", "self.b", "self.P", "self.tol"], "CG initial state")

    # K3 in-place discipline
    eff = Effects(M)
    for name, f in sorted(cls.methods.items()):
        sm = eff.of(f.qual)
        for attr, node in sm.selfsets:
            if attr != "x":
                continue
            if name == "__init__":
                ok = isinstance(node, ast.Assign) and isinstance(node.value, ast.Name) and node.value.id == "x"
                run.check(ok, "K3", "ConjugateGradient.__init__ self.x", loc(f, node),
                          "self.x is bound to the caller's array x itself",
                          "self.x is not the caller's array: `%s` (the solution would not be written into the array the caller passed)" % unparse(node),
                          stmt=node)
            elif isinstance(node, ast.AugAssign):
                continue  # `self.x += ...` on an array updates it in place: the caller's array still receives the solution
            else:
                run.bad("K3", "ConjugateGradient.%s self.x" % name, loc(f, node),
                        "self.x is rebound by `%s`; the caller's array would stop receiving the solution" % unparse(node), stmt=node)
    # writes into x happen through in-place helpers only (axpy / copyto / augmented assignment): from E2
    sm = eff.of(upd.qual)
    xw = [w for (r, d) in sm.detail.items() if r == ("A", "x") for w in d]
    run.check(len(xw) >= 1, "K3", "ConjugateGradient._update writes x in place", loc(upd),
              "x receives %d in-place write(s) (%s)" % (len(xw), "; ".join(w[1] for w in xw[:2])),
              "no in-place write into self.x found in _update")
    # p private copy when max_iter > 1
    an = Analyzer(eff, init)
    an.run()
    psets = [(node, roots) for attr, node, roots in an.s.selfset_roots if attr == "p"]
    run.floor("K3", 2, len(psets) + 1, "assignments to self.p in __init__ (+1)")
    fresh_seen = False
    for node, roots in psets:
        aliased = sorted(r for r in roots if r[0] in ("A", "P"))
        if not aliased:
            fresh_seen = True
        # the aliasing assignment is admissible only under max_iter <= 1
        if aliased and isinstance(getattr(node, "value", None), ast.IfExp):
            # `self.p = z.copy() if max_iter > 1 else z`: the aliasing arm is the one taken when at most one update can follow
            ie = node.value
            from ..vn import negate as _neg
            pv = VN(real={"max_iter", "self.max_iter"})
            try:
                t_ = pv._as_term(pv.ev(ie.test, State()))
            except Unrecognised:
                t_ = None
            multi = [pv._as_term(pv.ev(ast.parse(x, mode="eval").body, State())) for x in ("max_iter > 1", "self.max_iter > 1", "max_iter >= 2", "self.max_iter >= 2")]

            def fresh_expr(e_):
                return isinstance(e_, ast.Call) and isinstance(e_.func, ast.Attribute) and e_.func.attr == "copy" and not e_.args
            ok_ie = t_ is not None and ((any(t_ == m for m in multi) and fresh_expr(ie.body)) or (any(t_ == _neg(m) for m in multi) and fresh_expr(ie.orelse)))
            if ok_ie:
                fresh_seen = True
            run.check(ok_ie, "K3", "ConjugateGradient.__init__ self.p alias", loc(init, node),
                      "p may alias r/z only when max_iter <= 1 (no p-update follows)",
                      "`%s` lets p alias %s although further updates modify p and r independently" % (unparse(node), aliased), stmt=node)
            continue
        if aliased:
            guard = _enclosing_else_of_max_iter_gt_1(init, node)
            run.check(guard, "K3", "ConjugateGradient.__init__ self.p alias", loc(init, node),
                      "p may alias r/z only when max_iter <= 1 (no p-update follows)",
                      "`%s` lets p alias %s although further updates modify p and r independently" % (unparse(node), aliased), stmt=node)
    run.check(fresh_seen, "K3", "ConjugateGradient.__init__ self.p copy", loc(init),
              "a private copy of z is stored in p on the multi-iteration path", "no fresh copy of z is ever stored in self.p")

    # K4
    _, code = vn_paths(M, done, real=REAL)
    _, ref = vn_ref(REF_DONE, real=REAL)
    ok = len(code) == 1 and code[0].status == "return" and isinstance(code[0].ret, T.Poly) and code[0].ret == ref[0].ret
    run.check(ok, "K4", "ConjugateGradient._done", loc(done),
              "_done is `iter >= max_iter or not_positive_definite or resid <= tol`",
              "_done is %s; expected iter >= max_iter or breakdown flag or resid <= tol"
              % (T.show(code[0].ret) if code and isinstance(code[0].ret, T.Poly) else "unrecognised"), stmt=done.body[-1])


def _enclosing_else_of_max_iter_gt_1(func, node):
    """is `node` executed only when max_iter <= 1?  (else-arm of a test equal to `max_iter > 1`, or body of a test equal to its negation;
    tests are compared in the comparison normal form, so `1 < max_iter`, `not max_iter > 1`, `max_iter <= 1` ... are all recognised)"""
    from ..vn import negate
    vn = VN(real={"max_iter", "self.max_iter"})

    def norm(src_or_node):
        from ..model import resolve_temp
        e = ast.parse(src_or_node, mode="eval").body if isinstance(src_or_node, str) else resolve_temp(func.node, src_or_node)
        try:
            return vn._as_term(vn.ev(e, State()))
        except Unrecognised:
            return None
    multi = [norm("max_iter > 1"), norm("self.max_iter > 1"), norm("max_iter >= 2"), norm("self.max_iter >= 2")]
    single = [negate(t) for t in multi] + [norm("max_iter == 1"), norm("self.max_iter == 1")]
    for n in walk_no_nested(func.node):
        if isinstance(n, ast.If):
            t = norm(n.test)
            if t is None:
                continue
            in_else = any(node is x or node in list(ast.walk(x)) for x in n.orelse)
            in_body = any(node is x or node in list(ast.walk(x)) for x in n.body)
            if in_else and any(t == m for m in multi):
                return True
            if in_body and any(t == m for m in single):
                return True
    return False
