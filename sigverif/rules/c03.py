"""C03 -- operator algebra agrees with matrix algebra and advertised shapes.

G1 overloads build the right node in the right operand order
G2 application order / block structure of Compose, Add, Hstack, Vstack, Diag (loops unrolled over three symbolic children)
G3 every path of Linop.apply runs _check_ishape -> _apply -> _check_oshape; nothing else calls _apply
G4 operand validation raises on shape mismatch before the node is built
G5 split indices are running sums; _hstack_params / _vstack_params agree
G6 raw stacking axis is normalised before order-sensitive use
Not decided: equality with a dense matrix (the numerical kernels of the children are other properties).
"""
import ast

from .. import terms as T
from ..axestate import check_raw_axes
from ..linopdesc import LV, LinAlg, _show, val_eq, _t
from ..model import AnchorMissing, Unrecognised, calls_in, unparse
from ..paths import calls_on_path, enumerate_paths
from ..vn import FALSE, NONE, TRUE, VN, State, cond_text, unroll_loop


def S(n):
    return T.sym(n, real=True)


def check(run, M, tier):
    run.rule("G1", "Linop.__mul__/__rmul__/__add__/__neg__/__sub__/__call__ build Compose([self, B]), Compose([self, Multiply(self.ishape, a)]), "
                   "Compose([Multiply(self.oshape, a), self]), Add([self, B]), (-1)*self, self + (-B), apply(input)")
    run.rule("G2", "unrolled over three symbolic children the _apply of Compose/Add/Hstack/Vstack/Diag equals the block-matrix action "
                   "(right-to-left composition, sum, block row/column/diagonal split at the stored indices)")
    run.rule("G2a", "Add/Hstack sum their block results out of place: an accumulator started from the scalar 0 and updated with `+=` takes the dtype of the first "
                    "block result, so adding a complex block result to a real one raises instead of adding")
    run.rule("G2d", "the stacked output buffer can hold every block result: its dtype derives from the block results (allocate-or-widen before each store), never from the input alone")
    run.rule("G2h", "an allocate-or-widen helper returns a fresh buffer of the requested shape, or the buffer it was given (possibly cast to the common result type)")
    run.rule("G3", "every returning path of Linop.apply passes _check_ishape(input), output = _apply(input), _check_oshape(output) in this order; "
                   "the shape guards raise on any mismatching dimension; _apply has no other caller")
    run.rule("G4", "constructors validate operand shapes (adjacent shapes for Compose, common shapes for Add/Hstack/Vstack, rank and off-axis sizes for stacking) before super().__init__")
    run.rule("G5", "concatenated shape = sum along the axis, split indices = running sums, mismatching off-axis sizes or ranks raise; both helpers agree; axis=None flattens")
    run.rule("G6", "raw stacking axis is normalised before order-sensitive use")
    alg = LinAlg(M)
    base = M.cls("sigpy.linop.Linop")
    _g1(run, M, alg, base)
    _g2(run, M, alg)
    _g2a(run, M)
    _g3(run, M, base)
    _g4(run, M, alg)
    _g5(run, M)
    if tier == "thorough":
        _g5(run, M, nops=4, rank=3, tag=" (4 operands, rank 3)")
        _g5(run, M, nops=2, rank=1, tag=" (2 operands, rank 1)")
    check_raw_axes(run, M, "G6", scope="C03")


# ------------------------------------------------------------------------------------------ G1
def _g1(run, M, alg, base):
    def meth(name):
        f = M.method(base, name, inherit=False)
        if f is None:
            raise AnchorMissing("Linop." + name)
        return f

    me = alg.opaque("self")
    # __mul__ / __rmul__ / __add__ on a plain symbol `input` whose type is decided by the guards
    x = S("input")
    f = meth("__mul__")
    outs = alg.vn(f).run(f.body, State({"self": me, "input": x}))
    probe = alg.vn(f)
    lin = probe.ev(ast.parse("isinstance(input, Linop)", mode="eval").body, State({"input": x}))
    sca = probe.ev(ast.parse("np.isscalar(input)", mode="eval").body, State({"input": x}))
    seen = {"linop": False, "scalar": False, "array": False}
    for o in outs:
        if o.status != "return":
            continue
        cs = [c.key() for c in o.conds]
        if lin.key() in cs:
            ok = _is_prim(o.ret, "Compose") and _seq_eq(o.ret.args["linops"], (me, x))
            seen["linop"] = True
            run.check(ok, "G1", "Linop.__mul__ (Linop operand)", f.loc(), "A * B -> Compose([A, B])",
                      "A * B builds %s; expected Compose([self, input]) (apply B, then A)" % _d(o.ret), stmt="G1:mul-linop")
        elif sca.key() in cs:
            seen["scalar"] = True
            parts = o.ret.parts if isinstance(o.ret, LV) and o.ret.kind == "compose" else (o.ret.args["linops"] if _is_prim(o.ret, "Compose") else ())
            ok = len(parts) == 2 and parts[0] is me and _is_prim(parts[1], "Multiply") and val_eq(parts[1].args["ishape"], me.ishape) and val_eq(parts[1].args["mult"], x)
            run.check(ok, "G1", "Linop.__mul__ (scalar operand)", f.loc(), "A * a -> Compose([A, Multiply(A.ishape, a)])",
                      "A * a builds %s; expected Compose([self, Multiply(self.ishape, a)])" % _d(o.ret), stmt="G1:mul-scalar")
        elif any("ndarray" in T.show(c) for c in o.conds if "not(" not in T.show(c)[:4]) and isinstance(o.ret, T.Poly) and "NotImplemented" not in T.show(o.ret):
            seen["array"] = True
            want = T.app("fn:sigpy.linop.Linop.apply", T.app("kw:input", x), T.app("kw:self", me.as_term()))
            ok = T.enc(_t(o.ret)) == T.enc(want) or "apply" in T.show(o.ret)
            run.check(ok, "G1", "Linop.__mul__ (array operand)", f.loc(), "A * x -> A.apply(x)",
                      "A * x evaluates %s; expected self.apply(input)" % _d(o.ret), stmt="G1:mul-array")
    for k, v in seen.items():
        if not v:
            run.bad("G1", "Linop.__mul__ (%s operand)" % k, f.loc(), "no returning path of __mul__ handles a %s operand" % k, stmt="G1:mul-missing-" + k)
    f = meth("__rmul__")
    outs = [o for o in alg.vn(f).run(f.body, State({"self": me, "input": x})) if o.status == "return" and sca.key() in [c.key() for c in o.conds]]
    r0 = outs[0].ret if len(outs) == 1 else None
    parts = r0.parts if isinstance(r0, LV) and r0.kind == "compose" else (r0.args["linops"] if _is_prim(r0, "Compose") else ())
    ok = len(parts) == 2 and parts[1] is me and _is_prim(parts[0], "Multiply") and val_eq(parts[0].args["ishape"], me.oshape) and val_eq(parts[0].args["mult"], x)
    run.check(ok, "G1", "Linop.__rmul__", f.loc(), "a * A -> Compose([Multiply(A.oshape, a), A])",
              "a * A builds %s; expected Compose([Multiply(self.oshape, a), self])" % (_d(outs[0].ret) if outs else "nothing"), stmt="G1:rmul")
    f = meth("__add__")
    outs = [o for o in alg.vn(f).run(f.body, State({"self": me, "input": x})) if o.status == "return"]
    ok = len(outs) == 1 and lin.key() in [c.key() for c in outs[0].conds] and _is_prim(outs[0].ret, "Add") and _seq_eq(outs[0].ret.args["linops"], (me, x))
    run.check(ok, "G1", "Linop.__add__", f.loc(), "A + B -> Add([A, B]) for Linop operands only",
              "A + B builds %s; expected Add([self, input]) guarded by isinstance(input, Linop)" % (_d(outs[0].ret) if outs else "nothing"), stmt="G1:add")
    # __neg__, __sub__, __call__ through the overload semantics established above
    B = alg.opaque("B")
    f = meth("__neg__")
    outs = [o for o in alg.vn(f).run(f.body, State({"self": me})) if o.status == "return"]
    want = alg.neg(me)
    ok = len(outs) == 1 and isinstance(outs[0].ret, LV) and outs[0].ret.as_term() == want.as_term()
    run.check(ok, "G1", "Linop.__neg__", f.loc(), "-A -> (-1) * A", "-A builds %s; expected -1 * self" % (_d(outs[0].ret) if outs else "nothing"), stmt="G1:neg")
    from ..model import resolve_temp

    def ret_src(fn):
        last = fn.node.body[-1]
        if isinstance(last, ast.Return) and last.value is not None:
            return "return" + unparse(resolve_temp(fn.node, last.value)).replace(" ", "")
        return unparse(last).replace(" ", "")
    f = meth("__sub__")
    src = ret_src(f)
    ok = src in ("returnself.__add__(-input)", "returnself+-input", "returnself+(-input)", "returnAdd([self,-input])")
    run.check(ok, "G1", "Linop.__sub__", f.loc(), "A - B -> A + (-B)", "A - B is implemented as `%s`; expected self + (-input)" % unparse(f.node.body[-1]), stmt="G1:sub")
    f = meth("__call__")
    src = ret_src(f)
    ok = src in ("returnself.__mul__(input)", "returnself*input", "returnself.apply(input)")
    run.check(ok, "G1", "Linop.__call__", f.loc(), "A(x) -> A * x", "A(x) is implemented as `%s`" % unparse(f.node.body[-1]), stmt="G1:call")


def _is_prim(v, name):
    return isinstance(v, LV) and v.kind == "prim" and v.cls.name == name


def _seq_eq(a, b):
    if not isinstance(a, tuple) or len(a) != len(b):
        return False
    for x, y in zip(a, b):
        if isinstance(x, LV) or isinstance(y, LV):
            if x is not y:
                return False
        elif not val_eq(x, y):
            return False
    return True


def _d(v):
    if isinstance(v, LV):
        return v.describe()[:160]
    return _show(v) if v is not None else "None"


# ------------------------------------------------------------------------------------------ G2
REF_APPLY = {
    "Compose": [({}, "return A(B(C(input)))")],
    "Add": [({}, "return A(input) + B(input) + C(input)")],
    "Hstack": [
        ({"self.axis": NONE}, "return A(input[0:i1].reshape(A.ishape)) + B(input[i1:i2].reshape(B.ishape)) + C(input[i2:None].reshape(C.ishape))"),
        ({}, """
def sl(op, lo, hi):
    ndim = len(op.ishape)
    axis = self.axis % ndim
    return tuple([slice(None)] * axis + [slice(lo, hi)] + [slice(None)] * (ndim - axis - 1))
return A(input[sl(A, 0, i1)]) + B(input[sl(B, i1, i2)]) + C(input[sl(C, i2, None)])
"""),
    ],
    "Vstack": [
        ({"self.axis": NONE}, """
output = xp.empty(self.oshape, dtype=input.dtype)
output[0:i1] = A(input).ravel()
output[i1:i2] = B(input).ravel()
output[i2:None] = C(input).ravel()
return output
"""),
        ({}, """
def sl(op, lo, hi):
    ndim = len(op.oshape)
    axis = self.axis % ndim
    return tuple([slice(None)] * axis + [slice(lo, hi)] + [slice(None)] * (ndim - axis - 1))
output = xp.empty(self.oshape, dtype=input.dtype)
output[sl(A, 0, i1)] = A(input)
output[sl(B, i1, i2)] = B(input)
output[sl(C, i2, None)] = C(input)
return output
"""),
    ],
}
REF_DIAG = """
def isl(op, lo, hi):
    ndim = len(op.ishape)
    axis = self.iaxis % ndim
    return tuple([slice(None)] * axis + [slice(lo, hi)] + [slice(None)] * (ndim - axis - 1))
def osl(op, lo, hi):
    ndim = len(op.oshape)
    axis = self.oaxis % ndim
    return tuple([slice(None)] * axis + [slice(lo, hi)] + [slice(None)] * (ndim - axis - 1))
output = xp.empty(self.oshape, dtype=input.dtype)
if self.iaxis is None:
    pa = A(input[0:i1].reshape(A.ishape))
    pb = B(input[i1:i2].reshape(B.ishape))
    pc = C(input[i2:None].reshape(C.ishape))
else:
    pa = A(input[isl(A, 0, i1)])
    pb = B(input[isl(B, i1, i2)])
    pc = C(input[isl(C, i2, None)])
if self.oaxis is None:
    output[0:o1] = pa.ravel()
    output[o1:o2] = pb.ravel()
    output[o2:None] = pc.ravel()
else:
    output[osl(A, 0, o1)] = pa
    output[osl(B, o1, o2)] = pb
    output[osl(C, o2, None)] = pc
return output
"""


def _g2(run, M, alg):
    A, B, C = alg.opaque("A"), alg.opaque("B"), alg.opaque("C")
    for cname in ("Compose", "Add", "Hstack", "Vstack", "Diag"):
        f = M.func("sigpy.linop.%s._apply" % cname)
        base_env = {"self.linops": (A, B, C), "self.nops": T.const(3), "self.indices": (S("i1"), S("i2")),
                    "self.iindices": (S("i1"), S("i2")), "self.oindices": (S("o1"), S("o2")), "input": T.sym("input"),
                    "A": A, "B": B, "C": C, "i1": S("i1"), "i2": S("i2"), "o1": S("o1"), "o2": S("o2")}
        code = [o for o in alg.vn(f, loop_hook=unroll_loop).run(f.body, State(dict(base_env))) if o.status == "return"]
        refs = []
        if cname == "Diag":
            refs = [o for o in alg.vn(f, loop_hook=unroll_loop).run(ast.parse(REF_DIAG).body, State(dict(base_env))) if o.status == "return"]
        else:
            for extra, src in REF_APPLY[cname]:
                env = dict(base_env)
                env.update(extra)
                conds = []
                if cname in ("Hstack", "Vstack"):
                    axis_none = T.app("is", T.sym("self.axis"), NONE)
                    conds = [axis_none] if extra else [T.app("isnot", T.sym("self.axis"), NONE)]
                    env = dict(base_env)  # keep self.axis symbolic; the path condition selects the arm
                outs = alg.vn(f, loop_hook=unroll_loop).run(ast.parse(src.strip()).body, State(env, conds))
                refs += [o for o in outs if o.status == "return"]
        run.count("paths", len(code))
        if len(code) != len(refs):
            run.bad("G2", cname + "._apply", f.loc(), "%s._apply has %d returning paths over its axis options, the block-matrix reference has %d"
                    % (cname, len(code), len(refs)), stmt="G2:%s:paths" % cname)
            continue
        for o in code:
            cs = frozenset(c.key() for c in o.conds)
            match = [r for r in refs if frozenset(c.key() for c in r.conds) == cs]
            if len(match) != 1:
                run.bad("G2", "%s._apply[%s]" % (cname, cond_text(o.conds)), f.loc(),
                        "path under [%s] has no counterpart in the block-matrix reference" % cond_text(o.conds), stmt="G2:%s:%s" % (cname, cond_text(o.conds)))
                continue
            r = match[0]
            if cname in ("Vstack", "Diag"):
                _g2_stores(run, M, f, cname, o, r)
                continue
            ok = T.enc(_t(o.ret)) == T.enc(_t(r.ret))
            run.check(ok, "G2", "%s._apply[%s]" % (cname, cond_text(o.conds)), f.loc(),
                      "action on (A, B, C) equals the block-matrix reference",
                      "%s._apply over children (A, B, C) computes %s ; the block-matrix action is %s" % (cname, _show_long(o.ret), _show_long(r.ret)),
                      stmt="G2:%s:%s" % (cname, cond_text(o.conds)))


CTL_G2A = """
def _apply(self, input):
    output = 0
    for linop in self.linops:
        output += linop(input)
    acc = 0
    for linop in self.linops:
        acc = acc + linop(input)
    return output
"""


def _inplace_sums(fnode):
    """AugAssign(+/-) statements on a local that the function initialises with a numeric constant and that add an array-valued call"""
    from ..model import walk_no_nested
    init = {}
    for n in walk_no_nested(fnode):
        if isinstance(n, ast.Assign) and len(n.targets) == 1 and isinstance(n.targets[0], ast.Name) and isinstance(n.value, ast.Constant) \
                and isinstance(n.value.value, (int, float)) and not isinstance(n.value.value, bool):
            init[n.targets[0].id] = n
    hits = []
    for n in walk_no_nested(fnode):
        if isinstance(n, ast.AugAssign) and isinstance(n.op, (ast.Add, ast.Sub)) and isinstance(n.target, ast.Name) and n.target.id in init \
                and any(isinstance(x, ast.Call) for x in ast.walk(n.value)):
            hits.append(n)
    return hits


def _g2a(run, M):
    for cname in ("Add", "Hstack"):
        f = M.func("sigpy.linop.%s._apply" % cname)
        hits = _inplace_sums(f.node)
        for n in hits:
            run.bad("G2a", cname + "._apply", f.loc(n), "%s._apply accumulates with `%s` into a variable started from a scalar: after the first term the accumulator is "
                    "that term's array and keeps its dtype, so a real first block followed by a complex one (Identity + FFT on a real input) raises a casting "
                    "error instead of returning the sum" % (cname, unparse(n)), stmt=n)
        if not hits:
            run.ok("G2a", cname + "._apply", "block results are summed out of place", f.loc())
    ctl = ast.parse(CTL_G2A).body[0]
    got = [unparse(n) for n in _inplace_sums(ctl)]
    run.control("G2a", "output = 0; output += linop(input)", True, "output += linop(input)" in got)
    run.control("G2a", "acc = 0; acc = acc + linop(input)", False, any("acc" in g for g in got))


def _kwargs(atom):
    out = {}
    for x in atom[2]:
        v = T.dec(x)
        a = v.single_atom() if isinstance(v, T.Poly) else None
        if a is not None and a[0] == "app" and a[1].startswith("kw:"):
            out[a[1][3:]] = T.dec(a[2][0])
    return out


def _peel_stores(term):
    """a stacked output as (allocation, [(index, value, helper-call-or-None)]): peels setitem chains; a call of a repo helper that
    takes the buffer as `output` (allocate-or-widen helper) is looked through -- rule G2h establishes that such a helper
    returns a buffer holding the same elements"""
    stores, helpers = [], []
    t = _t(term)
    pending_helper = None
    while True:
        a = t.single_atom() if isinstance(t, T.Poly) else None
        if a is None or a[0] != "app":
            raise Unrecognised("stacked output is not a chain of stores into an allocated buffer: %s" % T.show(t, 200))
        if a[1] == "setitem":
            base, idx, val = (T.dec(x) for x in a[2])
            # the helper call (if any) that prepared the buffer for this store
            ba = base.single_atom() if isinstance(base, T.Poly) else None
            h = None
            if ba is not None and ba[0] == "app" and ba[1].startswith("fn:") and "output" in _kwargs(ba):
                h = ba
            stores.append((idx, val, h))
            t = base
            continue
        if a[1].startswith("fn:") and "output" in _kwargs(a):
            kw = _kwargs(a)
            helpers.append(a)
            if kw["output"] == NONE:
                alloc = ("helper", a[1][3:], kw.get("oshape"), None)
                break
            t = kw["output"]
            continue
        if a[1] in ("call:numpy.empty", "call:numpy.zeros"):
            args = [T.dec(x) for x in a[2]]
            dt = None
            for x in args[1:]:
                xa = x.single_atom() if isinstance(x, T.Poly) else None
                if xa is not None and xa[0] == "app" and xa[1] == "kw:dtype":
                    dt = T.dec(xa[2][0])
            alloc = ("numpy", a[1][5:], args[0] if args else None, dt)
            break
        raise Unrecognised("stacked output is not a chain of stores into an allocated buffer: %s" % T.show(t, 200))
    stores.reverse()
    return alloc, stores, helpers


def _unravel(v):
    a = v.single_atom() if isinstance(v, T.Poly) else None
    if a is not None and a[0] == "app" and a[1] in ("ravel", "flatten") and len(a[2]) == 1:
        return T.dec(a[2][0])
    return v


def _g2_stores(run, M, f, cname, o, r):
    """block-column / block-diagonal action = the list of (slice, block result) stores into one fresh buffer of shape self.oshape"""
    tag = "%s._apply[%s]" % (cname, cond_text(o.conds))
    alloc, stores, helpers = _peel_stores(o.ret)
    ralloc, rstores, _ = _peel_stores(r.ret)
    same = len(stores) == len(rstores) and all(T.enc(i1) == T.enc(i2) and T.enc(_t(v1)) == T.enc(_t(v2))
                                              for (i1, v1, _), (i2, v2, _) in zip(stores, rstores))
    run.check(same, "G2", tag, f.loc(), "stores (slice_k, block_k result) over (A, B, C) equal the block-matrix reference",
              "%s._apply over children (A, B, C) stores %s ; the block-matrix action stores %s"
              % (cname, "; ".join("[%s] = %s" % (T.show(i, 150), T.show(_t(v), 200)) for i, v, _ in stores),
                 "; ".join("[%s] = %s" % (T.show(i, 150), T.show(_t(v), 200)) for i, v, _ in rstores)),
              stmt="G2:%s:%s" % (cname, cond_text(o.conds)))
    shape = alloc[2]
    run.check(shape is not None and T.enc(_t(shape)) == T.enc(T.sym("self.oshape")), "G2", tag + " buffer", f.loc(),
              "the output buffer is allocated with shape self.oshape",
              "%s._apply allocates its output with shape %s; expected self.oshape" % (cname, T.show(shape, 120) if shape is not None else "?"),
              stmt="G2:%s:alloc:%s" % (cname, cond_text(o.conds)))
    # G2d: the buffer must be able to hold every block result (complex blocks on a real input are not truncated)
    if alloc[0] == "numpy":
        dt = alloc[3]
        names = T.symbols(dt) if dt is not None else set()
        from_results = dt is not None and bool(T.apps(dt, "apply"))
        if from_results:
            run.ok("G2d", tag, "buffer dtype derives from the block results", f.loc())
        elif dt is None or "input" in names:
            run.bad("G2d", tag, f.loc(), "%s._apply allocates its output buffer with dtype %s: the result of a complex-valued block applied to a real "
                    "input is cast to real when stored (imaginary part silently dropped), so the stack no longer acts as the block matrix"
                    % (cname, T.show(dt, 80) if dt is not None else "float (numpy default)"), stmt="G2d:%s:%s" % (cname, cond_text(o.conds)))
        else:
            raise Unrecognised("G2d: output dtype of %s._apply comes from %s" % (cname, T.show(dt, 120)))
    else:
        ok = len(helpers) == len(stores) and all(h is not None and T.enc(_t(_kwargs(h).get("output_n", NONE))) == T.enc(_t(_unravel(v)))
                                                for _, v, h in stores)
        _g2h(run, M, alloc[1])
        run.check(ok, "G2d", tag, f.loc(), "before every store the buffer is passed through %s together with the block result about to be stored" % alloc[1],
                  "%s._apply does not pass every block result through %s before storing it: a later complex block would be truncated to the dtype of the first"
                  % (cname, alloc[1]), stmt="G2d:%s:%s" % (cname, cond_text(o.conds)))


_G2H_DONE = set()


def _g2h(run, M, qual):
    """the allocate-or-widen helper returns a fresh buffer of the requested shape when given None and otherwise the same elements
    (the buffer itself or a cast of it to the common result_type)"""
    if (id(run), qual) in _G2H_DONE:
        return
    _G2H_DONE.add((id(run), qual))
    fn = M.func(qual)
    env = {p: T.sym(p) for p in fn.params}
    outs = VN(M, fn).run(fn.body, State(env))
    ok = bool(outs)
    seen = {"alloc": False, "same": False, "widen": False}
    for st in outs:
        if st.status != "return":
            ok = False
            continue
        v = _t(st.ret)
        a = v.single_atom() if isinstance(v, T.Poly) else None
        conds = [T.show(c, 100) for c in st.conds]
        is_none = any(c == "is(output, None)" for c in conds)
        if a is not None and a[0] == "app" and a[1].startswith("call:") and a[1].split(".")[-1] in ("empty", "zeros"):
            args = [T.dec(x) for x in a[2]]
            dts = [T.dec(T.from_key(x[1]).single_atom()[2][0]) for x in a[2][1:] if x[0] == "P" and T.from_key(x[1]).single_atom() and T.from_key(x[1]).single_atom()[1] == "kw:dtype"]
            good = is_none and args and args[0] == T.sym("oshape") and dts and "output_n" in T.symbols(dts[0])
            seen["alloc"] |= bool(good)
            ok &= bool(good)
        elif v == T.sym("output"):
            # the buffer is handed back as it is only when it can already hold the block: result_type(buffer, block) == buffer.dtype
            fits = ("zero(-1*attr:dtype(output) + call:numpy.result_type(output, output_n))", "zero(attr:dtype(output) + -1*call:numpy.result_type(output, output_n))",
                    "zero(-1*attr:dtype(output) + call:numpy.result_type(output_n, output))", "zero(attr:dtype(output) + -1*call:numpy.result_type(output_n, output))")
            guarded = any(c in fits for c in conds)
            ok &= (not is_none) and guarded
            seen["same"] = True
        elif a is not None and a[0] == "app" and a[1] == "astype" and T.dec(a[2][0]) == T.sym("output"):
            dt = T.dec(a[2][1])
            da = dt.single_atom() if isinstance(dt, T.Poly) else None
            good = (not is_none) and da is not None and da[0] == "app" and da[1].endswith("result_type") and \
                {"output", "output_n"} <= T.symbols(dt)
            seen["widen"] |= bool(good)
            ok &= bool(good)
        else:
            ok = False
    ok = ok and seen["alloc"] and seen["widen"]
    run.check(ok, "G2h", qual, fn.loc(), "returns empty(oshape, dtype of the block result) for None, else the buffer (only if result_type(buffer, block result) is its own dtype) or its cast to that result_type",
              "%s is used as allocate-or-widen helper of the stacked output but its return paths are %s" % (
                  qual, [(cond_text(st.conds), T.show(_t(st.ret), 100) if st.ret is not None else st.status) for st in outs]), stmt="G2h:" + qual)


def _show_long(v):
    v = _t(v)
    return T.show(v, 600) if isinstance(v, T.Poly) else repr(v)[:600]


# ------------------------------------------------------------------------------------------ G3
REF_GUARD = """
for i1, i2 in zip(ARR.shape, self.SHAPE):
    if i2 != -1 and i1 != i2:
        raise ValueError("mismatch")
"""


def _g3(run, M, base):
    f = M.method(base, "apply", inherit=False)
    if f is None:
        raise AnchorMissing("Linop.apply")
    paths = enumerate_paths(f.body)
    rets = [p for p in paths if p.end == "return"]
    run.floor("G3", 1, len(rets), "returning paths of Linop.apply")
    for p in rets:
        seq = calls_on_path(p, lambda c: isinstance(c.func, ast.Attribute) and isinstance(c.func.value, ast.Name) and c.func.value.id == "self"
                            and c.func.attr in ("_check_ishape", "_apply", "_check_oshape"))
        names = [c.func.attr for c in seq]
        ok = names == ["_check_ishape", "_apply", "_check_oshape"]
        detail = ""
        if ok:
            # data flow: _check_ishape(input), output = _apply(input), _check_oshape(output), return output
            a0 = unparse(seq[0].args[0]) if seq[0].args else ""
            a1 = unparse(seq[1].args[0]) if seq[1].args else ""
            a2 = unparse(seq[2].args[0]) if seq[2].args else ""
            tgt = None
            for st in p.stmts():
                if isinstance(st, ast.Assign) and st.value is seq[1] and isinstance(st.targets[0], ast.Name):
                    tgt = st.targets[0].id
            retv = unparse(p.end_node.value) if p.end_node.value is not None else ""
            # what _apply returned is what apply returns: nothing on the path rebinds or rewrites it afterwards (a cast "back to the input's dtype"
            # drops the imaginary part of a complex result for real input)
            touched = []
            seen_apply = False
            for st in p.stmts():
                if isinstance(st, ast.Assign) and st.value is seq[1]:
                    seen_apply = True
                    continue
                if seen_apply and tgt is not None:
                    tg = st.targets if isinstance(st, ast.Assign) else ([st.target] if isinstance(st, (ast.AugAssign, ast.AnnAssign)) else [])
                    for t_ in tg:
                        base_ = t_
                        while isinstance(base_, ast.Subscript):
                            base_ = base_.value
                        if isinstance(base_, ast.Name) and base_.id == tgt:
                            touched.append(unparse(st)[:80])
            ok = a0 == "input" and a1 == "input" and tgt is not None and a2 == tgt and retv == tgt and not touched
            detail = "(_check_ishape(%s); %s = _apply(%s); _check_oshape(%s); return %s%s)" % (a0, tgt, a1, a2, retv, ("; result modified by `%s`" % touched[0]) if touched else "")
        run.check(ok, "G3", "Linop.apply path", f.loc(), "guards around _apply in order " + detail,
                  "a returning path of Linop.apply runs %s %s; expected _check_ishape(input), output = _apply(input), _check_oshape(output), return output"
                  % (names, detail), stmt="G3:apply")
    # the operator owns its shapes: the constructor stores fresh lists, never the caller's (mutable) list object itself
    init = M.method(base, "__init__", inherit=False)
    if init is None:
        raise AnchorMissing("Linop.__init__")
    for attr in ("oshape", "ishape"):
        vals = [n.value for n in ast.walk(init.node) if isinstance(n, ast.Assign) and any(isinstance(t, ast.Attribute) and isinstance(t.value, ast.Name)
                                                                                              and t.value.id == "self" and t.attr == attr for t in n.targets)]

        def fresh(v):
            if isinstance(v, ast.IfExp):
                return fresh(v.body) and fresh(v.orelse)
            if isinstance(v, ast.Call) and isinstance(v.func, ast.Name) and v.func.id in ("list", "tuple") and len(v.args) == 1:
                return True
            return isinstance(v, (ast.ListComp, ast.List, ast.Tuple))
        run.check(bool(vals) and all(fresh(v) for v in vals), "G3", "Linop.__init__ self." + attr, init.loc(), "stores a fresh list(%s)" % attr,
                  "Linop.__init__ stores `%s` as self.%s: when the caller passes a list, the operator and its adjoint share that list object, so a later change of the "
                  "caller's list silently changes the operator's advertised shape (and what Gridding / Resize / Reshape hand to their functions)"
                  % (unparse(vals[0]) if vals else "nothing", attr), stmt="G3:init:" + attr)
    # the guards themselves: unrolled over a rank-2 shape they raise exactly when a dimension differs (and is not -1)
    for gname, arr, shp in (("_check_ishape", "input", "ishape"), ("_check_oshape", "output", "oshape")):
        g = M.method(base, gname, inherit=False)
        if g is None:
            raise AnchorMissing("Linop." + gname)
        env = {arr: None, "self." + shp: (S("s0"), S("s1"))}
        shape_val = (S("d0"), S("d1"))

        def hook(vn, e, st, arr=arr):
            if isinstance(e, ast.Attribute) and e.attr == "shape" and isinstance(e.value, ast.Name) and e.value.id == arr:
                return shape_val
            return None
        vn = VN(M, g, loop_hook=unroll_loop)
        orig = vn.ev_Attribute

        def ev_attr(e, st, orig=orig, arr=arr):
            if e.attr == "shape" and isinstance(e.value, ast.Name) and e.value.id in (arr, "ARR"):
                return shape_val
            return orig(e, st)
        vn.ev_Attribute = ev_attr
        code = vn.run(g.body, State({"self." + shp: (S("s0"), S("s1"))}))
        vr = VN(M, g, loop_hook=unroll_loop)
        orig2 = vr.ev_Attribute

        def ev_attr2(e, st, orig2=orig2):
            if e.attr == "shape" and isinstance(e.value, ast.Name) and e.value.id == "ARR":
                return shape_val
            return orig2(e, st)
        vr.ev_Attribute = ev_attr2
        ref = vr.run(ast.parse(REF_GUARD.replace("SHAPE", shp)).body, State({"self." + shp: (S("s0"), S("s1"))}))
        # compared by meaning, not by path structure: the guard passes exactly under the conjunction of the per-dimension conditions (the
        # non-raising paths, with conditions flattened into conjuncts in De Morgan normal form) and raises on every other path
        from ..vn import conjuncts

        def sig(outs):
            live = sorted(tuple(sorted(repr(x.key()) for c in o.conds for x in conjuncts(c))) for o in outs if o.status != "raise")
            return (live, any(o.status == "raise" for o in outs))
        run.check(sig(code) == sig(ref), "G3", "Linop." + gname, g.loc(),
                  "raises exactly when some dimension differs from the advertised one (and the advertised one is not -1)",
                  "%s does not raise exactly on a mismatching dimension: paths %s" % (gname, [(o.status, cond_text(o.conds)) for o in code]),
                  stmt="G3:" + gname)
    # who may call _apply
    sites = []
    for q, fn in M.funcs.items():
        for c in calls_in(fn.node):
            if isinstance(c.func, ast.Attribute) and c.func.attr == "_apply":
                sites.append((fn, c))
    other = [(fn, c) for fn, c in sites if fn.qual != "sigpy.linop.Linop.apply"]
    run.floor("G3", 1, len(sites), "call sites of _apply")
    for fn, c in other:
        run.bad("G3", fn.qual, fn.loc(c), "%s calls `%s` directly, bypassing the shape guards of Linop.apply" % (fn.qual, unparse(c)), stmt=c)
    if not other:
        run.ok("G3", "who-may-call _apply", "_apply is called only from Linop.apply (%d site)" % len(sites))


# ------------------------------------------------------------------------------------------ G4
def _g4(run, M, alg):
    A, B, C = alg.opaque("A"), alg.opaque("B"), alg.opaque("C")
    pv = VN()
    ne = lambda x, y: pv.compare(ast.NotEq(), _t(x), _t(y))
    # helper checks unrolled over three operands
    cases = [
        ("sigpy.linop._check_compose_linops", [ne(A.ishape, B.oshape), ne(B.ishape, C.oshape)], "adjacent shapes linop_k.ishape != linop_{k+1}.oshape"),
        ("sigpy.linop._check_linops_same_ishape", [ne(B.ishape, A.ishape), ne(C.ishape, A.ishape)], "every ishape != first ishape"),
        ("sigpy.linop._check_linops_same_oshape", [ne(B.oshape, A.oshape), ne(C.oshape, A.oshape)], "every oshape != first oshape"),
    ]
    for q, want, what in cases:
        f = M.func(q)
        outs = alg.vn(f, loop_hook=unroll_loop).run(f.body, State({"linops": (A, B, C)}))
        raising = [o for o in outs if o.status == "raise"]
        got = set()
        for o in raising:
            # a raise under `any(..)` / `a or b` is a raise under each disjunct
            la = o.conds[-1].single_atom() if o.conds else None
            if la is not None and la[0] == "app" and la[1] == "or":
                for d_ in la[2]:
                    got.add(T.dec(d_).key())
            else:
                got.add(o.conds[-1].key())
        trivially_false = ne(A.ishape, A.ishape).key()
        trivially_false_o = ne(A.oshape, A.oshape).key()
        got -= {trivially_false, trivially_false_o}
        ok = got == {w.key() for w in want} and any(o.status != "raise" for o in outs)
        run.check(ok, "G4", q.split(".")[-1], f.loc(), "raises exactly on: %s" % what,
                  "%s raises under %s; expected a raise exactly when %s" % (q.split(".")[-1], [cond_text([o.conds[-1]]) for o in raising], what), stmt="G4:" + q)
    # constructors call the validators before super().__init__
    need = {"Compose": ["_check_compose_linops"], "Add": ["_check_linops_same_ishape", "_check_linops_same_oshape"],
            "Hstack": ["_check_linops_same_oshape", "_hstack_params"], "Vstack": ["_check_linops_same_ishape", "_vstack_params"],
            "Diag": ["_hstack_params", "_vstack_params"]}
    for cname, names in need.items():
        f = M.func("sigpy.linop.%s.__init__" % cname)
        for p in enumerate_paths(f.body):
            if p.end == "raise":
                continue
            seq = calls_on_path(p, lambda c: (isinstance(c.func, ast.Name) and c.func.id in names)
                                or (isinstance(c.func, ast.Attribute) and c.func.attr == "__init__"))
            order = [c.func.id if isinstance(c.func, ast.Name) else "super().__init__" for c in seq]
            ok = "super().__init__" in order and all(n in order and order.index(n) < order.index("super().__init__") for n in names)
            argok = True
            for c in seq:
                if isinstance(c.func, ast.Name) and c.func.id.startswith("_check") and not (c.args and unparse(c.args[0]) in ("linops", "self.linops")):
                    argok = False
            run.check(ok and argok, "G4", cname + ".__init__", f.loc(), "validators %s run on the operand list before the node is built" % names,
                      "%s.__init__ runs %s; expected %s applied to the operand list before super().__init__" % (cname, order, names), stmt="G4:init:" + cname)
    # G4c: flattening keeps every operand (so that validating the flattened list is validating the given one)
    run.rule("G4c", "the operand list Compose stores keeps every given operand that is not itself a Compose (nothing is filtered out before or after validation)")
    fc = M.func("sigpy.linop.Compose.__init__")
    # module-level helpers the constructor routes the operand list through are read, not trusted by name: a helper applied to the
    # constructor's own `linops` parameter is value-numbered directly over (A, B, C) and its results take the place of the call
    kept_lists = []     # (path text, value stored in self.linops)
    outs = [o for o in alg.vn(fc, loop_hook=unroll_loop).run(fc.body, State({"linops": (A, B, C)})) if o.status != "raise"]
    for o in outs:
        kept = o.env.get("self.linops")
        at = kept.single_atom() if isinstance(kept, T.Poly) else None
        if at is not None and at[0] == "app" and at[1].startswith("fn:"):
            h = M.func(at[1][3:])
            sites = [n for n in ast.walk(fc.node) if isinstance(n, ast.Call) and M.resolve_call(fc, n)[0] == "repo" and M.resolve_call(fc, n)[1] is h]
            if len(sites) == 1 and len(sites[0].args) == 1 and isinstance(sites[0].args[0], ast.Name) and sites[0].args[0].id == "linops" and len(h.params) == 1:
                for ho in alg.vn(h, loop_hook=unroll_loop).run(h.body, State({h.params[0]: (A, B, C)})):
                    if ho.status == "return":
                        kept_lists.append((cond_text(list(o.conds) + list(ho.conds))[:100], ho.ret))
                continue
        kept_lists.append((cond_text(o.conds)[:100], kept))
    names = [x.as_term() for x in (A, B, C)]
    dropped = []
    for ctext, kept in kept_lists:
        rt = _t(kept) if kept is not None else None
        flat = "" if kept is None else (T.show(rt, 4000) if isinstance(rt, T.Poly) else " ".join(T.show(_t(x), 400) for x in (kept if isinstance(kept, tuple) else ())))
        for nm, sym, lv in zip("ABC", names, (A, B, C)):
            if ("attr:linops(%s)" % T.show(sym, 50)) not in flat and repr(lv) not in flat and not (isinstance(kept, tuple) and any(x is lv for x in kept)):
                dropped.append((nm, ctext))
    run.check(bool(kept_lists) and not dropped, "G4c", "Compose.__init__ operand list", fc.loc(), "every operand (or its own factors) is kept on every path",
              "Compose.__init__ drops operand(s) %s from self.linops: an operand that is left out is neither applied nor shape-checked, so incompatible operands are "
              "combined instead of rejected" % dropped[:3], stmt="G4c")
    # Compose must store the flattened list, Diag/Hstack/Vstack obtain shapes from the helpers applied to the children's shapes
    for cname, helper, attr in (("Hstack", "_hstack_params", "ishape"), ("Vstack", "_vstack_params", "oshape")):
        inst = alg.instances(M.cls("sigpy.linop." + cname))[0]
        shp = inst.ishape if attr == "ishape" else inst.oshape
        want = "fn:sigpy.linop.%s(kw:axis(axis), kw:shapes(comp(attr:%s(@0), linops)))" % (helper, attr)
        run.check(want in T.show(_t(shp), 400).replace(" ", "").replace(",kw", ", kw") or want.replace(" ", "") in T.show(_t(shp), 400).replace(" ", ""),
                  "G4", cname + " shape", M.func("sigpy.linop.%s.__init__" % cname).loc(),
                  "%s comes from %s over the children's %s and the requested axis" % (attr, helper, attr),
                  "%s.%s is %s; expected %s([l.%s for l in linops], axis)[0]" % (cname, attr, _show(shp), helper, attr), stmt="G4:shape:" + cname)
    # Diag: both shapes come from the helpers over the children's shapes with the axes the caller gave (an axis already wrapped with
    # `% rank` is the same axis; anything else -- in particular None for the valid axis 0 -- is a different operator)
    for inst in alg.instances(M.cls("sigpy.linop.Diag")):
        ctx = cond_text(inst.conds)[:60]
        for shp, helper, attr, axn in ((inst.ishape, "_hstack_params", "ishape", "iaxis"), (inst.oshape, "_vstack_params", "oshape", "oaxis")):
            shown = T.show(_t(shp), 500).replace(" ", "")
            ok_axis = ("kw:axis(%s)" % axn) in shown or ("kw:axis(mod(%s," % axn) in shown
            ok_src = ("fn:sigpy.linop.%s(" % helper) in shown and ("comp(attr:%s(@0),linops)" % attr) in shown
            stored = inst.attrs.get(axn)
            st_shown = T.show(_t(stored), 120).replace(" ", "") if stored is not None else "missing"
            ok_attr = st_shown == axn or st_shown.startswith("mod(%s," % axn)
            run.check(ok_axis and ok_src and ok_attr, "G4", "Diag %s[%s]" % (attr, ctx), M.func("sigpy.linop.Diag.__init__").loc(),
                      "%s comes from %s over the children's %s and the requested %s, which is also what _apply reads" % (attr, helper, attr, axn),
                      "Diag.__init__ under [%s]: %s is %s and self.%s is %s; expected %s([l.%s for l in linops], %s)[0] with the caller's %s stored unchanged "
                      "(a valid axis such as 0 must not turn into None = flatten)" % (ctx, attr, _show(shp)[:200], axn, st_shown[:80], helper, attr, axn, axn),
                      stmt="G4:diag:%s:%s" % (attr, ctx))


# ------------------------------------------------------------------------------------------ G5
def _g5(run, M, nops=3, rank=2, tag=""):
    names = ["a", "b", "c", "d", "e"][:nops]
    for q in ("sigpy.linop._hstack_params", "sigpy.linop._vstack_params"):
        f = M.func(q)
        short = q.split(".")[-1]
        for axis in list(range(rank)) + [-(k + 1) for k in range(rank)]:
            shapes = tuple(tuple(S(n + str(j)) for j in range(rank)) for n in names)
            outs = VN(M, f, loop_hook=unroll_loop).run(f.body, State({"shapes": shapes, "axis": T.const(axis)}))
            k = axis % rank
            rets = [o for o in outs if o.status == "return"]
            tot = shapes[0][k]
            for n in range(1, nops):
                tot = T.add(tot, shapes[n][k])
            want_shape = [shapes[0][j] for j in range(rank)]
            want_shape[k] = tot
            idx = []
            run_sum = shapes[0][k]
            for n in range(1, nops):
                idx.append(run_sum)
                run_sum = T.add(run_sum, shapes[n][k])
            want_idx = tuple(idx)
            ok = len(rets) == 1 and isinstance(rets[0].ret, tuple) and len(rets[0].ret) == 2 and val_eq(rets[0].ret[0], tuple(want_shape)) \
                and val_eq(rets[0].ret[1], want_idx)
            want_conds = set()
            for n in range(1, nops):
                for j in range(rank):
                    if j == k:
                        continue
                    d = T.sub(shapes[n][j], shapes[0][j])
                    nd = T.neg(d)
                    if repr(nd.key()) < repr(d.key()):
                        d = nd
                    want_conds.add(T.app("zero", d).key())
            ok_c = ok and {c.key() for c in rets[0].conds} == want_conds and all(o.status == "raise" for o in outs if o is not rets[0])
            run.check(ok and ok_c, "G5", "%s axis=%d%s" % (short, axis, tag), f.loc(),
                      "shape (%s), indices (%s), raise on off-axis mismatch" % (_show(tuple(want_shape)), _show(want_idx)),
                      "%s over %d operands of rank %d, axis=%d gives %s under [%s]; expected shape %s and split indices %s, raising iff an off-axis size differs"
                      % (short, nops, rank, axis, _show(rets[0].ret) if rets else "no result", cond_text(rets[0].conds) if rets else "", _show(tuple(want_shape)), _show(want_idx)),
                      stmt="G5:%s:%d:%s" % (short, axis, tag))
        if tag:
            continue
        # rank mismatch raises
        outs = VN(M, f, loop_hook=unroll_loop).run(f.body, State({"shapes": ((S("a0"), S("a1")), (S("b0"),)), "axis": T.const(0)}))
        run.check(all(o.status == "raise" for o in outs) and outs, "G5", short + " rank", f.loc(), "operands of different rank are rejected",
                  "%s accepts shapes of different rank" % short, stmt="G5:rank:" + short)
        # axis None recurses on flattened sizes with axis 0
        outs = VN(M, f, loop_hook=unroll_loop).run(f.body, State({"shapes": S("shapes"), "axis": NONE}))
        rets = [o for o in outs if o.status == "return"]
        want = "fn:%s(kw:axis(0), kw:shapes(comp([fn:sigpy.util.prod(kw:shape(@0))], shapes)))" % q
        got = T.show(_t(rets[0].ret), 300) if len(rets) == 1 and isinstance(rets[0].ret, T.Poly) else ""
        # the recursion may sit in a private helper the function wraps (same arguments plus constants such as the exception class to raise):
        # that helper is certified by the axis cases above, through which this function was read
        import re as _re
        m_ = _re.match(r"fn:(sigpy\.linop\._\w+)\((.*)\)$", got.replace(" ", ""))
        ok_ = got.replace(" ", "") == want.replace(" ", "")
        if not ok_ and m_ and m_.group(1) != q:
            args_ = m_.group(2)
            ok_ = "kw:axis(0)" in args_ and "kw:shapes(comp([fn:sigpy.util.prod(kw:shape(@0))],shapes))" in args_ and M.has_func(m_.group(1)) \
                and all(a_.startswith(("kw:axis(", "kw:shapes(")) or _re.match(r"kw:\w+\([A-Za-z_.]+\)$", a_) for a_ in _re.split(r",(?=kw:)", args_))
        run.check(ok_, "G5", short + " axis=None", f.loc(),
                  "axis=None concatenates the flattened sizes along axis 0",
                  "%s(shapes, None) evaluates %s; expected the same helper on [[prod(s)] for s in shapes] with axis 0" % (short, got or "several paths"),
                  stmt="G5:none:" + short)
