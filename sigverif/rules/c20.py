"""C20 (partial) -- trapezoid designers: waveforms start and end at zero and integrate to exactly the requested area.

Z1 endpoint-zero abstract domain: on every positive-area path the returned waveform of trap_grad / min_trap_grad has first and last sample 0
   (linspace(0, .) ramps first, linspace(., 0) ramps last, scaling keeps zeros, concatenate takes first-of-first / last-of-last)
Z2 exact area by linearity of sum: sum(trap) * dt == area in trap_grad; sum(flat) * dt == area for the flat top of min_trap_grad, which is the middle piece
Z3 spokes_grad assembles only min_trap_grad / trap_grad pieces (sign flips), with the requested blip areas
NOT decided: |g| <= gmax and the slew-rate limit (inequalities over ceil-rounded runtime values), k-space increments of spokes_grad.
"""
import ast
from fractions import Fraction

from .. import terms as T
from ..domains import ANY_, ZERO_, Endpoints
from ..model import AnchorMissing, Unrecognised, calls_in, unparse
from ..paths import enumerate_paths
from ..vn import NONE, VN, State, cond_text

# parameters of the two designers (API names); local names never matter below
SCALARS = {"area", "dt", "gmax", "dgdt"}

REF_SPOKES = """
n_spokes = k.shape[0]
area = tbw / (sl_thick / 10) / 4257
[subgz, nramp] = min_trap_grad(area, gmax, dgdtmax, gts)
gxarea = np.diff(np.concatenate((k[:, 0], np.zeros(1)))) / 4257
gyarea = np.diff(np.concatenate((k[:, 1], np.zeros(1)))) / 4257
for ii in range(n_spokes):
    if np.absolute(gxarea[ii]) > 0:
        [gblip, _] = trap_grad(abs(gxarea[ii]), gmax, dgdtmax, gts)
    if np.absolute(gyarea[ii]) > 0:
        [gblip, _] = trap_grad(abs(gyarea[ii]), gmax, dgdtmax, gts)
[gref, _] = trap_grad(gts * np.sum(subgz) / 2, gmax, dgdtmax, gts)
"""


REF_RAMPS = """
ramppts = int(np.ceil(np.max(flat) / dgdt / dt))
ramp_up = np.linspace(0, ramppts, num=ramppts + 1) / ramppts * np.max(flat)
ramp_dn = np.linspace(ramppts, 0, num=ramppts + 1) / ramppts * np.max(flat)
"""
REF_CAPPED = """
flat = np.ones((1, int(np.ceil(area / gmax / dt))))
flat = flat / np.sum(flat) * area / dt
"""


def _amp_slew(run, M, f, vn, o, pieces, ctext):
    up, flat, dn = pieces
    amp = T.app("max_of", flat)
    gmax = T.sym("gmax", real=True)
    guard = vn.compare(ast.LtE(), amp, gmax)
    guarded = any(c == guard for c in o.conds)
    capped = [r for r in VN(M, f, real=SCALARS, scalars=SCALARS).run(ast.parse(REF_CAPPED).body, State()) if r.status == "live"]
    is_capped = len(capped) == 1 and isinstance(capped[0].env.get("flat"), T.Poly) and T.eq(flat, capped[0].env["flat"])
    run.check(guarded or is_capped, "Z4", "min_trap_grad plateau[%s]" % ctext[:60], f.loc(), "plateau guarded by max(flat) <= gmax or built with ceil(area/gmax/dt) samples",
              "min_trap_grad: on the path [%s] the plateau %s is neither checked against gmax (no `max(flat) > gmax` test on this path) nor built with ceil(area/gmax/dt) "
              "samples: its amplitude area/(n*dt) can exceed gmax (the discretised count n may round below area/(gmax*dt))" % (ctext[:160], T.show(flat, 160)),
              stmt="Z4:" + ctext[:80])
    ref = [r for r in VN(M, f, real=SCALARS, scalars=SCALARS).run(ast.parse(REF_RAMPS).body, State({"flat": flat})) if r.status == "live"]
    ok = len(ref) == 1 and isinstance(up, T.Poly) and isinstance(dn, T.Poly) and T.eq(up, ref[0].env["ramp_up"]) and T.eq(dn, ref[0].env["ramp_dn"])
    run.check(ok, "Z5", "min_trap_grad ramps[%s]" % ctext[:60], f.loc(), "ramps rise to exactly max(plateau) in ceil(A/dgdt/dt) steps",
              "min_trap_grad: on the path [%s] the ramps are %s / %s; expected linspace(0, R, R+1)/R*A and its mirror with A = max(plateau) and R = ceil(A/dgdt/dt) "
              "(otherwise the waveform jumps at the plateau or a ramp step exceeds dgdt*dt)" % (ctext[:100], T.show(up, 200), T.show(dn, 120)), stmt="Z5:" + ctext[:80])


# ------------------------------------------------------------------------------------------ Z7 / Z8: trap_grad, trapezoid regime
def _atoms_of(p):
    return [(a, e) for m in p.t for a, e in m]


def _is_integer_valued(p):
    """sums/products of integers and of int()/ceil()/floor()/floordiv() values"""
    for m, c in p.t.items():
        if c[1] != 0 or c[0].denominator != 1:
            return False
        for a, e in m:
            if e < 0 or e.denominator != 1:
                return False
            if not (a[0] == "app" and a[1] in ("int", "ceil", "floor", "floordiv", "len")):
                return False
    return True


ROUNDINGS = ("int", "ceil", "floor", "floordiv")


def _relax_atom(a):
    """a term provably <= the rounding atom `a` (exponent 1): int(n) = n for integer-valued n (else > n - 1), ceil(x) >= x, floor(x) >= x - 1,
    floordiv(x, k) >= x/k - 1 for k > 0; applied again while the result is itself a positive multiple of a single rounding"""
    arg = T.dec(a[2][0])
    if not isinstance(arg, T.Poly):
        return None
    if a[1] == "ceil":
        lb = arg
    elif a[1] == "int":
        lb = arg if _is_integer_valued(arg) else T.sub(arg, T.const(1))
    elif a[1] == "floor":
        lb = T.sub(arg, T.const(1))
    else:
        k = T.dec(a[2][1])
        kf = k.as_fraction() if isinstance(k, T.Poly) else None
        if kf is None or kf <= 0:
            return None
        lb = T.sub(T.scale(arg, 1 / kf), T.const(1))
    if len(lb.t) == 1:
        (m, c), = lb.t.items()
        rs = [(a2, e2) for a2, e2 in m if a2[0] == "app" and a2[1] in ROUNDINGS]
        if len(rs) == 1 and len(m) == 1 and rs[0][1] == 1 and c[1] == 0 and c[0] > 0:
            inner = _relax_atom(rs[0][0])
            if inner is not None:
                return T.scale(inner, c[0])
    return lb


def _lower_bounds(p):
    """candidate terms provably <= p: each top-level rounding atom (positive coefficient, exponent 1, alone in its monomial up to positive
    parameters) is either kept exact or relaxed by _relax_atom; roundings nested inside a relaxed argument stay exact, so that they can cancel
    against other occurrences"""
    tops = []
    for m, c in p.t.items():
        for a, e in m:
            if a[0] == "app" and a[1] in ROUNDINGS and a not in tops:
                tops.append(a)
    tops = tops[:4]
    out = []
    for mask in range(1 << len(tops)):
        chosen = [a for i, a in enumerate(tops) if mask >> i & 1]
        cand = T.const(0)
        ok = True
        for m, c in p.t.items():
            term = T.Poly({frozenset(): c})
            for a, e in m:
                ap = T.Poly({frozenset({(a, e)}): T.ONE})
                if a in chosen:
                    others_pos = all((a2[0] == "sym" and a2[1] in SCALARS) or a2 is a for a2, _ in m)
                    if e != 1 or c[1] != 0 or c[0] <= 0 or not others_pos:
                        ok = False
                        break
                    ap = _relax_atom(a)
                    if ap is None:
                        ok = False
                        break
                term = T.mul(term, ap)
            if not ok:
                break
            cand = T.add(cand, term)
        if ok:
            out.append(cand)
    return out


def _lower_bound(p):
    c = _lower_bounds(p)
    return c[-1] if c else None


def _provably_nonneg(p):
    """every monomial has a positive real coefficient and consists of the positive parameters (and rounded values of them)"""
    if p.is_zero():
        return True
    for m, c in p.t.items():
        if c[1] != 0 or c[0] < 0:
            return False
        for a, e in m:
            if a[0] == "sym" and a[1] in SCALARS:
                continue
            if a[0] == "app" and a[1] in ("int", "ceil", "abs"):
                continue
            return False
    return True


def _piece_stats(pc):
    """(sum, first sample, last sample, step) of a waveform piece: k*linspace(a, b, num=n) or ones(n); None if unreadable"""
    if len(pc.t) != 1:
        return None
    (m, c), = pc.t.items()
    arr = [(a, e) for a, e in m if a[0] == "app" and a[1] in ("call:numpy.linspace", "call:numpy.ones")]
    if len(arr) != 1 or arr[0][1] != 1:
        return None
    a = arr[0][0]
    k = T.Poly({frozenset(x for x in m if x[0] is not a): c})
    args = [T.dec(x) for x in a[2]]
    if a[1] == "call:numpy.ones":
        if len(args) != 1 or not isinstance(args[0], T.Poly):
            return None
        return {"sum": T.mul(k, args[0]), "first": k, "last": k, "step": T.const(0), "n": args[0]}
    if len(args) != 3 or not all(isinstance(x, T.Poly) for x in args):
        return None
    na = args[2].single_atom()
    if na is None or na[0] != "app" or na[1] != "kw:num":
        return None
    n = T.dec(na[2][0])
    lo, hi = args[0], args[1]
    # sum of n equally spaced samples from lo to hi is n (lo + hi) / 2 ; consecutive samples differ by (hi - lo) / (n - 1)
    return {"sum": T.mul(k, T.scale(T.mul(n, T.add(lo, hi)), Fraction(1, 2))), "first": T.mul(k, lo), "last": T.mul(k, hi),
            "step": T.mul(k, T.mul(T.sub(hi, lo), T.power(T.sub(n, T.const(1)), -1))), "n": n}


def _z7(run, f, o, wave, ctext):
    """trapezoid regime of trap_grad: unit pulse = ramp up to 1, N ones, ramp down; returned = pulse * area / (sum(pulse) dt).
    |g| <= gmax  <=>  gmax dt sum(pulse) >= area, proved with the lower bound of N;  slew: the ramp step is amplitude / R with R >= gmax/(dgdt dt)."""
    gmax, dgdt, dt, area = (T.sym(n_, real=True) for n_ in ("gmax", "dgdt", "dt", "area"))
    if len(wave.t) != 1:
        return False
    (m, c), = wave.t.items()
    cat = [(a, e) for a, e in m if a[0] == "app" and a[1] == "call:numpy.concatenate"]
    if len(cat) != 1 or cat[0][1] != 1:
        return False
    pieces = T.dec(cat[0][0][2][0])
    if not (isinstance(pieces, tuple) and all(isinstance(x, T.Poly) for x in pieces)):
        return False
    has_flat = any(a[0] == "app" and a[1] == "call:numpy.ones" for pc in pieces for a, _ in _atoms_of(pc))
    if not has_flat:
        return False      # the triangle regime (two ramps, no flat top) is not decided
    stats = [_piece_stats(pc) for pc in pieces]
    if any(s_ is not None and s_["step"] == T.const(0) and isinstance(s_["n"], T.Poly) and s_["n"].is_zero() for s_ in stats):
        return False      # a flat top of zero samples: the triangle regime spelled with np.ones(0)
    label = "trap_grad trapezoid[%s]" % ctext[:50]
    if len(pieces) != 3 or any(s_ is None for s_ in stats) or stats[1]["step"] != T.const(0):
        run.bad("Z7", label, f.loc(), "trap_grad: on the path [%s] the unit pulse is not ramp / flat top / ramp built from linspace and ones: %s" % (ctext[:100], T.show(wave, 200)),
                stmt="Z7:form:" + ctext[:60])
        return True
    scale = T.Poly({frozenset(x for x in m if x[0] is not cat[0][0] and not (x[0][0] == "app" and x[0][1] == "sum")): c})
    total = T.add(T.add(stats[0]["sum"], stats[1]["sum"]), stats[2]["sum"])
    one = T.const(1)
    shape_ok = stats[0]["first"].is_zero() and stats[2]["last"].is_zero() and T.eq(stats[0]["last"], one) and T.eq(stats[2]["first"], one) and T.eq(stats[1]["first"], one) \
        and T.eq(scale, T.mul(area, T.power(dt, -1)))
    run.check(shape_ok, "Z7", label + " shape", f.loc(), "unit pulse rises 0 -> 1, stays at 1, falls 1 -> 0 and is scaled by area / (sum(pulse) dt)",
              "trap_grad: on the path [%s] the pulse pieces run %s -> %s, %s, %s -> %s and the scale is %s / sum(pulse); expected 0 -> 1, 1, 1 -> 0 and area/dt" % (
                  ctext[:80], T.show(stats[0]["first"], 40), T.show(stats[0]["last"], 40), T.show(stats[1]["first"], 40), T.show(stats[2]["first"], 40),
                  T.show(stats[2]["last"], 40), T.show(scale, 60)), stmt="Z7:shape:" + ctext[:60])
    if not shape_ok:
        return True
    cands = [T.sub(T.mul(T.mul(gmax, dt), lb), area) for lb in _lower_bounds(total)]
    good = [d_ for d_ in cands if _provably_nonneg(d_)]
    d = good[0] if good else (cands[-1] if cands else None)
    ok = bool(good)
    run.check(ok, "Z7", label + " amplitude", f.loc(), "gmax*dt*sum(pulse) - area >= %s >= 0, so the plateau area/(sum(pulse) dt) <= gmax" % (T.show(d, 60) if d is not None else "?"),
              "trap_grad: on the trapezoid path [%s] the plateau amplitude is area/(sum(pulse)*dt) with sum(pulse) = %s; the best provable lower bound of gmax*dt*sum(pulse) - area is %s, "
              "which is not >= 0: the flat top can be too short (its sample count must round the required length UP), so the rescaled plateau exceeds gmax" % (
                  ctext[:80], T.show(total, 200), T.show(d, 120) if d is not None else "not available (a rounding that is not a ceil of the required length)"),
              stmt="Z7:amp:" + ctext[:60])
    # slew: inside a ramp consecutive samples differ by amplitude * |step|, with |step| = 1/R ; amplitude <= gmax (above)
    step = stats[0]["step"]
    c2 = [T.sub(T.mul(T.mul(dgdt, dt), r_), gmax) for r_ in (_lower_bounds(T.power(step, -1)) if len(step.t) == 1 else [])]
    ok2 = ok and any(_provably_nonneg(d_) for d_ in c2) and T.eq(stats[2]["step"], T.neg(step))
    run.check(ok2, "Z8", label + " slew", f.loc(), "ramp step = amplitude / R with R >= gmax/(dgdt dt), so |dg| <= dgdt dt between samples (plateau joins at the same value)",
              "trap_grad: on the trapezoid path [%s] a ramp changes by amplitude * %s per sample; with amplitude up to gmax this is not provably <= dgdt*dt "
              "(the ramp needs at least gmax/(dgdt dt) samples, or the amplitude bound Z7 failed)" % (ctext[:80], T.show(step, 80)), stmt="Z8:" + ctext[:60])
    return True


def _infeasible(p, f):
    """a syntactic path that cannot end in a return: it branches against the constant just assigned to the tested variable, or it tests
    a local that no statement on the path has assigned (UnboundLocalError at run time)"""
    params = set(a.lstrip("*") for a in f.all_params)
    const = {}
    assigned = set(params)
    for kind, n in p.events:
        if kind == "stmt":
            if isinstance(n, ast.Assign):
                for t in n.targets:
                    for x in ast.walk(t):
                        if isinstance(x, ast.Name):
                            assigned.add(x.id)
                            const.pop(x.id, None)
                    if isinstance(t, ast.Name) and isinstance(n.value, ast.Constant):
                        const[t.id] = n.value.value
            elif isinstance(n, (ast.AugAssign, ast.AnnAssign)) and isinstance(n.target, ast.Name):
                assigned.add(n.target.id)
                const.pop(n.target.id, None)
        elif kind in ("true", "false") and getattr(n, "test", None) is not None:
            test = n.test
            while isinstance(test, ast.UnaryOp) and isinstance(test.op, ast.Not):
                test = test.operand
                kind = "false" if kind == "true" else "true"
            if not isinstance(test, ast.Name):
                continue
            v = test.id
            if v in const and bool(const[v]) != (kind == "true"):
                return True
            if v not in assigned:
                return True
    return False


def check(run, M, tier):
    run.level = "proof"
    run.rule("Z1", "endpoint domain {Z,?}^2: every waveform returned on a positive-area path of trap_grad / min_trap_grad starts and ends at 0")
    run.rule("Z2", "sum(trap)*dt == area (trap_grad) and sum(flat)*dt == area with flat the middle piece (min_trap_grad), by linearity of sum over scalar factors")
    run.rule("Z4", "min_trap_grad plateau <= gmax: the returned plateau is either guarded by `not max(flat) > gmax` on its path or has ceil(area/gmax/dt) samples "
                   "(amplitude area/(n dt) <= gmax because n >= area/(gmax dt))")
    run.rule("Z5", "min_trap_grad ramps: linspace(0..R)/R*A and its mirror with A = max(plateau) (no jump at the plateau) and R = ceil(A/dgdt/dt) (step A/R <= dgdt*dt)")
    run.rule("Z6", "the designers are plain functions: no memoising decorator hands the same waveform array to several callers")
    run.trust("arithmetic fact: for X > 0, ceil(X) >= X, hence Y / ceil(Y / L) <= L")
    run.rule("Z3", "spokes_grad builds its slice-select lobes from min_trap_grad and its blips / refocusing lobe from trap_grad with the documented areas")
    run.rule("Z7", "trap_grad, trapezoid regime: the returned plateau area/(sum(pulse) dt) is <= gmax because gmax*dt*sum(pulse) >= area follows from the flat-top "
                   "sample count being the required length rounded up (lemma ceil(x) >= x)")
    run.rule("Z8", "trap_grad, trapezoid regime: ramps change by amplitude/R per sample with R = ceil(gmax/(dgdt dt)), and the plateau joins them at the same value")
    n_trapezoid = []
    for q in ("sigpy.mri.rf.trajgrad.trap_grad", "sigpy.mri.rf.trajgrad.min_trap_grad"):
        f = M.func(q)
        name = q.split(".")[-1]
        # ---- Z1 : path-wise endpoint analysis
        n_pos = 0
        for p in enumerate_paths(f.body):
            if p.end != "return":
                continue
            decisions = {unparse(n.test): k for k, n in p.events if k in ("true", "false")}
            # decisions as terms in the comparison normal form (`not c`, `0 < abs(area)` ... all denote the same condition)
            from ..vn import negate
            dterms = []
            for k, n in p.events:
                if k in ("true", "false"):
                    try:
                        from ..model import expand_temps
                        t_ = VN(M, f, real=SCALARS)._as_term(VN(M, f, real=SCALARS).ev(expand_temps(f.node, n.test), State()))
                    except Unrecognised:
                        continue
                    dterms.append(T.show(t_ if k == "true" else negate(t_), 200))
            if "pos(abs(area))" not in dterms:
                continue
            if _infeasible(p, f):
                continue  # e.g. trap_grad's ramp-sampling flag is the constant 1 whenever it is bound; the other arm cannot be reached with a return
            n_pos += 1
            ep = Endpoints(M, f)
            ep.run_block(p.stmts())
            ret = p.end_node.value
            val = ep.v(ret.elts[0]) if isinstance(ret, ast.Tuple) else ep.v(ret)
            label = "%s[%s]" % (name, " and ".join(sorted(d for d in dterms if d != "pos(abs(area))"))[:70])
            run.check(val == (ZERO_, ZERO_), "Z1", label, f.loc(p.end_node), "returned waveform has zero first and last sample",
                      "%s: on the positive-area path [%s] the returned waveform has endpoints %s (Z = provably zero): it need not start/end at zero"
                      % (name, ", ".join("%s -> %s" % kv for kv in sorted(decisions.items())), val), stmt="Z1:%s:%s" % (name, sorted(dterms)))
        # a regime switch factored out into a private helper still counts: paths of the helpers this function calls multiply its own
        extra = 1
        for n_ in ast.walk(f.node):
            if isinstance(n_, ast.Call):
                tg_ = M.resolve_call(f, n_)
                if tg_[0] == "repo" and tg_[1].mod is f.mod and tg_[1].qual != f.qual and tg_[1].name.startswith("_"):
                    extra = max(extra, len([p_ for p_ in enumerate_paths(tg_[1].body) if p_.end == "return"]))
        run.floor("Z1-" + name, 2, n_pos * extra, "positive-area returning paths of " + name)
        # ---- Z2 : exact area
        vn = VN(M, f, real=SCALARS, scalars=SCALARS | {"np.pi"})
        outs = [o for o in vn.run(f.body, State()) if o.status == "return"]
        area, dt = T.sym("area", real=True), T.sym("dt", real=True)
        n_area = 0
        local_syms = {x.id for x in ast.walk(f.node) if isinstance(x, ast.Name) and isinstance(x.ctx, ast.Store)} - set(f.params)
        for o in outs:
            ctext = cond_text(o.conds)
            if not any(T.show(c, 200) == "pos(abs(area))" for c in o.conds):
                continue
            # a path whose condition mentions a local as a free symbol read that local before any assignment (UnboundLocalError): not a returning path
            if any(T.symbols(c) & local_syms for c in o.conds):
                continue
            wave = o.ret[0] if isinstance(o.ret, tuple) and o.ret else None   # np.expand_dims(w, axis=0) is w for the term algebra
            if not isinstance(wave, T.Poly):
                continue
            if name == "trap_grad":
                n_area += 1
                if _z7(run, f, o, wave, ctext):
                    n_trapezoid.append(ctext)
                tot = T.mul(vn.lin_sum(wave), dt)
                run.check(T.eq(tot, area), "Z2", "trap_grad area[%s]" % ctext[:60], f.loc(), "sum(returned waveform)*dt == area",
                          "trap_grad: on the path [%s] sum(waveform)*dt normalises to %s, not to the requested area" % (ctext[:120], T.show(tot, 200)), stmt="Z2:trap:" + ctext[:80])
            else:
                a = wave.single_atom()
                pieces = T.dec(a[2][0]) if a is not None and a[0] == "app" and a[1] == "call:numpy.concatenate" else None
                okm = isinstance(pieces, tuple) and len(pieces) == 3 and isinstance(pieces[1], T.Poly)
                run.check(okm, "Z2", "min_trap_grad flat top[%s]" % ctext[:60], f.loc(), "the waveform is concatenate(ramp_up, flat, ramp_dn)",
                          "min_trap_grad: the returned waveform is %s; expected concatenate(ramp_up, flat, ramp_dn)" % T.show(wave, 200), stmt="Z2:mid:" + ctext[:80])
                n_area += 1
                if not okm:
                    continue
                _amp_slew(run, M, f, vn, o, pieces, ctext)
                tot = T.mul(vn.lin_sum(pieces[1]), dt)
                run.check(T.eq(tot, area), "Z2", "min_trap_grad flat area[%s]" % ctext[:60], f.loc(), "sum(flat top)*dt == area",
                          "min_trap_grad: on the path [%s] sum(flat top)*dt normalises to %s, not to the requested area" % (ctext[:120], T.show(tot, 200)), stmt="Z2:flat:" + ctext[:80])
        run.floor("Z2-" + name, 2, n_area, "area identities of " + name)
        if name == "trap_grad":
            run.floor("Z7", 1, len(n_trapezoid), "trapezoid-regime paths of trap_grad")
    # ---- Z6 (module-wide part)
    from ..common import check_no_memoisation
    check_no_memoisation(run, M, "Z6", ["sigpy.mri.rf.trajgrad"], "a cached waveform array is shared by all callers with equal arguments, so an in-place rescale or sign flip "
                         "by one caller changes what later calls return")
    # ---- Z6
    for q in ("sigpy.mri.rf.trajgrad.trap_grad", "sigpy.mri.rf.trajgrad.min_trap_grad"):
        f = M.func(q)
        caching = [unparse(d) for d in f.node.decorator_list
                   if any(w in unparse(d.func if isinstance(d, ast.Call) else d).lower() for w in ("cache", "memo"))]
        run.check(not caching, "Z6", q.split(".")[-1] + " decorators", f.loc(), "no memoising decorator",
                  "%s is decorated with %s: every call with equal arguments returns the *same* array object, so a caller that rescales or sign-flips its waveform in "
                  "place changes what all later calls return (requested area / k-space increment no longer met)" % (q.split(".")[-1], caching), stmt="Z6:" + q)
    # ---- Z3 spokes
    f = M.func("sigpy.mri.rf.trajgrad.spokes_grad")
    from ..vn import iter_once_loop

    def calls_of(stmts):

        def h(vn_, call, st):
            if isinstance(call.func, ast.Name) and call.func.id in ("min_trap_grad", "trap_grad"):
                tgt = M.func("sigpy.mri.rf.trajgrad." + call.func.id)
                b_ = M.bind(call, tgt)
                terms = {p_: vn_._as_term(vn_.ev(n_, st)) for p_, n_ in b_.items() if not isinstance(n_, (list, dict))}
                key = (call.func.id,) + tuple(sorted((p_, repr(T.enc(t_))) for p_, t_ in terms.items()))
                got[key] = call.func.id + "(" + ", ".join("%s=%s" % (p_, T.show(t_, 90)) for p_, t_ in sorted(terms.items())) + ")"
                return None
            return None
        got = {}
        from ..vn import unroll_loop

        def hook2(vn_, s_, st_):
            r_ = unroll_loop(vn_, s_, st_)   # a loop over a literal tuple of (buffer, area) pairs is the statements it abbreviates
            return r_ if r_ is not None else iter_once_loop(vn_, s_, st_)
        VN(M, f, call_hook=h, loop_hook=hook2).run(stmts, State())
        return got
    try:
        cs = calls_of([s_ for s_ in f.body if not isinstance(s_, ast.Return)])
    except Unrecognised:
        cs = None
    want = calls_of(ast.parse(REF_SPOKES).body)
    run.check(cs is not None and sorted(cs) == sorted(want), "Z3", "spokes_grad pieces", f.loc(), "slice-select lobes from min_trap_grad(tbw/(sl_thick/10)/4257), blips trap_grad(|diff(k)/4257|) and the refocusing lobe "
              "trap_grad(gts*sum(subgz)/2), hardware limits forwarded",
              "spokes_grad designs its pieces with %s ; documented %s" % (sorted((cs or {}).values()), sorted(want.values())), stmt="Z3:pieces")
    ctl = ast.parse("import numpy as np\ndef ctl(n):\n    r = np.linspace(1, n, num=n) / n\n    return np.concatenate((r, r))\n")
    import copy
    from ..model import Mod
    M2 = copy.copy(M)
    M2.mods, M2.funcs, M2.classes = dict(M.mods), dict(M.funcs), dict(M.classes)
    mod = Mod("sigpy._ctl_ep", "<control>", "", ctl, ctl, 0)
    M2.mods[mod.name] = mod
    M2._index_imports(mod)
    M2._collect(mod, ctl, mod.name, None, None)
    cf = M2.funcs["sigpy._ctl_ep.ctl"]
    ep = Endpoints(M2, cf)
    ep.run_block(cf.body[:-1])
    run.control("Z1", "ramp starting at 1", True, ep.v(cf.body[-1].value) != (ZERO_, ZERO_))
