"""C20 (partial) -- trapezoid designers: waveforms start and end at zero and integrate to exactly the requested area.

Z1 endpoint-zero abstract domain: on every positive-area path the returned waveform of trap_grad / min_trap_grad has first and last sample 0
   (linspace(0, .) ramps first, linspace(., 0) ramps last, scaling keeps zeros, concatenate takes first-of-first / last-of-last)
Z2 exact area by linearity of sum: sum(trap) * dt == area in trap_grad; sum(flat) * dt == area for the flat top of min_trap_grad, which is the middle piece
Z3 spokes_grad assembles only min_trap_grad / trap_grad pieces (sign flips), with the requested blip areas
NOT decided: |g| <= gmax and the slew-rate limit (inequalities over ceil-rounded runtime values), k-space increments of spokes_grad.
"""
import ast

from .. import terms as T
from ..domains import ANY_, ZERO_, Endpoints
from ..model import AnchorMissing, Unrecognised, calls_in, unparse
from ..paths import enumerate_paths
from ..vn import NONE, VN, State, cond_text

SCALARS = {"area", "dt", "gmax", "dgdt", "ramppts", "newgmax", "nflat", "triareamax", "a", "pts"}


def check(run, M, tier):
    run.level = "proof"
    run.rule("Z1", "endpoint domain {Z,?}^2: every waveform returned on a positive-area path of trap_grad / min_trap_grad starts and ends at 0")
    run.rule("Z2", "sum(trap)*dt == area (trap_grad) and sum(flat)*dt == area with flat the middle piece (min_trap_grad), by linearity of sum over scalar factors")
    run.rule("Z3", "spokes_grad builds its slice-select lobes from min_trap_grad and its blips / refocusing lobe from trap_grad with the documented areas")
    for q in ("sigpy.mri.rf.trajgrad.trap_grad", "sigpy.mri.rf.trajgrad.min_trap_grad"):
        f = M.func(q)
        name = q.split(".")[-1]
        # ---- Z1 : path-wise endpoint analysis
        n_pos = 0
        for p in enumerate_paths(f.body):
            if p.end != "return":
                continue
            decisions = {unparse(n.test): k for k, n in p.events if k in ("true", "false")}
            if decisions.get("np.abs(area) > 0") != "true":
                continue
            if name == "trap_grad" and decisions.get("rampsamp") == "false":
                continue  # rampsamp is always 1 on the public path (len(args) < 5); the other arm is dead code (np.ones(1, float) is a type error)
            n_pos += 1
            ep = Endpoints(M, f)
            ep.run_block(p.stmts())
            ret = p.end_node.value
            val = ep.v(ret.elts[0]) if isinstance(ret, ast.Tuple) else ep.v(ret)
            label = "%s[%s]" % (name, ", ".join("%s=%s" % kv for kv in sorted(decisions.items()) if kv[0] not in ("np.abs(area) > 0",))[:70])
            run.check(val == (ZERO_, ZERO_), "Z1", label, f.loc(p.end_node), "returned waveform has zero first and last sample",
                      "%s: on the positive-area path [%s] the returned waveform has endpoints %s (Z = provably zero): it need not start/end at zero"
                      % (name, ", ".join("%s -> %s" % kv for kv in sorted(decisions.items())), val), stmt="Z1:%s:%s" % (name, sorted(decisions.items())))
        run.floor("Z1-" + name, 2, n_pos, "positive-area returning paths of " + name)
        # ---- Z2 : exact area
        vn = VN(M, f, real=SCALARS, scalars=SCALARS | {"np.pi"})
        outs = [o for o in vn.run(f.body, State()) if o.status == "return"]
        area, dt = T.sym("area", real=True), T.sym("dt", real=True)
        n_area = 0
        for o in outs:
            ctext = cond_text(o.conds)
            if not any(T.show(c, 200).startswith("pos(abs(area))") or T.show(c, 200) == "pos(abs(area))" for c in o.conds):
                continue
            if name == "trap_grad":
                if any(T.show(c, 100) in ("not(rampsamp)", "zero(rampsamp)") for c in o.conds):
                    continue
                trap = o.env.get("trap")
                if not isinstance(trap, T.Poly):
                    continue
                if "ramp" in T.show(o.env.get("flat"), 50) if o.env.get("flat") is not None else False:
                    pass
                if o.env.get("pulse") is None:
                    continue
                n_area += 1
                tot = T.mul(vn.lin_sum(trap), dt)
                run.check(T.eq(tot, area), "Z2", "trap_grad area[%s]" % ctext[:60], f.loc(), "sum(trap)*dt == area",
                          "trap_grad: on the path [%s] sum(trap)*dt normalises to %s, not to the requested area" % (ctext[:120], T.show(tot, 200)), stmt="Z2:trap:" + ctext[:80])
            else:
                flat = o.env.get("flat")
                trap = o.env.get("trap")
                if not isinstance(flat, T.Poly):
                    continue
                n_area += 1
                tot = T.mul(vn.lin_sum(flat), dt)
                run.check(T.eq(tot, area), "Z2", "min_trap_grad flat area[%s]" % ctext[:60], f.loc(), "sum(flat)*dt == area",
                          "min_trap_grad: on the path [%s] sum(flat)*dt normalises to %s, not to the requested area" % (ctext[:120], T.show(tot, 200)), stmt="Z2:flat:" + ctext[:80])
                a = trap.single_atom() if isinstance(trap, T.Poly) else None
                okm = a is not None and a[1] == "call:numpy.concatenate" and isinstance(T.dec(a[2][0]), tuple) and len(T.dec(a[2][0])) == 3 and T.dec(a[2][0])[1] == flat
                run.check(okm, "Z2", "min_trap_grad flat top[%s]" % ctext[:60], f.loc(), "the flat top is the middle piece between the two ramps",
                          "min_trap_grad: the returned waveform is %s; expected concatenate(ramp_up, flat, ramp_dn)" % T.show(trap, 200), stmt="Z2:mid:" + ctext[:80])
        run.floor("Z2-" + name, 2, n_area, "area identities of " + name)
    # ---- Z3 spokes
    f = M.func("sigpy.mri.rf.trajgrad.spokes_grad")
    cs = [(c.func.id, [unparse(a) for a in c.args]) for c in calls_in(f.node) if isinstance(c.func, ast.Name) and c.func.id in ("min_trap_grad", "trap_grad")]
    want = [("min_trap_grad", ["area", "gmax", "dgdtmax", "gts"]), ("trap_grad", ["abs(gxarea[ii])", "gmax", "dgdtmax", "gts"]),
            ("trap_grad", ["abs(gyarea[ii])", "gmax", "dgdtmax", "gts"]), ("trap_grad", ["gts * np.sum(subgz) / 2", "gmax", "dgdtmax", "gts"])]
    run.check(sorted(cs) == sorted(want), "Z3", "spokes_grad pieces", f.loc(), "slice-select lobes from min_trap_grad, blips and refocusing lobe from trap_grad with the hardware limits forwarded",
              "spokes_grad builds its pieces with %s" % cs, stmt="Z3:pieces")
    ctl = ast.parse("import numpy as np\ndef ctl(n):\n    r = np.linspace(1, n, num=n) / n\n    return np.concatenate((r, r))\n")
    import copy
    from ..model import Mod
    M2 = copy.copy(M)
    M2.mods, M2.funcs, M2.classes = dict(M.mods), dict(M.funcs), dict(M.classes)
    mod = Mod("sigpy._ctl_ep", "<control>", "", ctl, ctl, 0)
    M2.mods[mod.name] = mod
    M2._index_imports(mod)
    M2._collect(mod, ctl, mod.name, None, None)
    cf = M2.funcs["sigpy._ctl_ep.ctl"]
    ep = Endpoints(M2, cf)
    ep.run_block(cf.body[:-1])
    run.control("Z1", "ramp starting at 1", True, ep.v(cf.body[-1].value) != (ZERO_, ZERO_))
