"""C02 -- operators are C-linear, deterministic, and nothing mutates its inputs.

M1 effect analysis: no public array function / _apply / _prox writes through an alias of an
   array parameter or of an array captured on self (documented out-parameters excepted).
M2 purity: no self.* writes and no RNG inside _apply / _prox; H / N write only their cache slot.
M3 C-linearity typing of every value returned by a Linop._apply.
M4 determinism = M2 + M1 on captured arrays.
M5 no uninitialised buffer (empty / empty_like) can reach a returned value unless it is provably overwritten in full.
Not decided: bit-level determinism of numpy itself.
"""
import ast
import re

from ..effects import DOCUMENTED_OUT, Analyzer, Effects
from ..linearity import A, K, L, N, Z, Lin
from ..model import AnchorMissing, unparse

LINOP = "sigpy.linop.Linop"
PROX = "sigpy.prox.Prox"
PUBLIC_MODULES = ["sigpy.util", "sigpy.fourier", "sigpy.interp", "sigpy.conv", "sigpy.block", "sigpy.wavelet",
                  "sigpy.thresh", "sigpy.mri.util"]

# positive / negative controls (tiny embedded programs the rules must judge correctly on every run)
CONTROL_SRC = '''
import numpy as np
from sigpy import backend, util

def ctl_mutates(input):
    """Args:
        input (array): x.
    """
    x = input.reshape([-1])
    x -= 1
    return x

def ctl_pure(input):
    """Args:
        input (array): x.
    """
    x = input.copy()
    x -= 1
    return x

class CtlLinop:
    def _apply(self, input):
        return input.real * self.mult

class CtlLinopOk:
    def _apply(self, input):
        output = 0
        for linop in self.linops:
            output += linop(input) * self.mult
        return output
'''


def _load_known_docs():
    import json, os
    try:
        return json.load(open(os.path.join(os.path.dirname(os.path.abspath(__file__)), "..", "known_docs.json")))
    except OSError:
        return {}


_KNOWN_DOCS = _load_known_docs()


def array_params(func):
    """parameters documented (Args:) as arrays; for _apply/_prox the data parameters"""
    doc = func.docstring
    out = set()
    for p in func.params:
        m = re.search(r"^\s*%s\s*\(([^)]*)\)" % re.escape(p), doc, re.M)
        if m and "array" in m.group(1).lower():
            out.add(p)
    out |= set(_KNOWN_DOCS.get("array_params", {}).get(func.qual, ())) & set(func.params)   # what the pinned documentation said (survives docstring rewrites)
    if func.name == "_apply":
        out.add("input")
    if func.name == "_prox":
        out |= {"input", "alpha"}
    if func.name == "__call__" and "input" in func.params:
        out.add("input")
    return out


def check(run, M, tier):
    run.rule("M1", "no write through an alias of an array parameter or captured array in any public array function, "
                   "_apply or _prox (interprocedural may-alias + mutation summaries; documented out-parameters excepted)")
    run.rule("M2", "_apply/_prox assign no self.* attribute and reach no numpy.random call; Linop.H/N write only their cache slot")
    run.rule("M5", "an array allocated with empty/empty_like is either used only for its shape, overwritten in full (buf[...] = / buf[:] = / copyto(buf, .)) "
                   "before use, or allocated at a site whose full coverage is established elsewhere (table with reasons); otherwise uninitialised memory can "
                   "reach an output and equal inputs need not give equal outputs")
    run.rule("M3", "every value returned by a Linop._apply is C-linear in the input under the {Z,K,L,A,N} typing")
    eff = Effects(M)
    run.count("effect_fixpoint_rounds", eff.rounds)

    # ---------------------------------------------------------------- entry points
    entries = []
    linops = [c for c in M.subclasses(LINOP) if c.mod.name == "sigpy.linop"]
    proxes = M.subclasses(PROX)
    for c in linops:
        f = M.method(c, "_apply", inherit=False)
        if f is not None:
            entries.append(f)
    for c in proxes:
        f = M.method(c, "_prox", inherit=False)
        if f is not None:
            entries.append(f)
    n_ops = len(entries)
    pub = []
    mods = list(PUBLIC_MODULES)
    if tier == "thorough":
        # whole package: every module that declares __all__ (mri, rf, sim, ... included)
        mods += [mn for mn, mm in sorted(M.mods.items()) if mm.all is not None and mn not in PUBLIC_MODULES and not mm.is_pkg
                 and mn not in ("sigpy.backend", "sigpy.pytorch", "sigpy.plot")]
    for mn in mods:
        mod = M.mod(mn)
        if mod.all is None:
            raise AnchorMissing("__all__ of %s" % mn)
        extra_scope = mn not in PUBLIC_MODULES
        for name in mod.all:
            q = mn + "." + name
            if q in M.funcs:
                pub.append(M.funcs[q])
    pub_arr = [f for f in pub if array_params(f)]
    run.floor("M1", 36, len([e for e in entries if e.name == "_apply"]), "Linop._apply bodies")
    run.floor("M2", 11, len([e for e in entries if e.name == "_prox"]), "Prox._prox bodies")
    run.floor("M1-public", 30, len(pub_arr), "public functions with array parameters")
    run.count("entry_points", len(entries) + len(pub_arr))

    # ---------------------------------------------------------------- M1
    for f in entries + pub_arr:
        sm = eff.of(f.qual)
        arr = array_params(f)
        bad = False
        if f.name not in ("_apply", "_prox") and f.mod.name not in PUBLIC_MODULES:
            # thorough tier, modules outside the property's quantifier (sigpy + sigpy.mri.util): observation only
            hits = [p for p in sorted(sm.mut) if p in arr and (f.qual, p) not in DOCUMENTED_OUT]
            if hits:
                run.info("outside C02's quantifier: %s modifies its array argument(s) %s in place (%s)" % (f.qual, hits, f.loc()))
            else:
                run.ok("M1-wide", f.qual, "no write reaches an array parameter (whole-package scan)", f.loc())
            continue
        for p in sorted(sm.mut):
            if p not in arr:
                continue
            if (f.qual, p) in DOCUMENTED_OUT:
                run.ok("M1", f.qual, "mutation of `%s` is the documented out-parameter (%s)" % (p, DOCUMENTED_OUT[(f.qual, p)]), f.loc())
                continue
            for node, why in _dedupe(sm.detail.get(("P", p), [])):
                bad = True
                run.bad("M1", f.qual, f.loc(node),
                        "%s modifies the caller's array `%s`: %s" % (f.qual, p, why), stmt=node)
        if f.name in ("_apply", "_prox"):
            for a in sorted(sm.attr_mut):
                for node, why in _dedupe(sm.detail.get(("A", a), [])):
                    bad = True
                    run.bad("M1", f.qual, f.loc(node),
                            "%s modifies the array the operator was built from (self.%s): %s" % (f.qual, a, why), stmt=node)
        if not bad:
            run.ok("M1", f.qual, "no write reaches an array parameter%s (params %s)" % (
                " or captured attribute" if f.name in ("_apply", "_prox") else "", sorted(arr)), f.loc())

    # ---------------------------------------------------------------- M2
    for f in entries:
        sm = eff.of(f.qual)
        ok = True
        for attr, node in sm.selfsets:
            ok = False
            run.bad("M2", f.qual, f.loc(node), "%s writes operator state self.%s (`%s`): repeated application is no longer "
                    "guaranteed to give equal outputs" % (f.qual, attr, unparse(node)), stmt=node)
        for node in sm.rng:
            ok = False
            run.bad("M2", f.qual, f.loc(node), "%s reaches a random-number call (`%s`)" % (f.qual, unparse(node)), stmt=node)
        if ok:
            run.ok("M2", f.qual, "no self.* write, no RNG", f.loc())
    for prop, slot in (("H", "adj"), ("N", "normal")):
        f = M.method(M.cls(LINOP), prop)
        if f is None:
            raise AnchorMissing("Linop.%s" % prop)
        sm = eff.of(f.qual)
        others = [(a, n) for a, n in sm.selfsets if a != slot]
        run.check(not others and any(a == slot for a, _ in sm.selfsets), "M2", "Linop." + prop, f.loc(),
                  "writes only its cache slot self.%s" % slot,
                  "Linop.%s writes %s besides/instead of its cache slot self.%s" % (prop, [a for a, _ in others], slot),
                  stmt=f.node.body[-1])

    # ---------------------------------------------------------------- M3
    n_ret = 0
    for c in linops:
        f = M.method(c, "_apply", inherit=False)
        if f is None:
            continue
        lin = Lin(M, f)
        rets = lin.run()
        if not rets:
            run.error("M3: %s has no return statement" % f.qual)
        for node, k in rets:
            n_ret += 1
            if k in (L, Z):
                run.ok("M3", f.qual, "returned value `%s` is %s" % (_short(node), "C-linear" if k == L else "zero"), f.loc(node))
            else:
                what = {A: "anti-linear (conjugate-linear)", K: "independent of the input (not linear)", N: "not C-linear"}[k]
                run.bad("M3", f.qual, f.loc(node), "%s returns a value that is %s in the input: `%s`" % (f.qual, what, _short(node)), stmt=node)
    run.floor("M3", 38, n_ret, "return statements of Linop._apply")

    # ---------------------------------------------------------------- M5
    _m5(run, M)

    # ---------------------------------------------------------------- controls
    _controls(run, M)
    run.info("observation (outside the property statement): Communicator.allreduce and AllReduce(in_place=True) update their "
             "argument in place by documented design")


M5_SCOPE = ["sigpy.linop", "sigpy.prox", "sigpy.util", "sigpy.fourier", "sigpy.interp", "sigpy.conv", "sigpy.block", "sigpy.wavelet", "sigpy.thresh", "sigpy.mri.util"]
M5_COVERED = {
    "sigpy.linop._stack_output": "the buffer is filled by Vstack/Diag._apply through the slices [0:i1], [i1:i2], ..., [i_last:] that partition the stacking axis "
                                 "(C03 rules G2 and G5 establish the store list and the running-sum indices)",
}
CTL_M5 = """
def ctl_bad(input, oshape, sl):
    output = np.empty(oshape, dtype=input.dtype)
    output[sl] = input
    return output

def ctl_ok(input, oshape):
    output = np.empty(oshape, dtype=input.dtype)
    output[...] = input
    n = np.empty(oshape)[0].shape
    return output
"""


def _empty_sites(fnode, is_empty, resolve=None):
    """(call node, verdict, detail) for each empty/empty_like call in a function body"""
    parents = {}
    for n in ast.walk(fnode):
        for c in ast.iter_child_nodes(n):
            parents[c] = n
    out = []
    for n in ast.walk(fnode):
        if not (isinstance(n, ast.Call) and is_empty(n)):
            continue
        # used only for its shape: np.empty(s)[idx].shape / .ndim / len(...)
        p = parents.get(n)
        while isinstance(p, ast.Subscript) and p.value is not None:
            nxt = parents.get(p)
            if isinstance(nxt, ast.Attribute) and nxt.attr in ("shape", "ndim", "size"):
                p = nxt
                break
            p = nxt
        if isinstance(p, ast.Attribute) and p.attr in ("shape", "ndim", "size", "dtype"):
            out.append((n, "shape-only", "only the shape of the buffer is used"))
            continue
        p = parents.get(n)
        if isinstance(p, ast.Return):
            out.append((n, "returned", "the uninitialised buffer is returned to the caller"))
            continue
        name = None
        if isinstance(p, ast.Assign) and len(p.targets) == 1 and isinstance(p.targets[0], ast.Name):
            name = p.targets[0].id
        if name is None:
            out.append((n, "unknown", "the buffer is not bound to a plain local"))
            continue
        full = False
        for m in ast.walk(fnode):
            if getattr(m, "lineno", 0) < p.lineno:
                continue
            if isinstance(m, ast.Assign):
                for t in m.targets:
                    if isinstance(t, ast.Subscript) and isinstance(t.value, ast.Name) and t.value.id == name:
                        sl = t.slice
                        if (isinstance(sl, ast.Constant) and sl.value is Ellipsis) or (isinstance(sl, ast.Slice) and sl.lower is None and sl.upper is None and sl.step is None):
                            full = True
            if isinstance(m, ast.Call) and unparse(m.func).split(".")[-1] == "copyto" and m.args and isinstance(m.args[0], ast.Name) and m.args[0].id == name:
                full = True
            if isinstance(m, ast.Call) and _writes_all_of(m, {name}, resolve, 0):
                full = True
        out.append((n, "full" if full else "partial", "bound to `%s`" % name))
    return out


def _writes_all_of(call, names, resolve, depth):
    """does this call overwrite every element of the array held in one of `names`?  `ufunc(..., out=name)` does; so does a repository
    helper that does this to the parameter `name` is passed for (followed through `x = p if q is None else q` style aliases, depth <= 2)"""
    for k in call.keywords:
        if k.arg == "out" and isinstance(k.value, ast.Name) and k.value.id in names and isinstance(call.func, ast.Attribute) \
                and unparse(call.func).split(".")[0] in ("np", "xp", "numpy", "cp"):
            return True
    fn = resolve(call) if resolve is not None and depth < 2 else None
    if fn is None:
        return False
    ps = list(fn.params)
    passed = set()
    for p_, a_ in zip(ps, call.args):
        if isinstance(a_, ast.Name) and a_.id in names:
            passed.add(p_)
    for k in call.keywords:
        if k.arg in ps and isinstance(k.value, ast.Name) and k.value.id in names:
            passed.add(k.arg)
    if not passed:
        return False
    alias = set(passed)
    for _ in range(3):
        for n in ast.walk(fn.node):
            if isinstance(n, ast.Assign) and len(n.targets) == 1 and isinstance(n.targets[0], ast.Name):
                v = n.value
                cands = [v] if not isinstance(v, ast.IfExp) else [v.body, v.orelse]
                if any(isinstance(c, ast.Name) and c.id in alias for c in cands):
                    alias.add(n.targets[0].id)
    for m in ast.walk(fn.node):
        if isinstance(m, ast.Call) and m is not call and _writes_all_of(m, alias, resolve, depth + 1):
            return True
        if isinstance(m, ast.Assign):
            for t in m.targets:
                if isinstance(t, ast.Subscript) and isinstance(t.value, ast.Name) and t.value.id in alias:
                    sl = t.slice
                    if (isinstance(sl, ast.Constant) and sl.value is Ellipsis) or (isinstance(sl, ast.Slice) and sl.lower is None and sl.upper is None and sl.step is None):
                        return True
    return False


def _m5(run, M):
    n_sites = 0
    for q, f in sorted(M.funcs.items()):
        if f.mod.name not in M5_SCOPE:
            continue

        def is_empty(c, f=f):
            tgt = M.resolve_call(f, c)
            return tgt[0] == "ext" and tgt[1].split(".")[-1] in ("empty", "empty_like") and tgt[1].startswith("numpy")
        def resolve(c, f=f):
            tgt = M.resolve_call(f, c)
            return tgt[1] if tgt[0] == "repo" else None
        own = [x for x in _empty_sites(f.node, is_empty, resolve) if not any(x[0] in list(ast.walk(g.node)) for g in M.funcs.values() if g.parent is f)]
        for call, verdict, detail in own:
            n_sites += 1
            if verdict in ("shape-only", "full"):
                run.ok("M5", q, "`%s`: %s" % (_short(call), detail if verdict == "shape-only" else "overwritten in full before use"), f.loc(call))
            elif q in M5_COVERED:
                run.ok("M5", q, "`%s`: %s" % (_short(call), M5_COVERED[q]), f.loc(call))
            else:
                run.bad("M5", q, f.loc(call), "%s allocates `%s` (%s) and never overwrites it in full: elements the later stores do not cover keep whatever the allocator "
                        "left there, so the result is not a function of the arguments (repeated application to equal inputs may differ)" % (q, _short(call), detail), stmt=call)
    run.floor("M5", 2, n_sites, "empty/empty_like allocations in the analysed modules")
    tree = ast.parse(CTL_M5)
    res = {}
    for fn in tree.body:
        is_e = lambda c: isinstance(c.func, ast.Attribute) and c.func.attr in ("empty", "empty_like")
        res[fn.name] = [v for _, v, _ in _empty_sites(fn, is_e)]
    run.control("M5", "empty buffer with a computed-slice store", True, "partial" in res["ctl_bad"])
    run.control("M5", "empty buffer overwritten with [...] / shape-only use", False, any(v not in ("full", "shape-only") for v in res["ctl_ok"]))


def _short(node):
    s = unparse(node)
    return s if len(s) < 120 else s[:117] + "..."


def _dedupe(items):
    seen = set()
    out = []
    for node, why in items:
        k = (getattr(node, "lineno", 0), why)
        if k not in seen:
            seen.add(k)
            out.append((node, why))
    return out


def _controls(run, M):
    """run M1 and M3 on embedded snippets: the rules must fire on the bad ones and stay silent on the good ones"""
    import copy
    import types
    from ..model import Mod, Func, Cls, _Pruner
    M2 = copy.copy(M)
    M2.mods = dict(M.mods)
    M2.funcs = dict(M.funcs)
    M2.classes = dict(M.classes)
    tree = ast.parse(CONTROL_SRC)
    mod = Mod("sigpy._ctl", "<control>", CONTROL_SRC, tree, tree, 0)
    M2.mods[mod.name] = mod
    M2._index_imports(mod)
    M2._collect(mod, tree, mod.name, None, None)
    eff = Effects.__new__(Effects)
    eff.M = M2
    from ..effects import Summary
    eff.summ = {q: Summary() for q in M2.funcs}
    eff.rounds = 0
    # summaries of the real package are needed only for util/backend helpers: recompute cheaply for controls
    for _ in range(2):
        for q in [q for q in M2.funcs if q.startswith("sigpy._ctl")]:
            eff.summ[q] = Analyzer(eff, M2.funcs[q]).run()
    run.control("M1", "reshape-view then in-place subtraction", True, "input" in eff.summ["sigpy._ctl.ctl_mutates"].mut)
    run.control("M1", "copy then in-place subtraction", False, "input" in eff.summ["sigpy._ctl.ctl_pure"].mut)
    k_bad = Lin(M2, M2.funcs["sigpy._ctl.CtlLinop._apply"]).run()[0][1]
    k_ok = Lin(M2, M2.funcs["sigpy._ctl.CtlLinopOk._apply"]).run()[0][1]
    run.control("M3", "input.real * mult", True, k_bad not in (L, Z))
    run.control("M3", "sum of scaled child applications", False, k_ok not in (L, Z))
