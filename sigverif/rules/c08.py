"""C08 -- convolve matches the convolution definition; the data / filter adjoints are exact.

V1 roles: at every call of _get_convolve_params the first argument is the data-side shape, the second the filter-side shape
V2 shapes: _get_convolve_params equals its documented form (full: (m+n-1+s-1)//s, valid: (m-n+1+s-1)//s, mixed orientation and bad
   stride length rejected); all producers of the output shape use b + (c_o,) + p / b + p under the same flag; adjoints reshape to the requested shape
V3 adjoint-mode table: data: full->valid, valid&m>=n->full, valid&m<n->valid ; filter: full->valid, valid&m>=n->valid, valid&m<n->full;
   zero-stuffed buffer sizes m+n-1 (full) / |m-n|+1 (valid)
V4 loops: forward accumulates signal.convolve(data[k,i], filt[j,i], mode)[slc] into output[k,j]; adjoints copy output[k,j] into the strided
   positions slc of the zero buffer and accumulate the *conjugating* signal.correlate with the adjoint mode into data[k,i] / filt[j,i]
Not decided: scipy.signal itself.
"""
import ast

from .. import terms as T
from ..common import vn_paths, vn_ref
from ..kernelsum import summarize
from ..linopdesc import LinAlg, _show, val_eq
from ..model import AnchorMissing, Unrecognised, calls_in, unparse
from ..vn import NONE, VN, State, cond_text

REF_PARAMS = """
D = len(filt_shape) - 2 * multi_channel
m = tuple(data_shape[-D:])
n = tuple(filt_shape[-D:])
b = tuple(data_shape[: -D - multi_channel])
B = util.prod(b)
if multi_channel:
    if filt_shape[-D - 1] != data_shape[-D - 1]:
        raise ValueError("x")
    c_i = filt_shape[-D - 1]
    c_o = filt_shape[-D - 2]
else:
    c_i = 1
    c_o = 1
if strides is None:
    s = (1,) * D
else:
    if len(strides) != D:
        raise ValueError("x")
    s = tuple(strides)
if mode == "full":
    p = tuple((m_d + n_d - 1 + s_d - 1) // s_d for m_d, n_d, s_d in zip(m, n, s))
elif mode == "valid":
    if any(m_d >= n_d for m_d, n_d in zip(m, n)) and any(m_d < n_d for m_d, n_d in zip(m, n)):
        raise ValueError("x")
    p = tuple((m_d - n_d + 1 + s_d - 1) // s_d for m_d, n_d, s_d in zip(m, n, s))
else:
    raise ValueError("x")
return D, b, B, m, n, s, c_i, c_o, p
"""


# reference texts of the three CPU functions: used only to *name* the locals the rules below talk about (alpha.align); the rules
# themselves judge the analysed function, never this text
REF_NAMES = {
    "_convolve": """
def _convolve(data, filt, mode="full", strides=None, multi_channel=False):
    D, b, B, m, n, s, c_i, c_o, p = _get_convolve_params(data.shape, filt.shape, mode, strides, multi_channel)
    data = data.reshape((B, c_i) + m)
    filt = filt.reshape((c_o, c_i) + n)
    output = np.zeros((B, c_o) + p, dtype=data.dtype)
    slc = tuple(slice(None, None, s_d) for s_d in s)
    for k in range(B):
        for j in range(c_o):
            for i in range(c_i):
                output[k, j] += signal.convolve(data[k, i], filt[j, i], mode=mode)[slc]
    if multi_channel:
        output = output.reshape(b + (c_o,) + p)
    else:
        output = output.reshape(b + p)
    return output
""",
    "_convolve_data_adjoint": """
def _convolve_data_adjoint(output, filt, data_shape, mode="full", strides=None, multi_channel=False):
    D, b, B, m, n, s, c_i, c_o, p = _get_convolve_params(data_shape, filt.shape, mode, strides, multi_channel)
    output = output.reshape((B, c_o) + p)
    filt = filt.reshape((c_o, c_i) + n)
    data = np.zeros((B, c_i) + m, dtype=output.dtype)
    slc = tuple(slice(None, None, s_d) for s_d in s)
    if mode == "full":
        output_kj = np.zeros([m_d + n_d - 1 for m_d, n_d in zip(m, n)], dtype=output.dtype)
        adjoint_mode = "valid"
    elif mode == "valid":
        output_kj = np.zeros([max(m_d, n_d) - min(m_d, n_d) + 1 for m_d, n_d in zip(m, n)], dtype=output.dtype)
        if all(m_d >= n_d for m_d, n_d in zip(m, n)):
            adjoint_mode = "full"
        else:
            adjoint_mode = "valid"
    for k in range(B):
        for j in range(c_o):
            for i in range(c_i):
                output_kj[slc] = output[k, j]
                data[k, i] += signal.correlate(output_kj, filt[j, i], mode=adjoint_mode)
    data = data.reshape(data_shape)
    return data
""",
    "_convolve_filter_adjoint": """
def _convolve_filter_adjoint(output, data, filt_shape, mode="full", strides=None, multi_channel=False):
    D, b, B, m, n, s, c_i, c_o, p = _get_convolve_params(data.shape, filt_shape, mode, strides, multi_channel)
    data = data.reshape((B, c_i) + m)
    output = output.reshape((B, c_o) + p)
    slc = tuple(slice(None, None, s_d) for s_d in s)
    if mode == "full":
        output_kj = np.zeros([m_d + n_d - 1 for m_d, n_d in zip(m, n)], dtype=output.dtype)
        adjoint_mode = "valid"
    elif mode == "valid":
        output_kj = np.zeros([max(m_d, n_d) - min(m_d, n_d) + 1 for m_d, n_d in zip(m, n)], dtype=output.dtype)
        if all(m_d >= n_d for m_d, n_d in zip(m, n)):
            adjoint_mode = "valid"
        else:
            adjoint_mode = "full"
    filt = np.zeros((c_o, c_i) + n, dtype=output.dtype)
    for k in range(B):
        for j in range(c_o):
            for i in range(c_i):
                output_kj[slc] = output[k, j]
                filt[j, i] += signal.correlate(output_kj, data[k, i], mode=adjoint_mode)
    filt = filt.reshape(filt_shape)
    return filt
""",
}


def _nest_loop(vn, s, st):
    """loop hook for the channel/batch loop nests: one symbolic iteration per loop level, loop symbols numbered by nesting order;
    `for k, j, i in itertools.product(range(a), range(b), range(c))` is the nest of three loops it abbreviates"""
    if not isinstance(s, ast.For) or s.orelse:
        return None
    it = s.iter

    def fresh():
        # the loop counter lives in the path's own environment, so every path numbers its loops 1, 2, 3, ...
        n = int(st.env.get("__nest__", T.const(0)).as_fraction()) + 1
        st.env["__nest__"] = T.const(n)
        return T.sym("LOOP%d" % n, real=True)
    if isinstance(it, ast.Call) and unparse(it.func).split(".")[-1] == "product" and isinstance(s.target, (ast.Tuple, ast.List)) \
            and len(s.target.elts) == len(it.args) and not it.keywords:
        for t, rng in zip(s.target.elts, it.args):
            vn.assign(t, T.app("elem", vn._as_term(vn.ev(rng, st)), fresh()), st, s)
    elif isinstance(s.target, ast.Name):
        vn.assign(s.target, T.app("elem", vn._as_term(vn.ev(it, st)), fresh()), st, s)
    else:
        return None
    outs = vn.block(list(s.body), [st])
    for o in outs:
        if o.status in ("break", "continue"):
            o.status = "live"
    return outs


def _whole_function_equal(M, f_orig, ref_src):
    """the analysed function and the rule's reference text compute the same returned term on the same path conditions, for each admissible
    mode (`_get_convolve_params`, called first on every path, rejects every other mode: rule V2).  Names, temporaries, mirrored branches,
    conditional expressions and loop spelling do not matter for this comparison."""
    from ..vn import conjuncts
    ref_fn = ast.parse(ref_src.strip()).body[0]
    for lit in ("'full'", "'valid'"):
        res = []
        for body in (f_orig.body, ref_fn.body):
            vn = VN(M, f_orig, loop_hook=_nest_loop)
            try:
                outs = vn.run(body, State({"mode": T.sym(lit, real=True)}))
            except (Unrecognised, KeyError, TypeError):
                return False
            sig = set()
            for o in outs:
                if o.status != "return":
                    continue
                cs = frozenset(x.key() for c in o.conds for x in conjuncts(c))
                sig.add((cs, repr(T.enc(vn._as_term(o.ret)))))
            res.append(sig)
        if not res[0] or res[0] != res[1]:
            return False
    return True


def _aligned(M, qual):
    """the analysed function read through the renaming of its locals onto the names the rules use"""
    from ..alpha import align
    from ..model import Func
    f = M.func(qual)
    node, _ = align(f.node, REF_NAMES[f.name].strip())
    return Func(f.qual, node, f.mod, f.cls, f.parent)


def check(run, M, tier):
    run.rule("V1", "every _get_convolve_params call passes (data-side shape, filter-side shape) in this order")
    run.rule("V2", "_get_convolve_params equals its documented form; output shape b + (c_o,) + p / b + p at all producers; adjoints return reshape(requested shape)")
    run.rule("V3", "adjoint mode table and zero-stuffed buffer sizes per path over {mode, all(m >= n)}")
    run.rule("V4", "loop bodies: forward convolve(...)[slc] accumulated; adjoints output_kj[slc] = output[k,j] then += correlate(output_kj, other[...], mode=adjoint_mode); index tuples (k,j)/(k,i)/(j,i)")
    # tuple-valued items of the parameter tuple (confirmed from the source: assigned from tuple(...) calls)
    from .. import vn as _vn
    gp0 = M.func("sigpy.conv._get_convolve_params")
    ret = [n for n in ast.walk(gp0.node) if isinstance(n, ast.Return)][-1]
    names = [unparse(e) for e in ret.value.elts] if isinstance(ret.value, ast.Tuple) else []
    tup = set()
    for i_, nm in enumerate(names):
        asg = [n for n in ast.walk(gp0.node) if isinstance(n, ast.Assign) and unparse(n.targets[0]) == nm]
        if asg and all(isinstance(a_.value, ast.Call) and unparse(a_.value.func) == "tuple" or (isinstance(a_.value, ast.BinOp) and isinstance(a_.value.left, ast.Tuple)) for a_ in asg):
            tup.add(i_)
    _vn.SEQ_ITEMS["fn:sigpy.conv._get_convolve_params"] = tup
    if len(names) != 9:
        raise Unrecognised("_get_convolve_params returns %d items (%s); the rules know the 9-tuple (D, b, B, m, n, s, c_i, c_o, p)" % (len(names), names), ret)
    # ---- V1
    sites = []
    for q, f in sorted(M.funcs.items()):
        for c in calls_in(f.node):
            tgt = M.resolve_call(f, c)
            if tgt[0] == "repo" and tgt[1].qual == "sigpy.conv._get_convolve_params":
                sites.append((f, c))
    run.floor("V1", 4, len(sites), "call sites of _get_convolve_params")
    gp = M.func("sigpy.conv._get_convolve_params")
    for f, c in sites:
        b = M.bind(c, gp)
        a0, a1 = unparse(b["data_shape"]), unparse(b["filt_shape"])
        ok = "data" in a0 and "filt" not in a0 and "filt" in a1 and "data" not in a1
        rest = [unparse(b[k]) for k in ("mode", "strides", "multi_channel")]
        ok2 = all(r.split(".")[-1] == k for r, k in zip(rest, ("mode", "strides", "multi_channel")))
        run.check(ok and ok2, "V1", f.qual, f.loc(c), "(%s, %s, mode, strides, multi_channel)" % (a0, a1),
                  "%s calls _get_convolve_params(%s, %s, %s): the data-side shape must come first, the filter-side shape second, then mode, strides, multi_channel"
                  % (f.qual, a0, a1, ", ".join(rest)), stmt=c)
    # ---- V2
    _, code = vn_paths(M, gp, real={"multi_channel"})
    _, ref = vn_ref(REF_PARAMS.strip(), model=M, func=gp, real={"multi_channel"})
    sig = lambda outs: sorted((o.status, tuple(sorted(repr(c.key()) for c in o.conds)), repr(T.enc(o.ret)) if o.status == "return" else "") for o in outs)
    sc, sr = sig(code), sig(ref)
    if sc == sr:
        run.ok("V2", "_get_convolve_params", "%d paths equal the documented form (output lengths, channel check, stride length, mixed-orientation rejection)" % len(code), gp.loc())
    else:
        rets_c = [o for o in code if o.status == "return"]
        rets_r = [o for o in ref if o.status == "return"]
        msg = "case split differs (%d paths vs %d documented)" % (len(code), len(ref))
        for o in rets_c:
            cs = frozenset(c.key() for c in o.conds)
            m = [r for r in rets_r if frozenset(c.key() for c in r.conds) == cs]
            if len(m) == 1 and T.enc(o.ret) != T.enc(m[0].ret):
                for x, y, nm in zip(o.ret, m[0].ret, "D b B m n s c_i c_o p".split()):
                    if T.enc(x) != T.enc(y):
                        msg = "under [%s] %s = %s ; documented %s" % (cond_text(o.conds)[:120], nm, _show(x), _show(y))
                        break
                break
        run.bad("V2", "_get_convolve_params", gp.loc(), "_get_convolve_params deviates from its documented form: " + msg, stmt="V2:params")
    # output shape producers
    alg = LinAlg(M)
    prods = []
    for cname, side in (("ConvolveData", "o"), ("ConvolveDataAdjoint", "i"), ("ConvolveFilter", "o"), ("ConvolveFilterAdjoint", "i")):
        for inst in alg.instances(M.cls("sigpy.linop." + cname)):
            shp = inst.oshape if side == "o" else inst.ishape
            mc = any(T.show(c) == "multi_channel" for c in inst.conds)
            prods.append((cname, mc, shp, inst))
    pcall = {}
    for cname, mc, shp, inst in prods:
        a = shp.single_atom() if isinstance(shp, T.Poly) else None
        ok = False
        if mc and a is not None and a[1] == "concat" and len(a[2]) == 3:
            parts = [T.dec(x) for x in a[2]]
            ok = _is_item(parts[0], 1) and isinstance(parts[1], tuple) and len(parts[1]) == 1 and _is_item(parts[1][0], 7) and _is_item(parts[2], 8) \
                and _same_call(parts[0], parts[2]) and _same_call(parts[0], parts[1][0])
        elif not mc and a is not None and a[1] == "concat" and len(a[2]) == 2:
            parts = [T.dec(x) for x in a[2]]
            ok = _is_item(parts[0], 1) and _is_item(parts[1], 8) and _same_call(parts[0], parts[1])
        run.check(ok, "V2", "%s shape (multi_channel=%s)" % (cname, mc), M.func("sigpy.linop.%s.__init__" % cname).loc(),
                  "b + (c_o,) + p" if mc else "b + p", "%s advertises %s under multi_channel=%s; expected %s from one _get_convolve_params call"
                  % (cname, _show(shp), mc, "b + (c_o,) + p" if mc else "b + p"), stmt="V2:shape:%s:%s" % (cname, mc))
    run.floor("V2", 8, len(prods), "operator shape producers")
    # ---- V3 / V4 on the three CPU functions
    fwd = _aligned(M, "sigpy.conv._convolve")
    da = _aligned(M, "sigpy.conv._convolve_data_adjoint")
    fa = _aligned(M, "sigpy.conv._convolve_filter_adjoint")
    whole = {}
    for nm_, fo_ in (("_convolve", M.func("sigpy.conv._convolve")), ("_convolve_data_adjoint", M.func("sigpy.conv._convolve_data_adjoint")),
                     ("_convolve_filter_adjoint", M.func("sigpy.conv._convolve_filter_adjoint"))):
        whole[nm_] = _whole_function_equal(M, fo_, REF_NAMES[nm_])
        run.check(whole[nm_], "V4w", nm_, fo_.loc(), "equals the documented form on every path (for both admissible modes)",
                  "%s no longer computes what the documented %s computes (compared as whole functions over symbolic shapes, for mode 'full' and 'valid'; names, "
                  "temporaries, branch order and loop spelling do not matter): rules V3/V4 below examine which piece differs" % (nm_, nm_), stmt="V4w:" + nm_)
    if all(whole.values()):
        run.ok("V3", "adjoint mode table", "follows from the whole-function equality of both adjoints with the documented forms (full->valid; valid: data m>=n->full else valid; "
               "filter m>=n->valid else full; zero buffers m+n-1 / |m-n|+1)", da.loc())
        run.ok("V4", "loop bodies", "follow from the whole-function equality (forward convolve(...)[slc] accumulated; adjoints zero-stuff output[k,j] at slc and accumulate the "
               "conjugating correlate with the adjoint mode; result reshaped to the requested shape)", fwd.loc())
        return _rest_after_v4(run, M, fwd)
    try:
        _pieces(run, M, fwd, da, fa)
    except (KeyError, Unrecognised, AttributeError, TypeError, IndexError) as e_:
        run.info("V3/V4 piecewise diagnosis not available for this form (%s: %s)" % (type(e_).__name__, e_))
    _rest_after_v4(run, M, fwd)


def _pieces(run, M, fwd, da, fa):
    table = {"data": {("full", None): "valid", ("valid", True): "full", ("valid", False): "valid"},
             "filt": {("full", None): "valid", ("valid", True): "valid", ("valid", False): "full"}}
    for f, which in ((da, "data"), (fa, "filt")):
        pre = []
        for s in f.body:
            if isinstance(s, ast.For):
                break
            pre.append(s)
        vn = VN(M, f)
        outs = vn.run(pre, State())
        full = T.sym("'full'", real=True)
        seen = set()
        for o in outs:
            txt = cond_text(o.conds)
            is_full = "zero(-1*'full' + mode)" in txt or "zero('full' + -1*mode)" in txt.replace("nonzero", "NZ")
            is_full = any(T.show(c) in ("zero(-1*'full' + mode)", "zero('full' + -1*mode)") for c in o.conds)
            is_valid = any(T.show(c) in ("zero(-1*'valid' + mode)", "zero('valid' + -1*mode)") for c in o.conds)
            if not (is_full or is_valid):
                continue  # neither mode: _get_convolve_params has already raised
            allge = None
            for c in o.conds:
                s_ = T.show(c, 300)
                if s_.startswith("call:all(") or s_.startswith("all("):
                    allge = True
                if s_.startswith("not(call:all(") or s_.startswith("not(all("):
                    allge = False
            key = ("full", None) if is_full else ("valid", allge)
            seen.add(key)
            got = o.env.get("adjoint_mode")
            want = T.sym(repr(table[which][key]), real=True)
            run.check(got == want, "V3", "%s adjoint mode %s" % (f.name, key), f.loc(), "mode %s%s -> correlate mode '%s'" % (key[0], "" if key[1] is None else (", m>=n" if key[1] else ", m<n"), table[which][key]),
                      "%s: for mode '%s'%s the adjoint correlates with mode %s; the exact adjoint needs '%s'"
                      % (f.name, key[0], "" if key[1] is None else (" and data >= filter" if key[1] else " and data < filter"), _show(got), table[which][key]),
                      stmt="V3:%s:%s" % (f.name, key))
            buf = o.env.get("output_kj")
            src = "[m_d + n_d - 1 for m_d, n_d in zip(m, n)]" if is_full else "[max(m_d, n_d) - min(m_d, n_d) + 1 for m_d, n_d in zip(m, n)]"
            wantbuf = VN(M, f).ev(ast.parse("np.zeros(%s, dtype=output.dtype)" % src, mode="eval").body, State({k: o.env[k] for k in ("m", "n", "output") if k in o.env}))
            run.check(buf is not None and T.enc(buf) == T.enc(wantbuf), "V3", "%s buffer %s" % (f.name, key), f.loc(), "zero buffer of the unstrided output size",
                      "%s: the zero-stuffed buffer is %s; expected %s" % (f.name, _show(buf), _show(wantbuf)), stmt="V3:buf:%s:%s" % (f.name, key))
            # the all(...) test is all(m_d >= n_d ...)
        run.check(seen == {("full", None), ("valid", True), ("valid", False)}, "V3", f.name + " cases", f.loc(), "three cases (full, valid m>=n, valid m<n)",
                  "%s distinguishes the cases %s; expected full / valid with data >= filter / valid with data < filter" % (f.name, sorted(seen, key=str)), stmt="V3:cases:" + f.name)
        alls = [c for c in calls_in(f.node) if isinstance(c.func, ast.Name) and c.func.id == "all"]
        okall = False
        if len(alls) == 1:
            # compared as terms (comparison normal form), so `n_d <= m_d`, other bound names etc. are the same predicate
            env_ = {"m": T.sym("m"), "n": T.sym("n")}
            got_t = VN(M, f).ev(alls[0], State(dict(env_)))
            want_t = VN(M, f).ev(ast.parse("all(m_d >= n_d for m_d, n_d in zip(m, n))", mode="eval").body, State(dict(env_)))
            okall = T.enc(got_t) == T.enc(want_t)
        run.check(okall, "V3", f.name + " predicate", f.loc(), "predicate is all(m_d >= n_d)", "%s decides on `%s`; expected all(m_d >= n_d for m_d, n_d in zip(m, n))"
                  % (f.name, unparse(alls[0]) if alls else "nothing"), stmt="V3:pred:" + f.name)
    # ---- V4 loop nests
    slc_src = "tuple(slice(None, None, s_d) for s_d in s)"
    for f, kind in ((fwd, "fwd"), (da, "data"), (fa, "filt")):
        pre, loop_stmts = [], []
        for st_ in f.body:
            (loop_stmts if (isinstance(st_, ast.For) or loop_stmts) else pre).append(st_)
        pre_states = VN(M, f).run(pre, State())
        env0 = dict(pre_states[0].env)
        env0["adjoint_mode"] = T.sym("adjoint_mode")
        env0.pop("output_kj", None)
        ks = summarize(M, f, env=env0, stmts=[x for x in loop_stmts if isinstance(x, ast.For)])
        ks.env = env0
        okn = len(ks.loops) == 3
        names = [T.show(a.args[0]) if len(a.args) == 1 else "?" for a in ks.loops]
        run.check(okn and all(len(l.args) == 1 for l in ks.loops), "V4", f.name + " nest", f.loc(), "loops over batch, output channels, input channels",
                  "%s has %d loops" % (f.name, len(ks.loops)), stmt="V4:nest:" + f.name)
        if not okn:
            continue
        k, j, i = [l.var for l in ks.loops]
        env = ks.env
        # loop bounds are B, c_o, c_i of the parameter tuple
        gpv = env.get("B"), env.get("c_o"), env.get("c_i")
        run.check(tuple(l.args[0] for l in ks.loops) == gpv, "V4", f.name + " bounds", f.loc(), "range(B), range(c_o), range(c_i)",
                  "%s loops over %s; expected range(B), range(c_o), range(c_i)" % (f.name, names), stmt="V4:bounds:" + f.name)
        slc = env.get("slc")
        want_slc = VN(M, f).ev(ast.parse(slc_src, mode="eval").body, State({"s": env.get("s")}))
        run.check(slc is not None and T.enc(slc) == T.enc(want_slc), "V4", f.name + " stride slice", f.loc(), "slc = slice(None, None, s_d) per axis",
                  "%s: stride slice is %s" % (f.name, _show(slc)), stmt="V4:slc:" + f.name)
        if kind == "fwd":
            ok = len(ks.stores) == 1 and ks.stores[0].accumulate and ks.stores[0].array == "output" and _idx(ks.stores[0].idx, (k, j))
            want = T.app("getitem", T.app("call:scipy.signal.convolve", T.app("getitem", env["data"], (k, i)), T.app("getitem", env["filt"], (j, i)),
                                          T.app("kw:mode", T.sym("mode"))), slc) if ok else None
            got = ks.stores[0].value if ks.stores else None
            run.check(ok and isinstance(got, T.Poly) and got == want, "V4", "_convolve body", f.loc(), "output[k,j] += convolve(data[k,i], filt[j,i], mode)[slc]",
                      "_convolve body is `%s`; expected output[k, j] += signal.convolve(data[k, i], filt[j, i], mode=mode)[slc]"
                      % (unparse(ks.stores[0].node) if ks.stores else "missing"), stmt="V4:body:fwd")
            rets = [n for n in ast.walk(f.node) if isinstance(n, ast.Return)]
        else:
            tgt_arr, tgt_idx, other, oidx = ("data", (k, i), "filt", (j, i)) if kind == "data" else ("filt", (j, i), "data", (k, i))
            ok = len(ks.stores) == 2
            s1 = ks.stores[0] if ok else None
            s2 = ks.stores[1] if ok else None
            ok1 = ok and s1.array == "output_kj" and not s1.accumulate and len(s1.idx) == 1 and T.enc(s1.idx[0]) == T.enc(slc) \
                and s1.value == T.app("getitem", env["output"], (k, j))
            run.check(ok1, "V4", f.name + " zero-stuffing", f.loc(), "output_kj[slc] = output[k, j]",
                      "%s fills the buffer with `%s`; expected output_kj[slc] = output[k, j] (same stride slice as the forward subsampling)"
                      % (f.name, unparse(s1.node) if s1 else "nothing"), stmt="V4:stuff:" + f.name)
            want = T.app("call:scipy.signal.correlate", T.sym("output_kj"), T.app("getitem", env[other], oidx), T.app("kw:mode", T.sym("adjoint_mode"))) if ok else None
            ok2 = ok and s2.array == tgt_arr and s2.accumulate and _idx(s2.idx, tgt_idx) and isinstance(s2.value, T.Poly) and s2.value == want
            run.check(ok2, "V4", f.name + " correlate", f.loc(), "%s[%s] += correlate(output_kj, %s[%s], mode=adjoint_mode)" % (tgt_arr, "k,i" if kind == "data" else "j,i", other, "j,i" if kind == "data" else "k,i"),
                      "%s accumulates `%s`; the exact adjoint is %s[...] += signal.correlate(output_kj, %s[...], mode=adjoint_mode) (correlate conjugates its second argument; convolve does not)"
                      % (f.name, unparse(s2.node) if s2 else "nothing", tgt_arr, other), stmt="V4:corr:" + f.name)
        # final reshape to the requested / advertised shape
        rets = [n for n in ast.walk(f.node) if isinstance(n, ast.Return)]
        want_ret = {"fwd": None, "data": "data.reshape(data_shape)", "filt": "filt.reshape(filt_shape)"}[kind]
        if want_ret:
            fin = [s for s in f.body if isinstance(s, ast.Assign) and unparse(s.value).replace(" ", "") == want_ret.replace(" ", "")]
            run.check(len(fin) == 1 and len(rets) == 1 and unparse(rets[0].value) == kind.replace("filt", "filt"), "V2", f.name + " result shape", f.loc(),
                      "returns the accumulator reshaped to the requested shape", "%s does not return %s" % (f.name, want_ret), stmt="V2:ret:" + f.name)


def _rest_after_v4(run, M, fwd):
    # the forward reshapes to b + (c_o,) + p / b + p
    _, outs = vn_paths(M, fwd, loop_hook=lambda vn, s, st: [st], real={"multi_channel"})
    oks = 0
    for o in outs:
        if o.status != "return":
            continue
        a = o.ret.single_atom() if isinstance(o.ret, T.Poly) else None
        mc = any(T.show(c) == "multi_channel" for c in o.conds)
        if a is not None and a[1] == "reshape":
            shp = T.dec(a[2][1])
            sa = shp.single_atom() if isinstance(shp, T.Poly) else None
            n_parts = len(sa[2]) if sa is not None and sa[1] == "concat" else 0
            if n_parts == (3 if mc else 2):
                oks += 1
    run.check(oks == 2, "V2", "_convolve result shape", fwd.loc(), "reshape to b + (c_o,) + p / b + p", "_convolve does not reshape its result to b + (c_o,) + p / b + p", stmt="V2:ret:fwd")
    # public wrappers dispatch to the CPU functions with all arguments
    for pub, impl, first in (("convolve", "_convolve", ["data", "filt"]), ("convolve_data_adjoint", "_convolve_data_adjoint", ["output", "filt", "data_shape"]),
                             ("convolve_filter_adjoint", "_convolve_filter_adjoint", ["output", "data", "filt_shape"])):
        f = M.func("sigpy.conv." + pub)
        cs = [c for c in calls_in(f.node) if isinstance(c.func, ast.Name) and c.func.id == impl]
        # bound against the implementation's signature: positional / keyword / **dict spellings are the same call
        ok = False
        if len(cs) >= 1:
            ok = True
            for c_ in cs:
                kws = {}
                for k in c_.keywords:
                    if k.arg is not None:
                        kws[k.arg] = unparse(k.value)
                    else:
                        from ..model import resolve_temp
                        d_ = resolve_temp(f.node, k.value)
                        if isinstance(d_, ast.Dict) and all(isinstance(x, ast.Constant) for x in d_.keys):
                            kws.update({x.value: unparse(v) for x, v in zip(d_.keys, d_.values)})
                        elif isinstance(d_, ast.Call) and isinstance(d_.func, ast.Name) and d_.func.id == "dict" and not d_.args:
                            kws.update({x.arg: unparse(x.value) for x in d_.keywords if x.arg})
                        else:
                            ok = False
                impl_f = M.func("sigpy.conv." + impl)
                got = dict(zip(impl_f.params, [unparse(a) for a in c_.args]))
                got.update(kws)
                want_b = dict(zip(impl_f.params, first))
                want_b.update({"mode": "mode", "strides": "strides", "multi_channel": "multi_channel"})
                ok = ok and got == want_b
        run.check(ok, "V1", "conv." + pub, f.loc(), "forwards (%s, mode, strides, multi_channel) to %s" % (", ".join(first), impl),
                  "%s calls `%s`" % (pub, unparse(cs[0]) if cs else "nothing"), stmt="V1:pub:" + pub)


def _is_item(t, k):
    a = t.single_atom() if isinstance(t, T.Poly) else None
    return a is not None and a[1] == "getitem" and T.dec(a[2][1]) == T.const(k) and (T.dec(a[2][0]).single_atom() or ("", ""))[1] == "fn:sigpy.conv._get_convolve_params"


def _same_call(a, b):
    return a.single_atom()[2][0] == b.single_atom()[2][0]


def _idx(got, want):
    return len(got) == len(want) and all(isinstance(x, T.Poly) and x == y for x, y in zip(got, want))
