"""C09 -- resize / flip / circshift / down- and upsample / block functions move exactly the documented elements.

X1 resize: centre-aligned default shifts max(i//2 - o//2, 0) / max(o//2 - i//2, 0), copy window min(i - si, o - so), zero-initialised output
X2 downsample / upsample: slice(shift, None, factor) on both sides, upsample writes into zeros; operator shape formulas agree and equal ceil((n - s)/f)
X3 flip reverses exactly the normalised axes; circshift pairs (axis, shift) into roll
X4 block dispatch: every kernel parameter receives the list element of the axis and role the kernel uses it for
X5 gather kernels: i = n*S + b per axis, bounds test against the input size of that axis, output indexed [batch, n.., b..]
X6 scatter kernels: for each output index i the inner loop runs b in range(i % S, B, S), n = (i - b)//S, guard 0 <= n < N, and the statement accumulates (+=)
X7 num_blks = (N - B + S)//S is one term at its three sites; wrappers zero-initialise and reshape as documented
"""
import ast

from .. import terms as T
from ..common import vn_paths, vn_ref
from ..kernelsum import summarize
from ..linopdesc import LinAlg, _show, val_eq
from ..model import AnchorMissing, Unrecognised, calls_in, unparse
from ..vn import NONE, VN, State, cond_text

REF = {
    "sigpy.util.resize": """
ishape1, oshape1 = _expand_shapes(input.shape, oshape)
if ishape1 == oshape1:
    return input.reshape(oshape)
if ishift is None:
    ishift = [max(i // 2 - o // 2, 0) for i, o in zip(ishape1, oshape1)]
if oshift is None:
    oshift = [max(o // 2 - i // 2, 0) for i, o in zip(ishape1, oshape1)]
copy_shape = [min(i - si, o - so) for i, si, o, so in zip(ishape1, ishift, oshape1, oshift)]
islice = tuple([slice(si, si + c) for si, c in zip(ishift, copy_shape)])
oslice = tuple([slice(so, so + c) for so, c in zip(oshift, copy_shape)])
xp = backend.get_array_module(input)
output = xp.zeros(oshape1, dtype=input.dtype)
output[oslice] = input.reshape(ishape1)[islice]
return output.reshape(oshape)
""",
    "sigpy.util.downsample": """
if shift is None:
    shift = [0] * len(factors)
return input[tuple(slice(s, None, f) for s, f in zip(shift, factors))]
""",
    "sigpy.util.upsample": """
if shift is None:
    shift = [0] * len(factors)
xp = backend.get_array_module(input)
output = xp.zeros(oshape, dtype=input.dtype)
output[tuple(slice(s, None, f) for s, f in zip(shift, factors))] = input
return output
""",
    "sigpy.util._normalize_axes": """
if axes is None:
    return tuple(range(ndim))
else:
    return tuple(a % ndim for a in sorted(axes))
""",
    "sigpy.util._expand_shapes": None,  # has a loop-free comprehension form, checked below
}


def S(n):
    return T.sym(n, real=True)


def check(run, M, tier):
    run.rule("X1", "util.resize equals the documented centre-aligned zero-pad/crop (default shifts, copy window, zero-initialised output) on every path")
    run.rule("X2", "downsample/upsample use slice(shift, None, factor); upsample scatters into zeros; Downsample/Upsample shape formulas agree and equal (n - s + f - 1)//f")
    run.rule("X3", "flip builds slice(None, None, -1) exactly on the normalised axes; circshift rolls each (axis, shift) pair; _normalize_axes maps a -> a % ndim")
    run.rule("X4", "block dispatch passes to every kernel parameter the list element (blk_shape / blk_strides / num_blks at axis -k) matching the role and axis the kernel uses it for")
    run.rule("X5", "gather kernels: input index of axis -k is n*S + b with that axis' stride, block loops range over N and B of that axis, guarded by index < input.shape[-k]; output indexed [batch, n_D..n_1, b_D..b_1]")
    run.rule("X6", "scatter kernels: b in range(i % S, B, S), n = (i - b)//S, guard 0 <= n < N per axis, statement is +=, input indexed [batch, n_D..n_1, b_D..b_1]")
    run.rule("X7", "(N - B + S)//S is the same term in array_to_blocks, ArrayToBlocks and BlocksToArray; wrappers validate lengths, zero-initialise, reshape back")
    for q in ("sigpy.util.resize", "sigpy.util.downsample", "sigpy.util.upsample", "sigpy.util._normalize_axes"):
        _cmp(run, M, q, REF[q], {"sigpy.util.resize": "X1", "sigpy.util._normalize_axes": "X3"}.get(q, "X2"))
    _flip_circshift(run, M)
    _shapes(run, M)
    _blocks(run, M)
    _wrappers(run, M)


# operator class -> (function it wraps, {function keyword: constructor parameter it must receive}); a parameter that is None on a
# constructor path may be handed on as None or as the function's own documented default (ZERO_DEFAULT: shift=None means no shift)
WRAPPERS = {
    "Resize": ("sigpy.util.resize", {"oshape": "oshape", "ishift": "ishift", "oshift": "oshift"}),
    "Flip": ("sigpy.util.flip", {"axes": "axes"}),
    "Circshift": ("sigpy.util.circshift", {"shifts": "shift", "axes": "axes"}),
    "Downsample": ("sigpy.util.downsample", {"factors": "factors", "shift": "shift"}),
    "Upsample": ("sigpy.util.upsample", {"oshape": "oshape", "factors": "factors", "shift": "shift"}),
    "ArrayToBlocks": ("sigpy.block.array_to_blocks", {"blk_shape": "blk_shape", "blk_strides": "blk_strides"}),
    "BlocksToArray": ("sigpy.block.blocks_to_array", {"oshape": "oshape", "blk_shape": "blk_shape", "blk_strides": "blk_strides"}),
}
ZERO_DEFAULT = {"shift"}


def _wrappers(run, M):
    """X8: the operator classes add nothing of their own to the index map: _apply is the function applied to the input with the
    constructor's arguments, unchanged (so everything X1-X7 establish for the functions holds for the operators)"""
    run.rule("X8", "Resize/Flip/Circshift/Downsample/Upsample/ArrayToBlocks/BlocksToArray._apply call their function on the input with exactly the constructor's "
                   "arguments (a None default is passed on as None or as the function's documented default)")
    alg = LinAlg(M)
    n = 0
    for cname, (fq, kws) in WRAPPERS.items():
        cls = M.cls("sigpy.linop." + cname)
        f, _ = alg.eval_method(alg.instances(cls)[0], "_apply")
        for inst in alg.instances(cls):
            _, res = alg.eval_method(inst, "_apply")
            for conds, ret in res:
                n += 1
                ctext = [T.show(c, 120) for c in conds]
                at = ret.single_atom() if isinstance(ret, T.Poly) else None
                bad = []
                if at is None or at[0] != "app" or at[1] != "fn:" + fq:
                    bad.append("returns %s, not %s(input, ...)" % (_show(ret)[:160], fq.split(".")[-1]))
                else:
                    got = {}
                    for x in at[2]:
                        xa = T.dec(x).single_atom() if isinstance(T.dec(x), T.Poly) else None
                        if xa is not None and xa[0] == "app" and xa[1].startswith("kw:"):
                            got[xa[1][3:]] = T.dec(xa[2][0])
                    if "input" not in got or T.show(_tt(got["input"]), 50) != "input":
                        bad.append("the function is not applied to the operator's input")
                    for kw, par in kws.items():
                        v = got.get(kw)
                        shown = "None" if v is None else T.show(_tt(v), 200)
                        is_none = ("is(%s, None)" % par) in ctext
                        allowed = {par}
                        if is_none:
                            allowed |= {"None"}
                        ok = shown in allowed or (v is None and is_none)
                        if not ok and is_none and kw in ZERO_DEFAULT and shown.startswith("repeat([0], len("):
                            ok = True     # [0] * len(shape): the function's own default spelled out
                        if not ok:
                            bad.append("%s receives %s for `%s`; the constructor was given `%s`%s" % (
                                fq.split(".")[-1], shown, kw, par, " = None" if is_none else ""))
                run.check(not bad, "X8", "%s._apply [%s]" % (cname, cond_text(conds)[:60]), f.loc(), "is %s(input, constructor arguments)" % fq.split(".")[-1],
                          "%s._apply under [%s]: %s" % (cname, cond_text(conds)[:100], "; ".join(bad[:3])), stmt="X8:%s:%s" % (cname, cond_text(conds)[:60]))
    run.floor("X8", 7, n, "operator wrappers examined")


def _tt(v):
    from ..linopdesc import _t as _lt
    return _lt(v)


def _cmp(run, M, q, ref_src, rule):
    f = M.func(q)
    real = {"ndim"}
    _, code = vn_paths(M, f, real=real)
    _, ref = vn_ref(ref_src.strip(), model=M, func=f, real=real)
    code = [o for o in code if o.status == "return"]
    ref = [o for o in ref if o.status == "return"]
    bad = []
    ok = len(code) == len(ref)
    for o in code:
        cs = frozenset(c.key() for c in o.conds)
        m = [r for r in ref if frozenset(c.key() for c in r.conds) == cs]
        if len(m) != 1 or T.enc(o.ret) != T.enc(m[0].ret):
            ok = False
            bad.append("under [%s] returns %s%s" % (cond_text(o.conds), _show(o.ret), "; documented: " + _show(m[0].ret) if len(m) == 1 else ""))
    run.check(ok, rule, q, f.loc(), "equals the documented form on %d path(s)" % len(ref),
              "%s deviates from its documented form: %s" % (q, "; ".join(bad[:2]) or "different case split (%d vs %d paths)" % (len(code), len(ref))), stmt="%s:%s" % (rule, q))


def _flip_circshift(run, M):
    f = M.func("sigpy.util.flip")
    # unrolled over a rank-3 input with symbolic membership: the slice list has -1 steps exactly where d in axes
    from ..vn import unroll_loop
    vn = VN(M, f, loop_hook=unroll_loop)
    orig = vn.ev_Attribute

    def ev_attr(e, st):
        if e.attr == "ndim" and isinstance(e.value, ast.Name) and e.value.id == "input":
            return T.const(3)
        return orig(e, st)
    vn.ev_Attribute = ev_attr
    outs = [o for o in vn.run(f.body, State()) if o.status == "return"]
    axn = T.app("fn:sigpy.util._normalize_axes", T.app("kw:axes", T.sym("axes")), T.app("kw:ndim", T.const(3)))
    rev = T.app("slice", NONE, NONE, T.const(-1))
    full = T.app("slice", NONE)
    ok = len(outs) == 8
    for o in outs:
        member = []
        for d in range(3):
            c_in = T.app("in", T.const(d), axn)
            keys = [c.key() for c in o.conds]
            if c_in.key() in keys:
                member.append(True)
            elif T.app("notin", T.const(d), axn).key() in keys:
                member.append(False)
            else:
                ok = False
                member.append(None)
        want = T.app("getitem", T.sym("input"), tuple(rev if m else T.app("slice", NONE, NONE, NONE) for m in member))
        if not (isinstance(o.ret, T.Poly) and o.ret == want):
            ok = False
    run.check(ok, "X3", "sigpy.util.flip", f.loc(), "rank-3 unrolling: reversed slice exactly on the normalised axes (8 membership cases)",
              "flip does not reverse exactly the axes in _normalize_axes(axes, ndim): %s" % [(cond_text(o.conds)[:60], _show(o.ret)) for o in outs[:2]], stmt="X3:flip")
    f = M.func("sigpy.util.circshift")
    vn = VN(M, f, loop_hook=unroll_loop)
    want = "call:numpy.roll(call:numpy.roll(input, s0, kw:axis(a0)), s1, kw:axis(a1))"
    try:
        outs = [o for o in vn.run(f.body, State({"axes": (S("a0"), S("a1")), "shifts": (S("s0"), S("s1"))})) if o.status == "return"]
        got = T.show(outs[0].ret, 300) if len(outs) == 1 and isinstance(outs[0].ret, T.Poly) else ""
    except Unrecognised as e:
        # the listed axes reach the loop through something other than themselves (e.g. a sort): the pairing with `shifts` is not kept
        got = "a loop over something other than the listed axes (%s)" % e
    run.check(got == want, "X3", "sigpy.util.circshift", f.loc(), "rolls shift k along axis k for every pair",
              "circshift over (a0, a1), (s0, s1) computes %s; expected roll(roll(input, s0, axis=a0), s1, axis=a1)" % (got or "several paths"), stmt="X3:circshift")
    vn2 = VN(M, f, loop_hook=unroll_loop, inline={"sigpy.util._normalize_axes"})
    orig2 = vn2.ev_Attribute

    def ev_attr2(e, st):
        if e.attr == "ndim" and isinstance(e.value, ast.Name) and e.value.id == "input":
            return T.const(2)
        return orig2(e, st)
    vn2.ev_Attribute = ev_attr2
    want = "call:numpy.roll(call:numpy.roll(input, s0, kw:axis(0)), s1, kw:axis(1))"
    try:
        outs = [o for o in vn2.run(f.body, State({"axes": NONE, "shifts": (S("s0"), S("s1"))})) if o.status == "return"]
        got = T.show(outs[0].ret, 300) if len(outs) == 1 and isinstance(outs[0].ret, T.Poly) else ""
    except Unrecognised as e:
        got = "something this rule cannot read (%s)" % e
    run.check(got == want, "X3", "sigpy.util.circshift axes=None", f.loc(), "axes=None means all axes in order",
              "circshift(axes=None) on a rank-2 input computes %s; expected roll(roll(input, s0, axis=0), s1, axis=1)" % (got or "several paths"), stmt="X3:circshift-none")
    # axes listed out of order: shift k still belongs to the k-th *listed* axis
    vn3 = VN(M, f, loop_hook=unroll_loop, inline={"sigpy.util._normalize_axes"})
    vn3.ev_Attribute = lambda e, st, _o=vn3.ev_Attribute: T.const(2) if (e.attr == "ndim" and isinstance(e.value, ast.Name) and e.value.id == "input") else _o(e, st)
    want = "call:numpy.roll(call:numpy.roll(input, s0, kw:axis(1)), s1, kw:axis(0))"
    try:
        outs = [o for o in vn3.run(f.body, State({"axes": (T.const(1), T.const(0)), "shifts": (S("s0"), S("s1"))})) if o.status == "return"]
        got = T.show(outs[0].ret, 300) if len(outs) == 1 and isinstance(outs[0].ret, T.Poly) else "several paths"
    except Unrecognised as e:
        got = "something this rule cannot read (%s)" % e
    run.check(got == want, "X3", "sigpy.util.circshift axes=(1, 0)", f.loc(), "axes given out of order keep their own shifts",
              "circshift(input, (s0, s1), axes=(1, 0)) on a rank-2 input computes %s; expected roll(roll(input, s0, axis=1), s1, axis=0): the k-th shift belongs to "
              "the k-th listed axis" % got, stmt="X3:circshift-order")


def _shapes(run, M):
    alg = LinAlg(M)
    d = alg.instances(M.cls("sigpy.linop.Downsample"))
    u = alg.instances(M.cls("sigpy.linop.Upsample"))
    ref = VN().ev(ast.parse("[(i - s + f - 1) // f for i, f, s in zip(A, factors, shift)]", mode="eval").body,
                  State({"A": S("ishape"), "factors": S("factors"), "shift": S("shift")}))
    dd = [i for i in d if any("isnot" in T.show(c) for c in i.conds)]
    uu = [i for i in u if any("isnot" in T.show(c) for c in i.conds)]
    ok = len(dd) == 1 and len(uu) == 1 and val_eq(dd[0].oshape, ref) and val_eq(T.subst(uu[0].ishape, {"oshape": S("ishape")}), ref)
    run.check(ok, "X2", "Downsample/Upsample shapes", M.func("sigpy.linop.Downsample.__init__").loc(), "both use (n - s + f - 1)//f per axis",
              "Downsample.oshape is %s and Upsample.ishape is %s; expected (n - s + f - 1)//f per axis in both" % (_show(dd[0].oshape) if dd else "?", _show(uu[0].ishape) if uu else "?"),
              stmt="X2:shapes")
    # X7: the number-of-blocks formula at its three sites
    refnb = VN().ev(ast.parse("[(i - b + s) // s for i, b, s in zip(A, blk_shape, blk_strides)]", mode="eval").body,
                    State({"A": S("A"), "blk_shape": S("blk_shape"), "blk_strides": S("blk_strides")}))
    sites = []
    for q in ("sigpy.linop.ArrayToBlocks.__init__", "sigpy.linop.BlocksToArray.__init__", "sigpy.block.array_to_blocks"):
        f = M.func(q)
        # the site is whatever builds a list over zip(<sizes>, blk_shape, blk_strides): a comprehension, or the append-loop spelling it out
        # (value numbering reads both as the same comprehension term); located by value, whatever the local is called
        vn = VN(M, f, loop_hook=lambda v_, s_, st_: None)
        found = None
        try:
            outs_ = vn.run([s_ for s_ in f.body], State({}))
        except Unrecognised:
            outs_ = []
        for o_ in outs_:
            for k_, v_ in o_.env.items():
                if isinstance(v_, T.Poly):
                    a_ = v_.single_atom()
                    if a_ is not None and a_[0] == "app" and a_[1] == "comp" and len(a_[2]) == 2:
                        z_ = T.dec(a_[2][1])
                        za_ = z_.single_atom() if isinstance(z_, T.Poly) else None
                        if za_ is not None and za_[1] == "zip" and len(za_[2]) == 3 and "blk_strides" in T.symbols(z_):
                            found = v_
            if found is not None:
                break
        if found is None:
            # constructors of the operators: the comprehension sits in an assignment evaluated before super().__init__
            nodes_ = [f.node]
            if f.cls is not None:     # helper methods the constructor calls on self (shared constructor code factored out)
                for c_ in ast.walk(f.node):
                    if isinstance(c_, ast.Call) and isinstance(c_.func, ast.Attribute) and isinstance(c_.func.value, ast.Name) and c_.func.value.id == "self" \
                            and c_.func.attr in f.cls.methods and f.cls.methods[c_.func.attr] is not f:
                        nodes_.append(f.cls.methods[c_.func.attr].node)
            for n in [x_ for nd_ in nodes_ for x_ in ast.walk(nd_)]:
                if isinstance(n, (ast.ListComp, ast.GeneratorExp)) and any(isinstance(c, ast.Call) and isinstance(c.func, ast.Name) and c.func.id == "zip"
                                                                            and any(isinstance(a_, ast.Name) and a_.id == "blk_strides" for a_ in c.args) for c in ast.walk(n)):
                    found = VN(M, f).ev(n, State({}))
                    break
        if found is not None:
            sites.append((q, found, f.node))
    run.floor("X7", 3, len(sites), "sites computing the number of blocks")
    for q, t, n in sites:
        a = t.single_atom() if isinstance(t, T.Poly) else None
        ra = refnb.single_atom()
        ok = a is not None and a[0] == "app" and a[1] == "comp" and a[2][0] == ra[2][0]
        # the iterated sizes are the trailing D sizes of the array shape, zipped with blk_shape and blk_strides in this order
        if ok:
            z = T.dec(a[2][1]).single_atom()
            ok = z is not None and z[1] == "zip" and len(z[2]) == 3 and T.dec(z[2][1]) == T.sym("blk_shape") and T.dec(z[2][2]) == T.sym("blk_strides")
        run.check(ok, "X7", q, M.func(q).loc(n), "num_blks = (N - B + S)//S over the trailing block axes",
                  "%s computes the number of blocks as %s; expected [(n - b + s)//s for n, b, s in zip(sizes, blk_shape, blk_strides)]" % (q, _show(t)), stmt="X7:" + q)


# ------------------------------------------------------------------------------------------ block kernels
def _dispatch_roles(M, wrapper, kernel_name):
    """param -> (list name, k) from the dispatch call `kernel(output, input, batch_size, blk_shape[-1], ...)`"""
    f = M.func("sigpy.block." + wrapper)
    k = M.func("sigpy.block." + kernel_name)
    # the call of the kernel sits in the wrapper itself or in private helpers it delegates the dispatch to; names used at the call site are
    # traced back through the helpers' parameters to the wrapper's own names
    found = []
    work = [(f, {})]
    visited = set()
    while work:
        cur, ren = work.pop()
        if cur.qual in visited:
            continue
        visited.add(cur.qual)
        for c_ in calls_in(cur.node):
            if isinstance(c_.func, ast.Name) and c_.func.id == kernel_name:
                found.append((cur, c_, ren))
                continue
            tg_ = M.resolve_call(cur, c_)
            if tg_[0] == "repo" and tg_[1].mod is f.mod and tg_[1].cls is None and tg_[1].name.startswith("_") and tg_[1].qual != k.qual \
                    and not any(d_ for d_ in tg_[1].node.decorator_list):
                try:
                    b_ = M.bind(c_, tg_[1])
                except Unrecognised:
                    continue
                ren2 = {}
                for p_, n_ in b_.items():
                    if isinstance(n_, ast.Name):
                        ren2[p_] = ren.get(n_.id, n_.id)
                work.append((tg_[1], ren2))
    if len(found) != 1:
        raise Unrecognised("%d dispatch sites for %s" % (len(found), kernel_name), f.node)
    site_f, c, rename = found[0]
    bound = M.bind(c, k)
    roles = {}

    def role_of(name):
        """a parameter of the wrapper keeps its (API) name; a local is classified by what it is defined as"""
        name = rename.get(name, name)
        if name in f.params:
            return name
        defs = [n for n in ast.walk(f.node) if isinstance(n, ast.Assign) and len(n.targets) == 1 and isinstance(n.targets[0], ast.Name) and n.targets[0].id == name]
        if len(defs) != 1:
            return name
        v = defs[0].value
        if any(isinstance(x, ast.FloorDiv) for x in ast.walk(v)) and any(isinstance(x, (ast.ListComp, ast.GeneratorExp)) for x in ast.walk(v)):
            return "num_blks"   # [(i - b + s) // s for ...]  (rule X7 checks the formula itself)
        if isinstance(v, ast.Subscript) and isinstance(v.value, ast.Attribute) and v.value.attr == "shape" and isinstance(v.slice, ast.Slice):
            return "num_blks"   # the block-count axes of the blocks array: input.shape[-2*ndim:-ndim]
        if isinstance(v, ast.Call) and unparse(v.func).split(".")[-1] == "prod":
            return "batch_size"
        return name
    for p, node in bound.items():
        if isinstance(node, ast.Subscript) and isinstance(node.value, ast.Name):
            idx = node.slice
            if isinstance(idx, ast.UnaryOp) and isinstance(idx.op, ast.USub) and isinstance(idx.operand, ast.Constant):
                roles[p] = (role_of(node.value.id), idx.operand.value)
            else:
                roles[p] = (role_of(node.value.id), None)
        elif isinstance(node, ast.Name):
            roles[p] = (role_of(node.id), 0)
        else:
            roles[p] = (unparse(node), 0)
    # the dispatch is guarded by ndim == rank
    return f, k, c, roles


def _sym_name(t):
    a = t.single_atom() if isinstance(t, T.Poly) else None
    return a[1] if a is not None and a[0] == "sym" else None


def _blocks(run, M):
    n_kernels = 0
    for D in (1, 2, 3):
        # ---------------- gather
        name = "_array_to_blocks%d" % D
        wf, kf, call, roles = _dispatch_roles(M, "array_to_blocks", name)
        ks = summarize(M, kf)
        n_kernels += 1
        lab = name
        ok = len(ks.stores) == 1 and len(ks.loops) == 2 * D + 1
        run.check(ok, "X5", lab + " nest", kf.loc(), "batch loop, %d block-number loops, %d in-block loops, one store" % (D, D),
                  "%s has %d loops and %d stores" % (lab, len(ks.loops), len(ks.stores)), stmt="X5:nest:" + lab)
        if ok:
            st = ks.stores[0]
            loops = {T.show(l.var): l for l in ks.loops}
            src = [a for a in T.apps(st.value, "getitem") if T.dec(a[2][0]) == T.sym("input")] if isinstance(st.value, T.Poly) else []
            okv = len(src) == 1 and st.value == T.atom_poly(src[0]) and st.array == "output" and len(st.idx) == 2 * D + 1
            run.check(okv, "X5", lab + " store", kf.loc(st.node), "output[...] = input[...] (one element copied)",
                      "%s stores %s into %s[%s]" % (lab, _show(st.value), st.array, ", ".join(_show(x) for x in st.idx)), stmt="X5:store:" + lab)
            if okv:
                iidx = T.dec(src[0][2][1])
                guards = set()
                for c in st.conds:
                    guards |= _atoms_of_and(c)
                for k in range(1, D + 1):
                    it = iidx[len(iidx) - k]
                    nvar, bvar = st.idx[len(st.idx) - D - k], st.idx[len(st.idx) - k]
                    ln, lb = loops.get(T.show(nvar)), loops.get(T.show(bvar))
                    okk = ln is not None and lb is not None and len(ln.args) == 1 and len(lb.args) == 1
                    Np = _sym_name(ln.args[0]) if okk else None
                    Bp = _sym_name(lb.args[0]) if okk else None
                    Sp = None
                    if okk and isinstance(it, T.Poly):
                        # i = n*S + b
                        co = T.linear_coeffs(it, [T.show(bvar)])
                        if co is not None and co[0][T.show(bvar)] == T.const(1):
                            rest = co[1]
                            co2 = T.linear_coeffs(rest, [T.show(nvar)])
                            if co2 is not None and co2[1].is_zero():
                                Sp = _sym_name(co2[0][T.show(nvar)])
                    okk = okk and None not in (Np, Bp, Sp)
                    run.check(okk, "X5", "%s axis -%d index" % (lab, k), kf.loc(st.node), "input index = n*S + b with n over range(N), b over range(B)",
                              "%s: the input index at axis -%d is %s with output positions (%s, %s); expected n*S + b for that axis" % (lab, k, _show(it), _show(nvar), _show(bvar)),
                              stmt="X5:index:%s:%d" % (lab, k))
                    if not okk:
                        continue
                    g = VN().compare(ast.Lt(), it, T.app("getitem", T.app("attr:shape", T.sym("input"), real=True), T.const(-k)))
                    run.check(g.key() in guards, "X5", "%s axis -%d bound" % (lab, k), kf.loc(st.node), "guarded by index < input.shape[-%d]" % k,
                              "%s: the copy is not guarded by (n*S + b) < input.shape[-%d] for axis -%d (guards: %s)" % (lab, k, k, [T.show(T.from_key(x), 60) for x in guards]),
                              stmt="X5:bound:%s:%d" % (lab, k))
                    for p, want in ((Np, "num_blks"), (Bp, "blk_shape"), (Sp, "blk_strides")):
                        got = roles.get(p)
                        run.check(got == (want, k), "X4", "%s <- %s[-%d]" % (lab + "." + p, want, k), wf.loc(call), "dispatch passes %s[-%d]" % (want, k),
                                  "array_to_blocks passes %s to parameter `%s` of %s, which the kernel uses as the %s of axis -%d"
                                  % ("%s[-%s]" % got if got else "nothing", p, lab, {"num_blks": "number of blocks", "blk_shape": "block size", "blk_strides": "stride"}[want], k),
                                  stmt="X4:%s:%s" % (lab, p))
                bl = loops.get(T.show(st.idx[0]))
                run.check(bl is not None and _sym_name(bl.args[0]) is not None and roles.get(_sym_name(bl.args[0])) == ("batch_size", 0) and iidx[0] == st.idx[0],
                          "X5", lab + " batch", kf.loc(), "batch index shared by source and target", "%s: batch handling is not output[b,...] = input[b,...] over range(batch_size)" % lab,
                          stmt="X5:batch:" + lab)
        # ---------------- scatter
        name = "_blocks_to_array%d" % D
        wf, kf, call, roles = _dispatch_roles(M, "blocks_to_array", name)
        ks = summarize(M, kf)
        n_kernels += 1
        lab = name
        ok = len(ks.stores) == 1 and len(ks.loops) == 2 * D + 1
        run.check(ok, "X6", lab + " nest", kf.loc(), "batch loop, %d output-index loops, %d in-block loops, one store" % (D, D),
                  "%s has %d loops and %d stores" % (lab, len(ks.loops), len(ks.stores)), stmt="X6:nest:" + lab)
        if not ok:
            continue
        st = ks.stores[0]
        loops = {T.show(l.var): l for l in ks.loops}
        # early exits: `continue` only skips one candidate; a `break` also skips every later candidate of that loop, which is right only
        # for a condition that stays true for all of them: n = (i - b)//S decreases as b grows, so `n < 0` qualifies and `n >= N` does not
        for bconds, bnode in ks.breaks:
            last = bconds[-1] if bconds else None
            la = last.single_atom() if isinstance(last, T.Poly) else None
            fine = False
            if la is not None and la[0] == "app" and la[1] == "pos":
                inner = T.neg(T.dec(la[2][0]))           # pos(-n): n < 0
                ia = inner.single_atom() if isinstance(inner, T.Poly) else None
                fine = ia is not None and ia[0] == "app" and ia[1] == "floordiv"
            run.check(fine, "X6", lab + " early exit", kf.loc(bnode), "a break is taken only when the block number has dropped below 0 (it keeps decreasing)",
                      "%s leaves a block-offset loop with `break` under [%s]: later offsets of that loop can still hit valid blocks (the block number decreases with the "
                      "offset, so only `n < 0` is final), their contributions are lost" % (lab, T.show(last, 120) if last is not None else "?"), stmt="X6:break:" + lab)
        run.check(st.accumulate, "X6", lab + " accumulate", kf.loc(st.node), "overlapping blocks accumulate with +=",
                  "%s stores with `=`: overlapping blocks overwrite each other instead of summing (`%s`)" % (lab, unparse(st.node)), stmt="X6:acc:" + lab)
        src = [a for a in T.apps(st.value, "getitem") if T.dec(a[2][0]) == T.sym("input")] if isinstance(st.value, T.Poly) else []
        okv = len(src) == 1 and st.value == T.atom_poly(src[0]) and st.array == "output" and len(st.idx) == D + 1
        run.check(okv, "X6", lab + " store", kf.loc(st.node), "output[b, i..] += input[b, n.., b..]", "%s adds %s into %s[%s]" % (lab, _show(st.value), st.array, ", ".join(_show(x) for x in st.idx)),
                  stmt="X6:store:" + lab)
        if not okv:
            continue
        iidx = T.dec(src[0][2][1])
        guards = set()
        for c in st.conds:
            guards |= _atoms_of_and(c)
        okshape = len(iidx) == 2 * D + 1 and iidx[0] == st.idx[0]
        run.check(okshape, "X6", lab + " source rank", kf.loc(st.node), "input indexed [batch, n_D..n_1, b_D..b_1]", "%s reads input[%s]" % (lab, ", ".join(_show(x) for x in iidx)), stmt="X6:rank:" + lab)
        if not okshape:
            continue
        for k in range(1, D + 1):
            ivar = st.idx[len(st.idx) - k]
            nterm, bvar = iidx[len(iidx) - D - k], iidx[len(iidx) - k]
            li, lb = loops.get(T.show(ivar)), loops.get(T.show(bvar))
            okk = li is not None and lb is not None and len(lb.args) == 3
            if okk:
                okk = li.args == (T.app("getitem", T.app("attr:shape", T.sym("output"), real=True), T.const(-k)),)
            Sp = Bp = Np = None
            if okk:
                Bp, Sp = _sym_name(lb.args[1]), _sym_name(lb.args[2])
                okk = Bp is not None and Sp is not None and lb.args[0] == T.app("mod", ivar, T.sym(Sp, real=False) if False else lb.args[2], real=True)
            if okk:
                want_n = T.app("floordiv", T.sub(ivar, bvar), lb.args[2], real=True)
                okk = isinstance(nterm, T.Poly) and nterm == want_n
            run.check(okk, "X6", "%s axis -%d inverse image" % (lab, k), kf.loc(st.node),
                      "i over range(output.shape[-%d]); b in range(i %% S, B, S); n = (i - b)//S" % k,
                      "%s axis -%d: loops/indices are i in range(%s), b in range(%s), n = %s; expected i in range(output.shape[-%d]), b in range(i %% S, B, S), n = (i - b)//S"
                      % (lab, k, ", ".join(_show(a) for a in (li.args if li else ())), ", ".join(_show(a) for a in (lb.args if lb else ())), _show(nterm), k),
                      stmt="X6:inv:%s:%d" % (lab, k))
            if not okk:
                continue
            # guard 0 <= n < N
            ge0 = VN().compare(ast.GtE(), nterm, T.const(0))
            ups = [T.from_key(g) for g in guards]
            Np = None
            for g in ups:
                a = g.single_atom()
                if a is not None and a[1] == "pos":
                    d = T.dec(a[2][0])  # N - n > 0
                    rest = T.add(d, nterm)
                    if _sym_name(rest) is not None:
                        Np = _sym_name(rest)
            run.check(ge0.key() in guards and Np is not None, "X6", "%s axis -%d guard" % (lab, k), kf.loc(st.node), "guarded by 0 <= n < N",
                      "%s axis -%d: the accumulate is not guarded by 0 <= (i - b)//S < N (guards: %s)" % (lab, k, [T.show(x, 50) for x in ups]), stmt="X6:guard:%s:%d" % (lab, k))
            for p, want in ((Np, "num_blks"), (Bp, "blk_shape"), (Sp, "blk_strides")):
                if p is None:
                    continue
                got = roles.get(p)
                run.check(got == (want, k), "X4", "%s <- %s[-%d]" % (lab + "." + p, want, k), wf.loc(call), "dispatch passes %s[-%d]" % (want, k),
                          "blocks_to_array passes %s to parameter `%s` of %s, which the kernel uses as the %s of axis -%d"
                          % ("%s[-%s]" % got if got else "nothing", p, lab, {"num_blks": "number of blocks", "blk_shape": "block size", "blk_strides": "stride"}[want], k),
                          stmt="X4:%s:%s" % (lab, p))
    run.floor("X5", 6, n_kernels, "block kernels")
    # ---------------- wrappers: dispatch guarded by the rank, zero initialisation, reshapes
    for wname, kprefix in (("array_to_blocks", "_array_to_blocks"), ("blocks_to_array", "_blocks_to_array")):
        f = M.func("sigpy.block." + wname)

        def hook(vn, call, st, kprefix=kprefix):
            if isinstance(call.func, ast.Name) and call.func.id.startswith(kprefix):
                k = vn.key_of(call.args[0])
                args = [vn._as_term(vn.ev(a, st)) for a in call.args]
                st.env[k] = T.app("kernel:" + call.func.id, *args)
                return NONE
            return None
        vn = VN(M, f, call_hook=hook, real={"ndim"})
        outs = vn.run(f.body, State())
        rets = [o for o in outs if o.status == "return"]
        okw = len(rets) == 3
        for o in rets:
            a = o.ret.single_atom() if isinstance(o.ret, T.Poly) else None
            if a is None or a[1] != "reshape":
                okw = False
                continue
            inner = T.dec(a[2][0]).single_atom()
            rank = None
            for c in o.conds:
                ca = c.single_atom()
                if ca is not None and ca[1] == "zero":
                    c0 = T.dec(ca[2][0]).const()
                    if c0[0] != 0 and c0[1] == 0 and c0[0].denominator == 1:
                        rank = abs(int(c0[0]))
            if inner is None or not inner[1].startswith("kernel:" + kprefix) or rank is None or inner[1] != "kernel:%s%d" % (kprefix, rank):
                okw = False
                continue
            out0 = T.dec(inner[2][0]).single_atom()
            if out0 is None or out0[1] != "call:numpy.zeros":
                okw = False
        # length validation raises
        okw = okw and any(o.status == "raise" and any("len" in T.show(c) for c in o.conds) for o in outs)
        run.check(okw, "X7", "block." + wname, f.loc(), "lengths validated; rank d dispatches to kernel d on a zero-initialised output; result reshaped",
                  "%s: the wrapper does not (validate blk_shape/blk_strides lengths, dispatch rank d to kernel d on zeros, reshape): %s"
                  % (wname, [(cond_text(o.conds)[:50], o.status, _show(o.ret)[:80] if o.ret is not None and o.status == "return" else "") for o in outs][:4]), stmt="X7:wrapper:" + wname)


def _atoms_of_and(c):
    a = c.single_atom() if isinstance(c, T.Poly) else None
    if a is not None and a[0] == "app" and a[1] == "and":
        out = set()
        for x in a[2]:
            out |= _atoms_of_and(T.dec(x))
        return out
    return {c.key()}
