"""C10 (partial) -- the wavelet transform pair is built from one parameter tuple and one centred pad/crop.

W1 get_wavelet_shape, fwt, iwt and both operators pass one (wave_name, axes, level) tuple; mode="zero" at every pywt call;
   axes reaches wavedecn, coeffs_to_array and waverecn
W2 the even-padding formula ((i+1)//2)*2 is the same in the shape helper and in fwt; fwt pads and iwt crops with the centred util.resize;
   iwt reconstructs with the coefficient slices computed by the helper for the same arguments (InverseWavelet stores them)
NOT decided: that PyWavelets' filters are orthonormal and that mode="zero" with even padding is an isometry (properties of pywt).
"""
import ast

from .. import terms as T
from ..linopdesc import LinAlg, _show, val_eq
from ..model import calls_in, unparse
from ..vn import VN, State, cond_text
from .c06 import _cmp as cmp_ref

REF_SHAPE = """
zshape = [((i + 1) // 2) * 2 for i in shape]
tmp = pywt.wavedecn(np.zeros(zshape), wave_name, mode="zero", axes=axes, level=level)
tmp, coeff_slices = pywt.coeffs_to_array(tmp, axes=axes)
return tmp.shape, coeff_slices
"""
REF_FWT = """
device = backend.get_device(input)
input = backend.to_device(input, backend.cpu_device)
zshape = [((i + 1) // 2) * 2 for i in input.shape]
zinput = util.resize(input, zshape)
coeffs = pywt.wavedecn(zinput, wave_name, mode="zero", axes=axes, level=level)
output, _ = pywt.coeffs_to_array(coeffs, axes=axes)
return backend.to_device(output, device)
"""
REF_IWT = """
device = backend.get_device(input)
input = backend.to_device(input, backend.cpu_device)
c = pywt.array_to_coeffs(input, coeff_slices, output_format="wavedecn")
output = pywt.waverecn(c, wave_name, mode="zero", axes=axes)
output = util.resize(output, oshape)
return backend.to_device(output, device)
"""


def check(run, M, tier):
    run.rule("W1", "get_wavelet_shape / fwt / iwt equal their documented forms: one (wave_name, axes, level), mode='zero' at wavedecn and waverecn, axes at wavedecn, coeffs_to_array, waverecn")
    run.rule("W2", "even padding ((i+1)//2)*2 in helper and fwt, centred util.resize for pad and crop; InverseWavelet keeps the helper's coefficient slices for its own (oshape, wave_name, axes, level) and hands them to iwt")
    from .. import vn as _vn
    _vn.INT_IDENTITIES = True   # every arithmetic term in these functions is an array size
    run.assume("array sizes are integers: (n + 1)//2*2 and n + n % 2 are the same even padding")
    run.assume("PyWavelets: orthogonal families have orthonormal filters; wavedecn/waverecn with mode='zero' on even lengths are mutually adjoint")
    cmp_ref(run, M, "W1", "sigpy.wavelet.get_wavelet_shape", REF_SHAPE, hook=None)
    cmp_ref(run, M, "W1", "sigpy.wavelet.fwt", REF_FWT, hook=None)
    cmp_ref(run, M, "W1", "sigpy.wavelet.iwt", REF_IWT, hook=None)
    _vn.INT_IDENTITIES = False
    # defaults agree at all sites
    want = {"wave_name": "db4", "axes": None, "level": None}
    for q in ("sigpy.wavelet.get_wavelet_shape", "sigpy.wavelet.fwt", "sigpy.wavelet.iwt", "sigpy.linop.Wavelet.__init__", "sigpy.linop.InverseWavelet.__init__"):
        f = M.func(q)
        d = {k: (v.value if isinstance(v, ast.Constant) else unparse(v)) for k, v in f.defaults.items()}
        run.check(d == want, "W1", q + " defaults", f.loc(), "defaults %s" % want, "%s has defaults %s; the other sites use %s" % (q, d, want), stmt="W1:def:" + q)
    # operators
    alg = LinAlg(M)
    w = alg.instances(M.cls("sigpy.linop.Wavelet"))[0]
    iw = alg.instances(M.cls("sigpy.linop.InverseWavelet"))[0]
    S = lambda n: T.sym(n, real=True)
    helper = lambda shp: T.app("fn:sigpy.wavelet.get_wavelet_shape", T.app("kw:axes", S("axes")), T.app("kw:level", S("level")), T.app("kw:shape", shp), T.app("kw:wave_name", S("wave_name")))
    run.check(val_eq(w.oshape, T.app("getitem", helper(S("ishape")), T.const(0))), "W2", "Wavelet.oshape", M.func("sigpy.linop.Wavelet.__init__").loc(),
              "advertised shape = get_wavelet_shape(ishape, wave_name, axes, level)[0]", "Wavelet advertises %s" % _show(w.oshape), stmt="W2:Wavelet.oshape")
    run.check(val_eq(iw.ishape, T.app("getitem", helper(S("oshape")), T.const(0))) and val_eq(iw.attrs.get("coeff_slices"), T.app("getitem", helper(S("oshape")), T.const(1))),
              "W2", "InverseWavelet shape and slices", M.func("sigpy.linop.InverseWavelet.__init__").loc(),
              "ishape and coeff_slices come from one get_wavelet_shape(oshape, wave_name, axes, level) call",
              "InverseWavelet takes ishape %s and slices %s" % (_show(iw.ishape), _show(iw.attrs.get("coeff_slices"))), stmt="W2:InverseWavelet")
    f = M.func("sigpy.linop.InverseWavelet._apply")
    cs = [c for c in calls_in(f.node) if isinstance(c.func, ast.Attribute) and c.func.attr == "iwt"]
    from ..common import bound_args
    ba = bound_args(M, f, cs[0]) if len(cs) == 1 else None
    ok = ba == {"input": "input", "oshape": "self.oshape", "coeff_slices": "self.coeff_slices", "wave_name": "self.wave_name", "axes": "self.axes", "level": "self.level"}
    run.check(ok, "W2", "InverseWavelet._apply", f.loc(), "iwt(input, self.oshape, self.coeff_slices, wave_name, axes, level)",
              "InverseWavelet._apply calls `%s`" % (unparse(cs[0]) if cs else "nothing"), stmt="W2:iwt-call")
    f = M.func("sigpy.linop.Wavelet._apply")
    cs = [c for c in calls_in(f.node) if isinstance(c.func, ast.Attribute) and c.func.attr == "fwt"]
    ba = bound_args(M, f, cs[0]) if len(cs) == 1 else None
    ok = ba == {"input": "input", "wave_name": "self.wave_name", "axes": "self.axes", "level": "self.level"}
    run.check(ok, "W2", "Wavelet._apply", f.loc(), "fwt(input, wave_name, axes, level) with the stored parameters", "Wavelet._apply calls `%s`" % (unparse(cs[0]) if cs else "nothing"), stmt="W2:fwt-call")
    # W3 "the inverse is the adjoint of the forward transform": each operator names the other as its adjoint, for the same shape and the same
    # (wave_name, axes, level) -- a keyword lost on the way silently selects the default (all axes / db4 / maximum level)
    run.rule("W3", "Wavelet.H is InverseWavelet(ishape, wave_name, axes, level) and InverseWavelet.H is Wavelet(oshape, wave_name, axes, level) with the operator's own parameters")
    from ..linopdesc import LV, _t
    for inst, cname, partner, shape_attr in ((w, "Wavelet", "InverseWavelet", "ishape"), (iw, "InverseWavelet", "Wavelet", "oshape")):
        g, res = alg.eval_method(inst, "_adjoint_linop")
        for conds, ret in res:
            bad = []
            if not (isinstance(ret, LV) and ret.kind == "prim" and ret.cls.name == partner):
                bad.append("the adjoint is %s, not %s" % (_show(ret)[:120], partner))
            else:
                for kw in ("wave_name", "axes", "level"):
                    v = ret.attrs.get(kw)
                    shown = T.show(_t(v), 100) if v is not None else "missing"
                    if shown != kw:
                        bad.append("%s is built with %s = %s (this operator uses `%s`)" % (partner, kw, shown, kw))
                own = inst.ishape if shape_attr == "ishape" else inst.oshape
                other = ret.oshape if partner == "InverseWavelet" else ret.ishape
                if not val_eq(other, own):
                    bad.append("%s is built for shape %s, this operator's %s is %s" % (partner, _show(other)[:80], shape_attr, _show(own)[:80]))
            run.check(not bad, "W3", cname + "._adjoint_linop", g.loc(), "%s with the same shape, wave_name, axes, level" % partner,
                      "%s._adjoint_linop: %s" % (cname, "; ".join(bad[:3])), stmt="W3:" + cname)
