"""C15 -- solvers stop within max_iter and stop early only at genuine fixed points.

T1 only Alg.update advances iter, by one, after _update(); __init__ may only set it to 0
T2 every _done contains the budget test iter >= max_iter as a disjunct; Alg.done() returns _done()
T3 tol-based disjuncts: breakdown flag or `measure <= tol`; a difference-form measure covers every caller-provided
   solution array that _update writes in place
T3z no progress measure is a difference of two names for the same storage (a "snapshot" taken without a copy)
T4 App.run: one alg.update() per loop iteration, guarded by `not alg.done()`, returns _output()
T5 PowerMethod: x <- A(x)/||A(x)|| with the same quantity reported as the eigenvalue estimate
Not decided: monotonicity of the eigenvalue estimate (numerical).
"""
import ast
import re

from .. import terms as T
from ..common import vn_paths, vn_ref, compare_with_reference
from ..effects import Analyzer, Effects
from ..model import AnchorMissing, Unrecognised, calls_in, is_self_attr, unparse, walk_no_nested
from ..paths import calls_on_path, enumerate_paths
from ..linopdesc import havoc_loop
from ..vn import NONE, VN, State, cond_text
from ..zerodiff import ZeroDiff

CTL_T3Z = """
class C:
    def _update(self):
        z_old = self.z
        for i in range(len(self.L)):
            self.z[i] = self.prox(self.L[i] @ self.x)
        x_old = self.x
        self.x = self.step(self.x)
        for i in range(len(self.L)):
            self.s = self.z[i] - z_old[i]
        self.r = self.x - x_old
        w_old = list(self.w)
        for i in range(len(self.L)):
            backend.copyto(self.w[i], self.prox(self.L[i] @ self.x))
        for i in range(len(self.L)):
            self.t = self.w[i] - w_old[i]
        v_old = list(self.v)
        for i in range(len(self.L)):
            self.v[i] = self.prox(self.L[i] @ self.x)
        for i in range(len(self.L)):
            self.q = self.v[i] - v_old[i]
"""

ALG = "sigpy.alg.Alg"
REAL = {"self.iter", "self.max_iter", "self.tol", "self.resid", "self.residual", "self.alpha", "self.lamda2"}

REF_POWER = """
y = self.A(self.x)
if self.norm_func is None:
    self.max_eig = xp.linalg.norm(y)
else:
    self.max_eig = self.norm_func(y)
self.x = y / self.max_eig
"""


def _t1(run, M, base):
    upd = M.method(base, "update", inherit=False)
    if upd is None:
        raise AnchorMissing("Alg.update")
    n_sites = 0
    for q, f in sorted(M.funcs.items()):
        for n in walk_no_nested(f.node):
            tgts = []
            if isinstance(n, ast.Assign):
                tgts = n.targets
            elif isinstance(n, (ast.AugAssign, ast.AnnAssign)):
                tgts = [n.target]
            for t in tgts:
                for x in ast.walk(t):
                    if isinstance(x, ast.Attribute) and x.attr == "iter" and isinstance(x.ctx, ast.Store):
                        n_sites += 1
                        if f.qual == upd.qual:
                            ok = isinstance(n, ast.AugAssign) and isinstance(n.op, ast.Add) and isinstance(n.value, ast.Constant) and n.value.value == 1 \
                                and is_self_attr(x, "iter")
                            run.check(ok, "T1", "Alg.update", f.loc(n), "update advances iter by exactly one",
                                      "Alg.update changes iter by `%s`; expected `self.iter += 1`" % unparse(n), stmt=n)
                        elif f.name == "__init__" and f.cls is not None and (f.cls is base or M.is_subclass(f.cls, ALG)):
                            ok = isinstance(n, ast.Assign) and isinstance(n.value, ast.Constant) and n.value.value == 0 and is_self_attr(x, "iter")
                            run.check(ok, "T1", f.qual, f.loc(n), "constructor initialises iter to 0",
                                      "%s sets iter with `%s`; a constructor may only initialise it to 0" % (f.qual, unparse(n)), stmt=n)
                        else:
                            run.bad("T1", f.qual, f.loc(n), "%s writes the iteration counter (`%s`); only Alg.update may advance it, so the update budget "
                                    "max_iter is no longer the number of updates performed" % (f.qual, unparse(n)), stmt=n)
    run.floor("T1", 2, n_sites, "writes to an `iter` attribute")
    paths = enumerate_paths(upd.body)
    for p in paths:
        st = p.stmts()
        calls = [i for i, s in enumerate(st) if isinstance(s, ast.Expr) and isinstance(s.value, ast.Call) and is_self_attr(s.value.func, "_update")]
        incs = [i for i, s in enumerate(st) if isinstance(s, ast.AugAssign) and is_self_attr(s.target, "iter")]
        ok = p.end in ("fall", "return") and len(calls) == 1 and len(incs) == 1 and calls[0] < incs[0]
        run.check(ok, "T1", "Alg.update order", upd.loc(), "one _update() followed by one increment on every path",
                  "a path of Alg.update performs %d _update() call(s) and %d increment(s) (order %s)" % (len(calls), len(incs), "ok" if ok else "wrong"),
                  stmt="T1:order")


def check(run, M, tier):
    run.rule("T1", "self.iter is written only by Alg.update (`+= 1`, once, after self._update()) and set to the literal 0 in constructors")
    run.rule("T2", "every _done returns a disjunction containing `self.iter >= self.max_iter`; done() returns _done()")
    run.rule("T3", "every other disjunct of a tol-based _done is a breakdown flag or `measure <= tol`; if the measure is a norm of state differences it "
                   "contains the change of every caller-provided solution array that _update writes in place")
    run.rule("T3z", "no difference `v - v_old` in an algorithm is identically zero because v_old is the same object as v "
                    "(bound without a copy while v is only updated in place)")
    run.rule("T4", "App.run loops `while not alg.done()` with exactly one alg.update() per iteration and returns self._output()")
    run.rule("T5", "PowerMethod._update: y = A(x); estimate = ||y|| (or norm_func(y)); x <- y / estimate")
    base = M.cls(ALG)
    algs = M.subclasses(ALG)
    run.floor("T2", 10, len(algs), "Alg subclasses")
    eff = Effects(M)

    # ---------------------------------------------------------------- T1
    _t1(run, M, base)

    # ---------------------------------------------------------------- T2 / T3
    budget = None
    done_pub = M.method(base, "done", inherit=False)
    if done_pub is None:
        raise AnchorMissing("Alg.done")
    from ..model import resolve_temp
    last = done_pub.body[-1]
    src = "return" + unparse(resolve_temp(done_pub.node, last.value)).replace(" ", "") if isinstance(last, ast.Return) and last.value is not None else unparse(last).replace(" ", "")
    run.check(src == "returnself._done()", "T2", "Alg.done", done_pub.loc(), "done() returns self._done()", "Alg.done is `%s`" % unparse(done_pub.body[-1]), stmt="T2:done")
    dones = []
    for c in [base] + algs:
        f = M.method(c, "_done", inherit=False)
        if f is not None:
            dones.append((c, f))
    run.floor("T2", 7, len(dones), "_done definitions")
    bud = _term("self.iter >= self.max_iter")
    for c, f in dones:
        _, outs = vn_paths(M, f, real=REAL)
        rets = [o for o in outs if o.status == "return"]
        if len(rets) != 1 or not isinstance(rets[0].ret, T.Poly):
            raise Unrecognised("%s does not return a single boolean expression" % f.qual, f.node)
        dis = _disjuncts(rets[0].ret)
        # `super()._done()` (an inherited stopping test called, not re-spelled) stands for the disjuncts the parent's _done returns
        for _ in range(3):
            exp = []
            for d in dis:
                da = d.single_atom()
                if da is not None and da[0] == "app" and da[1].startswith("fn:") and da[1].endswith("._done") and not da[2]:
                    pf = M.funcs.get(da[1][3:])
                    if pf is not None and pf.qual != f.qual:
                        _, pouts = vn_paths(M, pf, real=REAL)
                        prets = [o for o in pouts if o.status == "return"]
                        if len(prets) == 1 and isinstance(prets[0].ret, T.Poly):
                            exp.extend(_disjuncts(prets[0].ret))
                            continue
                exp.append(d)
            if len(exp) == len(dis) and all(a == b for a, b in zip(exp, dis)):
                break
            dis = exp
        run.check(any(d == bud for d in dis), "T2", f.qual, f.loc(), "contains the budget test iter >= max_iter",
                  "%s returns %s, which lacks the disjunct `self.iter >= self.max_iter` (the update budget can be exceeded)" % (f.qual, T.show(rets[0].ret, 200)),
                  stmt="T2:" + c.name)
        others = [d for d in dis if d != bud]
        if not others:
            continue
        if c.name == "SDMM":
            run.info("T3 skipped for SDMM: its eps_pri/eps_dual criterion has no tol parameter (outside the tol = 0 clause)")
            continue
        _t3(run, M, eff, c, f, others)

    # ---------------------------------------------------------------- T6
    run.rule("T6", "Alg.__init__ stores the budget it is given (self.max_iter = max_iter) and starts the counter at 0")
    ainit = M.method(base, "__init__", inherit=False)
    if ainit is None:
        raise AnchorMissing("Alg.__init__")
    _, aouts = vn_paths(M, ainit, real=set())
    aouts = [o for o in aouts if o.status != "raise"]
    okb = bool(aouts) and all(o.env.get("self.max_iter") == T.sym("max_iter") and T.show(o.env.get("self.iter"), 10) == "0" for o in aouts)
    run.check(okb, "T6", "Alg.__init__", ainit.loc(), "self.max_iter = max_iter; self.iter = 0",
              "Alg.__init__ stores max_iter as %s and iter as %s: the budget test iter >= max_iter no longer enforces the requested number of updates "
              "(e.g. `max_iter or inf` turns a budget of 0 into no limit)" % (sorted({T.show(o.env.get("self.max_iter"), 80) for o in aouts}), sorted({T.show(o.env.get("self.iter"), 20) for o in aouts})),
              stmt="T6")
    # ---------------------------------------------------------------- T3z
    n_fn = 0
    for c in [base] + algs:
        for f in sorted((g for g in M.funcs.values() if g.cls is c), key=lambda g: g.qual):
            n_fn += 1
            hits = ZeroDiff(f).run()
            for node, text, attr, bind in hits:
                run.bad("T3z", f.qual, f.loc(node), "%s computes `%s`, which is zero for every input: both operands are the object held in self.%s "
                        "(`%s` does not copy the data and self.%s is only updated in place afterwards), so a stopping test built on it never "
                        "sees that part of the state move" % (f.qual, text, attr, unparse(bind) if bind is not None else "?", attr), stmt=node)
            if not hits:
                run.ok("T3z", f.qual, "no difference of two names for the same storage", f.loc())
    run.floor("T3z", 30, n_fn, "methods of Alg subclasses")
    ctl = ast.parse(CTL_T3Z).body[0].body[0]

    class _F:
        node = ctl
    got = [t for _, t, _, _ in ZeroDiff(_F).run()]
    run.control("T3z", "z_old = self.z; self.z[i] = ...; self.z[i] - z_old[i]", True, "self.z[i] - z_old[i]" in got)
    run.control("T3z", "x_old = self.x; self.x = step(self.x); self.x - x_old", False, "self.x - x_old" in got)
    run.control("T3z", "w_old = list(self.w); copyto(self.w[i], ..); self.w[i] - w_old[i]", True, "self.w[i] - w_old[i]" in got)
    run.control("T3z", "v_old = list(self.v); self.v[i] = ..; self.v[i] - v_old[i]", False, "self.v[i] - v_old[i]" in got)

    # ---------------------------------------------------------------- T4
    _t4(run, M)

    # ---------------------------------------------------------------- T5
    check_power_method(run, M, "T5")
    run.rule("T8", "NewtonsMethod._update: lamda2 = -Re<p, grad f(x)> with p = -H^-1 grad f(x); any lamda2 < 0 raises; residual = sqrt(lamda2) is what _done compares with tol")
    check_newton(run, M, "T8")

    # ---------------------------------------------------------------- T7
    _t7(run, M, eff, algs)

    # ---------------------------------------------------------------- breakdown detection of the one solver that has it
    from . import c12
    c12.check(run, M, tier)


REF_NEWTON = """
gradf_x = self.gradf(self.x)
p = -self.inv_hessf(self.x)(gradf_x)
self.lamda2 = -xp.real(xp.vdot(p, gradf_x)).item()
if self.lamda2 < 0:
    raise ValueError("not descending")
x_new = self.x + p
if self.beta < 1:
    fx = self.f(self.x)
    alpha = 1
    while self.f(x_new) > fx - alpha / 2 * self.lamda2:
        alpha *= self.beta
        x_new = self.x + alpha * p
backend.copyto(self.x, x_new)
self.residual = self.lamda2**0.5
"""


def check_newton(run, M, rule):
    """NewtonsMethod stops on residual = sqrt(lamda2) <= tol with lamda2 = -Re<p, grad f(x)> the Newton decrement: that is a fixed-point test only
    if every negative decrement (a non-descent direction: the inverse Hessian is wrong) is reported as a breakdown -- a tolerance on the sign,
    or clamping lamda2 at 0, turns such a step into "converged" after one update"""
    from ..linopdesc import havoc_loop
    f = M.func("sigpy.alg.NewtonsMethod._update")
    _, code = vn_paths(M, f, real=REAL | {"self.lamda2", "self.beta"}, loop_hook=havoc_loop)
    _, ref = vn_ref(REF_NEWTON.strip(), model=M, func=f, real=REAL | {"self.lamda2", "self.beta"}, loop_hook=havoc_loop)
    compare_with_reference(run, rule, "NewtonsMethod._update", f, code, ref, ["self.x", "self.lamda2", "self.residual"], "damped Newton step with the decrement as stopping measure")


def check_power_method(run, M, rule):
    """PowerMethod._update is the normalised power iteration (also used by C17: ESPIRiT's eigenvector maps are its iterate)"""
    pm = M.func("sigpy.alg.PowerMethod._update")
    _, code = vn_paths(M, pm, real=REAL)
    _, ref = vn_ref(REF_POWER.strip(), model=M, func=pm, real=REAL)
    compare_with_reference(run, rule, "PowerMethod._update", pm, code, ref, ["self.x", "self.max_eig"], "normalised power iteration")


def _t7(run, M, eff, algs):
    """"returns the solution the algorithm holds": the array the caller handed in as the solution (bound by the constructor, updated in place by
    _update) stays the object the algorithm works on -- a later `self.x = ...` or `self.x, self.z = self.z, self.x` leaves the caller (and every
    App._output that returns its own reference) with a stale array"""
    run.rule("T7", "an attribute that a solver's constructor binds to a caller-supplied array and that its methods update in place is never rebound outside the constructor")
    n = 0
    for c in algs:
        init = M.method(c, "__init__", inherit=False)
        if init is None:
            continue
        given = set()
        for node in ast.walk(init.node):
            if isinstance(node, ast.Assign) and len(node.targets) == 1 and is_self_attr(node.targets[0]) and isinstance(node.value, ast.Name) \
                    and node.value.id in init.params and node.value.id == node.targets[0].attr:
                given.add(node.targets[0].attr)
        inplace = set()
        for name, f in c.methods.items():
            sm = eff.of(f.qual)
            inplace |= {a for a in given if sm.detail.get(("A", a))}
        for a in sorted(given & inplace):
            n += 1
            bad = []
            for name, f in sorted(c.methods.items()):
                if name == "__init__":
                    continue
                for node in walk_no_nested(f.node):
                    if isinstance(node, ast.Assign):
                        for t in node.targets:
                            for x in ([t] if not isinstance(t, (ast.Tuple, ast.List)) else t.elts):
                                if is_self_attr(x, a):
                                    bad.append((f, node))
            if not bad:
                run.ok("T7", "%s.%s" % (c.name, a), "bound once to the caller's array, then only updated in place", init.loc())
            for f, node in bad:
                run.bad("T7", "%s.%s" % (c.name, a), f.loc(node), "%s rebinds self.%s (`%s`): the array the caller passed as the solution stops receiving the iterate, so "
                        "what the caller (or App._output) holds is no longer the solution the algorithm holds" % (f.qual, a, unparse(node)), stmt=node)
    run.floor("T7", 4, n, "caller-supplied solution arrays")


def _term(src):
    vn = VN(real=REAL)
    return vn.ev(ast.parse(src, mode="eval").body, State())


def _disjuncts(t):
    a = t.single_atom()
    if a is not None and a[0] == "app" and a[1] == "or":
        out = []
        for x in a[2]:
            out.extend(_disjuncts(T.dec(x)))
        return out
    return [t]


def _t3(run, M, eff, c, done_f, others):
    upd = M.method(c, "_update", inherit=False)
    init = M.method(c, "__init__", inherit=False)
    if upd is None or init is None:
        raise Unrecognised("%s has a tolerance test but no own _update/__init__" % c.qual, done_f.node)
    tol = T.sym("self.tol", real=True)
    measures = []
    for d in others:
        a = d.single_atom()
        if a is not None and a[0] == "sym":
            # a flag: must be set to True immediately before an early return of _update
            flag = a[1]
            ok = _flag_before_return(upd, flag) or _flag_path_is_inert(M, upd, flag)
            run.check(ok, "T3", "%s flag %s" % (c.name, flag), done_f.loc(), "breakdown flag set immediately before an early return of _update",
                      "%s._done stops on %s, which is not a breakdown flag set right before an early return of _update" % (c.name, flag), stmt="T3:flag:" + c.name)
            continue
        m = None
        if a is not None and a[0] == "app" and a[1] == "nonneg":
            diff = T.dec(a[2][0])  # tol - measure >= 0
            co = T.linear_coeffs(diff, ["self.tol"])
            if co is not None and co[0]["self.tol"] == T.const(1):
                m = T.neg(co[1])
        if m is None or m.single_atom() is None or m.single_atom()[0] != "sym":
            run.bad("T3", c.name + "._done", done_f.loc(), "%s._done contains the disjunct %s, which is neither the budget test, a breakdown flag nor `measure <= tol`"
                    % (c.name, T.show(d, 160)), stmt="T3:disjunct:" + c.name)
            continue
        measures.append(m.single_atom()[1])
    if not measures:
        return
    # in-place written caller-provided solution arrays
    an = Analyzer(eff, init)
    an.run()
    caller = {}
    for attr, node, roots in an.s.selfset_roots:
        ps = [r[1] for r in roots if r[0] == "P"]
        if ps and not any(r == ("F",) for r in roots):
            caller[attr] = ps[0]
    doc = M.cls(c.qual).node
    cdoc = ast.get_docstring(doc) or ""
    sm = eff.of(upd.qual)
    sol = []
    for attr in sorted(sm.attr_mut):
        if attr not in caller:
            continue
        m = re.search(r"^\s*%s\s*\(([^)]*)\)\s*:\s*(.*)$" % re.escape(caller[attr]), cdoc, re.M)
        desc = (m.group(1) + " " + m.group(2)).lower() if m else ""
        from .c02 import _KNOWN_DOCS
        if ("array" in desc and ("solution" in desc or "variable" in desc)) or caller[attr] in _KNOWN_DOCS.get("solution_params", {}).get(c.qual, ()):
            sol.append(attr)
    vn, outs = vn_paths(M, upd, real=REAL, loop_hook=havoc_loop)
    for mname in measures:
        for o in outs:
            if o.status == "raise":
                continue
            mt = o.env.get(mname)
            if mt is None or not isinstance(mt, T.Poly):
                continue  # not assigned on this path (early return): the previous value stands
            norms = [T.dec(a[2][0]) for a in T.apps(mt, "norm")]
            diffs = {}
            for attr in sol:
                new = o.env.get("self." + attr)
                if new is None or not isinstance(new, T.Poly):
                    continue
                D = T.sub(new, T.sym("self." + attr))
                if D.is_zero():
                    continue
                diffs[attr] = D
            covered = {attr for attr, D in diffs.items() if any(_proportional(t, D, sol) for t in norms if isinstance(t, T.Poly))}
            ctx = "%s.%s[%s]" % (c.name, mname.split(".")[-1], cond_text(o.conds)[:60])
            if not covered:
                run.ok("T3", ctx, "optimality-residual measure (no norm of a state difference): zero means solved", upd.loc())
                continue
            missing = sorted(set(diffs) - covered)
            run.check(not missing, "T3", ctx, upd.loc(), "difference-form measure covers every in-place solution array %s" % sorted(diffs),
                      "%s stops when %s <= tol, but %s measures only the change of %s while _update also rewrites %s in place: with tol = 0 the solver can stop "
                      "although %s is still moving" % (c.name, mname, mname, sorted(covered), missing, missing), stmt="T3:cover:%s" % c.name)


def _proportional(t, D, sol):
    """t == k * D for a scalar monomial k built from non-solution attributes"""
    if T.eq(t, D):
        return True
    solsyms = {"self." + a for a in sol}
    (mD, cD) = sorted(D.t.items(), key=repr)[0]
    for mt, ct in t.t.items():
        ratio = T.mono_mul(mt, frozenset((a, -e) for a, e in mD))
        k = T.Poly({ratio: T.cmul(ct, T.cinv(cD))})
        if T.symbols(k) & solsyms:
            continue
        if any(a[0] == "app" and a[1] in ("callv", "norm") or (a[0] == "app" and a[1].startswith("call")) for a, _ in ratio):
            continue
        if T.eq(t, T.mul(D, k)):
            return True
    return False


def _flag_path_is_inert(M, upd, flag):
    """semantic form of "set right before an early return": on every path of _update that raises the flag nothing else of the
    algorithm's state changes, and some path leaves the flag alone"""
    try:
        _, outs = vn_paths(M, upd, real=REAL, loop_hook=havoc_loop)
    except Unrecognised:
        return False
    raised = [o for o in outs if o.status != "raise" and T.show(o.env.get(flag), 10) == "True"]
    others = [o for o in outs if o.status != "raise" and o not in raised]
    if not raised or not others:
        return False
    for o in raised:
        for k, v in o.env.items():
            if k.startswith("self.") and k != flag and isinstance(v, T.Poly) and v != T.sym(k) and v != T.sym(k, real=True):
                return False
    return True


def _flag_before_return(upd, flag):
    attr = flag.split(".")[-1]
    for n in walk_no_nested(upd.node):
        body_lists = []
        for fld in ("body", "orelse"):
            b = getattr(n, fld, None)
            if isinstance(b, list):
                body_lists.append(b)
        for b in body_lists:
            for i, s in enumerate(b[:-1]):
                if (isinstance(s, ast.Assign) and any(is_self_attr(t, attr) for t in s.targets) and isinstance(s.value, ast.Constant)
                        and s.value.value is True and isinstance(b[i + 1], ast.Return)):
                    return True
    return False


def _t4(run, M):
    f = M.func("sigpy.app.App.run")
    loops = [n for n in walk_no_nested(f.node) if isinstance(n, ast.While)]
    run.floor("T4", 1, len(loops), "while loops in App.run")
    for w in loops:
        test = unparse(w.test).replace(" ", "")
        run.check(test == "notself.alg.done()", "T4", "App.run loop guard", f.loc(w), "loop runs while not self.alg.done()",
                  "App.run loops on `%s`; expected `not self.alg.done()`" % unparse(w.test), stmt="T4:guard")
        is_upd = lambda c: isinstance(c.func, ast.Attribute) and c.func.attr in ("update", "_update") and "alg" in unparse(c.func.value)
        for p in enumerate_paths(w.body):
            n = len(calls_on_path(p, is_upd))
            run.check(n == 1 and p._loop is None if hasattr(p, "_loop") else n == 1, "T4", "App.run body path", f.loc(w), "exactly one alg.update() per iteration",
                      "a path through the loop body of App.run performs %d alg.update() call(s)" % n, stmt="T4:body")
    rets = [n for n in walk_no_nested(f.node) if isinstance(n, ast.Return)]
    from ..model import resolve_temp
    ok = len(rets) == 1 and rets[0].value is not None and unparse(resolve_temp(f.node, rets[0].value)).replace(" ", "") == "self._output()"
    run.check(ok, "T4", "App.run return", f.loc(), "returns self._output()", "App.run returns `%s`" % (unparse(rets[0].value) if rets and rets[0].value else None), stmt="T4:ret")
    # no update outside the loop
    outside = [c for c in calls_in(f.node) if isinstance(c.func, ast.Attribute) and c.func.attr == "update" and "alg" in unparse(c.func.value)
               and not any(c in list(ast.walk(w)) for w in loops)]
    run.check(not outside, "T4", "App.run updates", f.loc(), "no alg.update() outside the guarded loop", "alg.update() is also called outside the `while not done` loop", stmt="T4:outside")
