"""C04 -- the normal operator A.N is A^H A.

N1 the base-class default is Compose(self.H, self); the N / H properties cache exactly _normal_linop() / _adjoint_linop()
N2 every override returns either A^H A itself or an Identity shortcut, the latter only for unitary primitives
N3 NUFFT's Toeplitz normal operator is an adjoint palindrome R^H F^H P F R around Multiply(psf), psf from NUFFT's own parameters
N4 consumers: no in-place `+=` can modify a cached operator (Linop defines no __iadd__)
Not decided: accuracy of the Toeplitz embedding (interpolation error of the NUFFT).
"""
import ast

from .. import terms as T
from ..common import vn_paths, vn_ref
from ..linopdesc import LV, LinAlg, _show, val_eq
from ..model import AnchorMissing, Unrecognised, unparse
from ..vn import NONE, State, cond_text
from .c01 import COMBINATORS, apply_signatures, main_signature

# unitary primitives (facts about mathematics/numpy): A^H A = I
UNITARY = {
    "identity": "identity",
    "to_device": "a copy is the identity map",
    "reshape": "relabelling of entries",
    "transpose": "axis permutation",
    "fn:sigpy.fourier.fft[input]": "orthonormal centred DFT (norm='ortho' default, checked here and in C05)",
    "fn:sigpy.fourier.ifft[input]": "orthonormal centred inverse DFT",
    "fn:sigpy.util.circshift[input]": "cyclic permutation",
    "fn:sigpy.util.flip[input]": "permutation",
    "fn:sigpy.util.upsample[input]": "isometry: strided scatter into zeros followed by the strided gather returns the input",
    "embed": "isometry: zero-extension followed by restriction returns the input",
}

REF_CACHE = """
if self.{slot} is None:
    self.{slot} = self.{meth}()
return self.{slot}
"""


def _n1(run, M, alg, base):
    f = M.method(base, "_normal_linop", inherit=False)
    if f is None:
        raise AnchorMissing("Linop._normal_linop")
    me = alg.opaque("self")
    vn = alg.vn(f)
    outs = [o for o in vn.run(f.body, State({"self": me})) if o.status == "return"]
    ok = (len(outs) == 1 and isinstance(outs[0].ret, LV) and outs[0].ret.kind == "compose" and len(outs[0].ret.parts) == 2
          and outs[0].ret.parts[0].kind == "adj" and outs[0].ret.parts[0].parts[0] is me and outs[0].ret.parts[1] is me)
    run.check(ok, "N1", "Linop._normal_linop", f.loc(), "default normal operator is self.H * self",
              "default _normal_linop returns %s; expected the composition self.H * self (apply A, then A^H)"
              % (outs[0].ret.describe() if outs and isinstance(outs[0].ret, LV) else "an unrecognised value"), stmt=f.node.body[-1])
    for prop, slot, meth in (("N", "normal", "_normal_linop"), ("H", "adj", "_adjoint_linop")):
        pf = M.method(base, prop, inherit=False)
        if pf is None:
            raise AnchorMissing("Linop." + prop)
        _, code = vn_paths(M, pf)
        _, ref = vn_ref(REF_CACHE.format(slot=slot, meth=meth), model=M, func=pf)
        same = len(code) == len(ref) and all(
            any(c.status == r.status and [x.key() for x in c.conds] == [x.key() for x in r.conds]
                and T.enc(c.ret) == T.enc(r.ret) and T.enc(c.env.get("self." + slot, NONE)) == T.enc(r.env.get("self." + slot, NONE))
                for r in ref) for c in code)
        run.check(same, "N1", "Linop." + prop, pf.loc(), "property %s returns the cached result of self.%s()" % (prop, meth),
                  "property %s does not have the form `if self.%s is None: self.%s = self.%s(); return self.%s`" % (prop, slot, slot, meth, slot),
                  stmt=pf.node.body[-1])



def _unit_scalar_apply(M, c):
    """every returning path of c._apply returns k * input for a literal constant k with |k| = 1 (`-input`, `1j * input`): a unitary map"""
    from ..common import vn_paths
    af = M.method(c, "_apply", inherit=False)
    if af is None or not af.params or len(af.params) < 2:
        return False
    try:
        _, outs = vn_paths(M, af)
    except Exception:
        return False
    x = T.sym(af.params[1])
    rets = [o for o in outs if o.status == "return"]
    if not rets:
        return False
    for o in rets:
        r = o.ret
        if not isinstance(r, T.Poly) or len(r.t) != 1:
            return False
        (m, k), = r.t.items()
        if T.Poly({m: T.ONE}) != x or k[0] * k[0] + k[1] * k[1] != 1:
            return False
    return True


def check(run, M, tier):
    run.rule("N1", "Linop._normal_linop returns self.H * self (adjoint first); properties N/H return the cached result of _normal_linop()/_adjoint_linop()")
    run.rule("N2", "an overriding _normal_linop returns A^H A or an Identity/self shortcut; the shortcut is admissible only for unitary primitives "
                   "and only if _apply passes no normalisation/shape override")
    run.rule("N3", "NUFFT Toeplitz path: chain is an adjoint palindrome around Multiply(psf); psf = toeplitz_psf(self.coord, self.ishape, self.oversamp, self.width); "
                   "R = Resize(psf.shape, self.ishape); FFT over the last ndim axes; the non-Toeplitz path is A^H A")
    run.rule("N3b", "toeplitz_psf (anchor sigpy/fourier.py:219-263) evaluates nufft_adjoint(nufft(delta)) on the 2x grid of the *whole* input shape with one "
                    "(new_coord, oversamp, width), then the unnormalised FFT over the last ndim axes times 2^ndim (same comparison as C06/U4)")
    run.rule("N4", "no Linop class defines __iadd__/__imul__, so `AHA += ...` in the apps rebinds instead of mutating the cached A.N")
    from .c06 import REF_PSF, _cmp, psf_instances_equal
    from ..linopdesc import havoc_loop as _hl
    if psf_instances_equal(M):
        run.ok("N3b", "sigpy.fourier.toeplitz_psf", "equals the documented pipeline for every rank instance (1-3 transform dimensions, 0-2 batch axes, symbolic sizes)",
               M.func("sigpy.fourier.toeplitz_psf").loc())
    else:
        _cmp(run, M, "N3b", "sigpy.fourier.toeplitz_psf", REF_PSF, loop_hook=_hl)
    alg = LinAlg(M)
    base = M.cls("sigpy.linop.Linop")

    # ---- N1
    _n1(run, M, alg, base)

    # ---- N2 / N3
    classes = [c for c in sorted(alg.classes.values(), key=lambda c: c.node.lineno) if c.mod.name == "sigpy.linop"]
    overrides = [c for c in classes if M.method(c, "_normal_linop", inherit=False) is not None]
    run.floor("N2", 6, len(overrides), "classes overriding _normal_linop")
    run.count("classes", len(classes))
    for c in overrides:
        nf = M.method(c, "_normal_linop", inherit=False)
        sig = None
        if c.name not in COMBINATORS:
            af, sigs = apply_signatures(alg, c)
            sig = main_signature(sigs)
        for inst in alg.instances(c):
            _, res = alg.eval_method(inst, "_normal_linop")
            me = None
            for conds, r in res:
                extra = [x for x in conds if x not in inst.conds]
                ctx = "%s[%s]" % (c.name, cond_text(inst.conds + extra)[:70])
                if not isinstance(r, LV):
                    # e.g. `return self.A.N`: the normal operator of a *different* operator (a wrapped child), which is A^H A only if the
                    # wrapper adds nothing -- not one of the admissible forms of this rule
                    run.bad("N2", ctx, nf.loc(), "%s._normal_linop returns %s, which is neither self.H * self nor an admissible shortcut of this operator (the normal "
                            "operator of a wrapped operator is that of the wrapper only if the wrapper acts as the identity)" % (c.name, _show(r)[:140]), stmt="N2:" + c.name)
                    continue
                kind = _classify_normal(alg, inst, r)
                if kind == "identity":
                    if sig not in UNITARY and c.name not in COMBINATORS and _unit_scalar_apply(M, c):
                        run.ok("N2", ctx, "Identity shortcut: _apply multiplies by a constant of modulus 1", nf.loc())
                    elif sig in UNITARY:
                        okk = _no_override(run, c, sigs, nf)
                        run.check(okk, "N2", ctx, nf.loc(), "Identity shortcut for the unitary primitive %s (%s)" % (sig, UNITARY[sig]),
                                  "%s returns the Identity shortcut although its _apply overrides the normalisation/output shape of %s" % (c.name, sig),
                                  stmt="N2:" + c.name)
                    else:
                        run.bad("N2", ctx, nf.loc(),
                                "%s._normal_linop returns Identity, but its primitive %s is not unitary in general (A^H A != I, e.g. for overlapping or "
                                "gapped parameters): A.N(x) differs from A.H(A(x))" % (c.name, sig), stmt="N2:" + c.name)
                elif kind == "AHA":
                    run.ok("N2", ctx, "returns self.H * self", nf.loc())
                elif c.name == "NUFFT":
                    _check_toeplitz(run, alg, c, inst, r, nf, ctx, extra)
                else:
                    run.bad("N2", ctx, nf.loc(), "%s._normal_linop returns %s, which is neither A^H A nor an admissible shortcut" % (c.name, r.describe()[:140]),
                            stmt="N2:" + c.name)
    # every other class inherits N1 (counted)
    run.ok("N2", "inherited default", "%d classes inherit the default A^H A" % (len(classes) - len(overrides)))

    # ---- N4b consumers never update the result of A.N(x) / A.H(y) in place inside the functions they hand to the solvers
    run.rule("N4b", "the closures LinearLeastSquares builds around A.N never update an operator result in place (an Identity normal operator returns the iterate itself)")
    from ..common import check_operator_results_not_updated
    from ..effects import Effects
    _eff = Effects(M)
    _cl = [f for q, f in sorted(M.funcs.items()) if f.parent is not None and q.startswith("sigpy.app.LinearLeastSquares.")]
    check_operator_results_not_updated(run, _eff, "N4b", _cl, "the iterate x, so that the solver no longer works on A^H A x")
    # ---- N4
    offenders = []
    for c in [base] + classes:
        for nm in ("__iadd__", "__imul__", "__isub__"):
            if nm in c.methods:
                offenders.append("%s.%s" % (c.name, nm))
    run.check(not offenders, "N4", "Linop in-place operators", "%s:%d" % (base.mod.path, base.node.lineno),
              "no in-place operator overloads: `AHA += X` rebinds AHA to a new Add node and leaves the cached A.N untouched",
              "in-place operator overloads %s let `AHA += ...` in LinearLeastSquares modify the cached normal operator" % offenders, stmt="N4")
    app = M.mod("sigpy.app")
    n_sites = sum(1 for n in ast.walk(app.tree) if isinstance(n, ast.Attribute) and n.attr == "N")
    run.floor("N4", 4, n_sites, "uses of .N in sigpy/app.py")


def _classify_normal(alg, inst, r):
    if r.kind == "prim" and r.cls.name == "Identity":
        return "identity"
    if r.kind == "prim" and r.as_term() == alg.self_lv(inst).as_term():
        return "identity" if inst.cls.name == "Identity" else "self"
    if r.kind == "compose" and len(r.parts) == 2:
        me = alg.self_lv(inst)
        try:
            h = alg.adjoint(me, conds=inst.conds)
        except Unrecognised:
            return "other"
        if r.parts[1].as_term() == me.as_term() and r.parts[0].as_term() == h.as_term():
            return "AHA"
    return "other"


def _no_override(run, c, sigs, nf):
    """FFT/IFFT: unitary only with norm='ortho' and without oshape override"""
    for conds, s, kw in sigs:
        if s.startswith("fn:sigpy.fourier.") and s.endswith("fft[input]"):
            norm = kw.get("norm")
            osh = kw.get("oshape")
            if norm is None or norm != T.sym("'ortho'", real=True) or (osh is not None and osh != NONE):
                return False
    return True


def _check_toeplitz(run, alg, c, inst, r, nf, ctx, extra):
    where = nf.loc()
    parts = r.parts if r.kind == "compose" else []
    n = len(parts)
    ok_shape = n == 5 and all(p.kind == "prim" for p in parts)
    run.check(ok_shape, "N3", ctx + " chain", where, "chain of 5 primitive operators",
              "Toeplitz normal operator is %s; expected R^H * F^H * Multiply(psf) * F * R" % r.describe()[:160], stmt="N3:chain")
    if not ok_shape:
        return
    conds = list(inst.conds) + list(extra)
    for k in range(2):
        a = parts[k]
        b = alg.adjoint(parts[n - 1 - k], conds=conds)
        run.check(a.as_term() == b.as_term(), "N3", "%s palindrome[%d]" % (ctx, k), where,
                  "factor %d (%s) is the adjoint of factor %d (%s)" % (k, a.describe()[:40], n - 1 - k, parts[n - 1 - k].describe()[:40]),
                  "factor %d of the Toeplitz chain is %s but the adjoint of factor %d is %s: the chain is not of the form B^H P B"
                  % (k, a.describe()[:80], n - 1 - k, b.describe()[:80]), stmt="N3:pal%d" % k)
    P, F, R = parts[2], parts[3], parts[4]
    run.check(P.cls.name == "Multiply" and F.cls.name == "FFT" and R.cls.name == "Resize", "N3", ctx + " classes", where,
              "middle factors are Multiply, FFT, Resize", "chain classes are %s" % [p.cls.name for p in parts], stmt="N3:cls")
    if not (P.cls.name == "Multiply" and F.cls.name == "FFT" and R.cls.name == "Resize"):
        return
    psf = P.args["mult"]
    want = T.app("fn:sigpy.fourier.toeplitz_psf", T.app("kw:coord", inst.attrs["coord"]), T.app("kw:oversamp", inst.attrs["oversamp"]),
                 T.app("kw:shape", inst.ishape), T.app("kw:width", inst.attrs["width"]))
    run.check(val_eq(psf, want), "N3", ctx + " psf", where, "psf = toeplitz_psf(self.coord, self.ishape, self.oversamp, self.width)",
              "the point-spread function is %s; expected toeplitz_psf with the operator's own coord, ishape, oversamp and width (%s)"
              % (_show(psf), _show(want)), stmt="N3:psf")
    pshape = T.app("attr:shape", psf)
    run.check(val_eq(R.oshape, pshape) and val_eq(R.ishape, inst.ishape) and R.args.get("ishift") == NONE and R.args.get("oshift") == NONE,
              "N3", ctx + " R", where, "R = Resize(psf.shape, self.ishape) (centred)",
              "R is %s; expected the centred Resize(psf.shape, self.ishape)" % R.describe()[:120], stmt="N3:R")
    run.check(val_eq(F.oshape, pshape) and val_eq(P.ishape, pshape), "N3", ctx + " F/P shapes", where, "FFT and Multiply act on psf.shape",
              "FFT/Multiply shapes are %s / %s; expected psf.shape" % (_show(F.oshape), _show(P.ishape)), stmt="N3:FP")
    from ..common import term_of_src
    ndim = T.app("getitem", T.app("attr:shape", inst.attrs["coord"]), T.const(-1))
    refs = [term_of_src("tuple(range(-1, -(N + 1), -1))", {"N": ndim}), term_of_src("tuple(range(-N, 0))", {"N": ndim}),
            term_of_src("range(-N, 0)", {"N": ndim})]
    axes = F.args["axes"]
    run.check(any(val_eq(axes, x) for x in refs) and F.args.get("center") in (None, T.sym("True", real=True)), "N3", ctx + " F axes", where,
              "centred FFT over the last coord.shape[-1] axes",
              "FFT axes are %s (center=%s); expected the last ndim = coord.shape[-1] axes, centred" % (_show(axes), _show(F.args.get("center"))),
              stmt="N3:axes")
