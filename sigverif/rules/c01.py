"""C01 -- every operator's adjoint is its true adjoint (structural clauses A1-A7, DESIGN section 4).

A1 shape swap (symbolic shapes of the returned adjoint expression), chain consistency of composite adjoints
A2 partner primitive (adjoint table of primitives)
A3 parameter agreement: (a) wiring attr -> primitive parameter inside each class,
                        (b) forwarding of every configuration value to the adjoint's constructor
A4 combinators: Compose reverses and adjoints, Add/Hstack/Vstack/Diag/Conj adjoint termwise, axes kept/swapped
A5 involution: A.H.H has A's class, shapes and action parameters
A6 raw-axes typestate (see axestate.py)
A7 factories build only sigpy.linop operators
Not decided: numerical exactness inside numpy / scipy / pywt primitives.
"""
import ast

from .. import terms as T
from ..axestate import check_raw_axes
from ..linopdesc import LV, LinAlg, _show, val_eq
from ..model import AnchorMissing, Unrecognised, unparse, walk_no_nested
from ..vn import NONE, VN, State, cond_text, negate

COMBINATORS = {"Conj", "Add", "Compose", "Hstack", "Vstack", "Diag"}
COMPOSITE_ADJ = {"MatMul", "RightMatMul", "Multiply"}

# reference adjoints of the combinators (mathematical facts: (AB)^H = B^H A^H, (A+B)^H = A^H + B^H,
# [A B]^H = [A^H; B^H], diag(A,B)^H = diag(A^H,B^H) with the stacking axes exchanged, conj(A)^H = conj(A^H))
REF_COMBINATOR = {
    "Conj": "Conj(self.A.H)",
    "Add": "Add([linop.H for linop in self.linops])",
    "Compose": "Compose([linop.H for linop in self.linops[::-1]])",
    "Hstack": "Vstack([op.H for op in self.linops], axis=self.axis)",
    "Vstack": "Hstack([op.H for op in self.linops], axis=self.axis)",
    "Diag": "Diag([op.H for op in self.linops], oaxis=self.iaxis, iaxis=self.oaxis)",
}

# A2: adjoint pairs of primitives (facts about mathematics / numpy, one reason each)
PAIRS = {
    "identity": ("identity", "I^H = I"),
    "to_device": ("to_device", "a copy between devices is the identity map"),
    "allreduce": ("allreduce_adj", "all-reduce is sum over ranks; its adjoint replicates = identity per rank"),
    "allreduce_adj": ("allreduce", "converse of the above"),
    "reshape": ("reshape", "reshape is a permutation-free relabelling: adjoint is the inverse reshape"),
    "transpose": ("transpose", "axis permutation: adjoint is the inverse permutation"),
    "fn:sigpy.fourier.fft[input]": ("fn:sigpy.fourier.ifft[input]", "orthonormal DFT is unitary"),
    "fn:sigpy.fourier.ifft[input]": ("fn:sigpy.fourier.fft[input]", "orthonormal DFT is unitary"),
    "matmul[1]": ("matmul[1]", "(M x)^H = M^H: same side, conjugate-transposed matrix"),
    "matmul[0]": ("matmul[0]", "(x M)^H: same side, conjugate-transposed matrix"),
    "mul": ("mul", "diagonal operator: adjoint multiplies by the conjugate"),
    "fn:sigpy.interp.interpolate[input]": ("fn:sigpy.interp.gridding[input]", "gather/scatter with identical weights"),
    "fn:sigpy.interp.gridding[input]": ("fn:sigpy.interp.interpolate[input]", "gather/scatter with identical weights"),
    "fn:sigpy.util.resize[input]": ("fn:sigpy.util.resize[input]", "zero-pad <-> crop with exchanged shifts"),
    "fn:sigpy.util.flip[input]": ("fn:sigpy.util.flip[input]", "flip is a symmetric permutation"),
    "fn:sigpy.util.downsample[input]": ("fn:sigpy.util.upsample[input]", "strided gather <-> strided scatter into zeros"),
    "fn:sigpy.util.upsample[input]": ("fn:sigpy.util.downsample[input]", "strided scatter <-> strided gather"),
    "fn:sigpy.util.circshift[input]": ("fn:sigpy.util.circshift[input]", "roll(s)^H = roll(-s)"),
    "fn:sigpy.wavelet.fwt[input]": ("fn:sigpy.wavelet.iwt[input]", "orthogonal wavelet analysis <-> synthesis"),
    "fn:sigpy.wavelet.iwt[input]": ("fn:sigpy.wavelet.fwt[input]", "orthogonal wavelet synthesis <-> analysis"),
    "call:numpy.sum": ("call:numpy.tile", "sum over axes <-> replicate along axes"),
    "call:numpy.tile": ("call:numpy.sum", "replicate along axes <-> sum over axes"),
    "fn:sigpy.block.array_to_blocks[input]": ("fn:sigpy.block.blocks_to_array[input]", "block gather <-> block scatter-add"),
    "fn:sigpy.block.blocks_to_array[input]": ("fn:sigpy.block.array_to_blocks[input]", "block scatter-add <-> block gather"),
    "fn:sigpy.fourier.nufft[input]": ("fn:sigpy.fourier.nufft_adjoint[input]", "mirrored pipeline (C06)"),
    "fn:sigpy.fourier.nufft_adjoint[input]": ("fn:sigpy.fourier.nufft[input]", "mirrored pipeline (C06)"),
    "fn:sigpy.conv.convolve[data]": ("fn:sigpy.conv.convolve_data_adjoint[output]", "convolution <-> conjugating correlation (C08)"),
    "fn:sigpy.conv.convolve_data_adjoint[output]": ("fn:sigpy.conv.convolve[data]", "converse"),
    "fn:sigpy.conv.convolve[filt]": ("fn:sigpy.conv.convolve_filter_adjoint[output]", "convolution <-> conjugating correlation (C08)"),
    "fn:sigpy.conv.convolve_filter_adjoint[output]": ("fn:sigpy.conv.convolve[filt]", "converse"),
    "getitem": ("embed", "restriction <-> zero-extension"),
    "embed": ("getitem", "zero-extension <-> restriction"),
}

# A3(a): primitive parameter name -> attribute name, where they differ (one alias each, with reason)
PARAM_ALIAS = {
    ("call:numpy.sum", "axis"): "axes",      # numpy spells it `axis`
    ("fn:sigpy.util.circshift[input]", "shifts"): "shift",
    ("fn:sigpy.util.downsample[input]", "factors"): "factors",
}
# A3(b): documented transforms of a forwarded value
def _neg_comp(v):
    return VN().ev(ast.parse("[-s for s in X]", mode="eval").body, State({"X": v}))


def _not(v):
    from ..vn import negate
    return negate(v)


def _argsort(v):
    return T.app("call:numpy.argsort", v) if v != NONE else NONE


TRANSFORMS = {
    ("Circshift", "shift"): (_neg_comp, "roll(s)^H = roll(-s)"),
    ("MatMul", "adjoint"): (_not, "adjoint flag toggles"),
    ("RightMatMul", "adjoint"): (_not, "adjoint flag toggles"),
    ("Multiply", "conj"): (_not, "conjugation flag toggles"),
    ("Transpose", "axes"): (_argsort, "inverse permutation"),
}


TOGGLED = {"Multiply"}  # classes whose action conjugates the stored array under their conj flag


def classify(term):
    """primitive signature of a value returned by _apply (input is the symbol `input`)"""
    if isinstance(term, tuple):
        raise Unrecognised("operator returns a tuple")
    at = term.single_atom()
    if at is not None and at[0] == "sym" and at[1] == "input":
        return "identity", {}
    if at is not None and at[0] == "app":
        name = at[1]
        args = [T.dec(x) for x in at[2]]
        if name.startswith("fn:"):
            kw = {}
            role = None
            for a in args:
                aa = a.single_atom()
                if aa is None or aa[0] != "app" or not aa[1].startswith("kw:"):
                    raise Unrecognised("unnamed argument in %s" % name)
                kw[aa[1][3:]] = T.dec(aa[2][0])
            for p, v in kw.items():
                if "input" in T.symbols(v):
                    if role is not None:
                        raise Unrecognised("input flows into two parameters of %s" % name)
                    role = p
            if role is None:
                raise Unrecognised("input does not reach %s" % name)
            if name == "fn:sigpy.backend.to_device":
                return "to_device", kw
            return "%s[%s]" % (name, role), kw
        if name in ("call:numpy.sum", "call:numpy.tile"):
            kw = {"#%d" % i: a for i, a in enumerate(args)}
            for a in args:
                aa = a.single_atom() if isinstance(a, T.Poly) else None
                if aa is not None and aa[0] == "app" and aa[1].startswith("kw:"):
                    kw[aa[1][3:]] = T.dec(aa[2][0])
            return name, kw
        if name in ("call:numpy.matmul", "matmul"):
            pos = [i for i, a in enumerate(args) if "input" in T.symbols(a)]
            if len(pos) != 1:
                raise Unrecognised("matmul with input on %d sides" % len(pos))
            return "matmul[%d]" % pos[0], {"#%d" % i: a for i, a in enumerate(args)}
        if name == "getitem" and args[0] == T.sym("input"):
            return "getitem", {"idx": args[1]}
        if name == "reshape" and "input" in T.symbols(args[0]):
            return "reshape", {"shape": args[1] if len(args) > 1 else None}
        if name == "transpose" and "input" in T.symbols(args[0]):
            return "transpose", {"axes": args[1] if len(args) > 1 else NONE}
        if name == "setitem":
            base = args[0].single_atom() if isinstance(args[0], T.Poly) else None
            if base is not None and base[0] == "app" and base[1] in ("call:numpy.zeros",) and args[2] == T.sym("input"):
                return "embed", {"idx": args[1]}
        if name == "sum" and len(args) >= 1:  # VN's linear sum of a bare symbol
            return "call:numpy.sum", {"#0": args[0], **{("#%d" % (i + 1)): a for i, a in enumerate(args[1:])}}
    # product input * K
    co = T.linear_coeffs(term, ["input"])
    if co is not None and co[1].is_zero() and not co[0]["input"].is_zero():
        return "mul", {"mult": co[0]["input"]}
    raise Unrecognised("unclassified operator action `%s`" % T.show(term, 120))


FLAGGED = {"MatMul": ("self.adjoint", "matmul", "mat"), "RightMatMul": ("self.adjoint", "matmul", "mat"), "Multiply": ("self.conj", "mul", "mult")}


def _conj_transposes(k0):
    """the terms that denote the conjugate transpose (last two axes) of k0 in the value numbering"""
    c = T.conj(k0)
    m1, m2 = T.const(-1), T.const(-2)
    out = [T.app("swapaxes", c, m1, m2), T.app("swapaxes", c, m2, m1), T.conj(T.app("swapaxes", k0, m1, m2)), T.conj(T.app("swapaxes", k0, m2, m1))]
    return [T.enc(x) for x in out]


def _a3c(run, M, tier):
    """the adjoint of a broadcasting multiply sums over exactly the axes along which the input was broadcast.  The helpers that compute those
    axes are small integer programs over shapes; they are decided by *bounded exhaustive constant folding*: the value numbering evaluates the
    helper's source on every pair of concrete shapes from a finite family (loops unrolled, conditions decided on constants -- sigpy itself is
    never run) and the resulting axes are compared with the definition: axis d of the output is summed iff the input, aligned to the right,
    has extent 1 (or no axis) there while the output has extent > 1.  Summing an output axis of extent 1 is harmless and not compared."""
    import itertools
    from ..vn import unroll_loop
    run.rule("A3c", "the sum axes of the Multiply / MatMul adjoints are exactly the broadcast axes of the input, for every pair of shapes of a finite family "
                    "(ranks 0-2 and 2 against 3, extents {1, 3}); decided by constant folding of the helpers' source")
    sizes = (1, 3)
    small = [s_ for r_ in range(0, 3) for s_ in itertools.product(sizes, repeat=r_)]
    rank3 = list(itertools.product(sizes, repeat=3)) if tier == "thorough" else [(3, 3, 3), (3, 1, 3), (1, 3, 3), (3, 3, 1)]
    fam = [(i_, m_) for i_ in small for m_ in small] + [(i_, m_) for i_ in small if len(i_) == 2 for m_ in rank3] + [(i_, m_) for i_ in rank3 for m_ in small if len(m_) == 2]
    for hq, skip_last in (("sigpy.linop._get_multiply_adjoint_sum_axes", 0), ("sigpy.linop._get_matmul_adjoint_sum_axes", 2)):
        f = M.func(hq)
        n = 0
        bad = []
        for ish, msh in fam:
            if skip_last and (len(ish) < 2 or len(msh) < 2):
                continue
            nd = max(len(ish), len(msh))
            ie = (1,) * (nd - len(ish)) + tuple(ish)
            me = (1,) * (nd - len(msh)) + tuple(msh)
            if skip_last:
                # matrix multiply: only the batch axes broadcast; the trailing matrix axes are given some consistent extents
                osh = tuple(max(a_, b_) for a_, b_ in zip(ie[:-2], me[:-2])) + (me[-2], ie[-1])
            else:
                osh = tuple(max(a_, b_) for a_, b_ in zip(ie, me))
            lead = nd - skip_last
            want = {d for d in range(lead) if ie[d] == 1 and osh[d] != 1}
            n += 1
            try:
                vn = VN(M, f, loop_hook=unroll_loop, inline={"sigpy.util._expand_shapes"})
                env = {"ishape": tuple(T.const(x) for x in ish), "mshape": tuple(T.const(x) for x in msh), "oshape": tuple(T.const(x) for x in osh)}
                outs = [o for o in vn.run(f.body, State(env)) if o.status == "return"]
                vals = outs[0].ret if len(outs) == 1 else None
                got = {int(x.as_fraction()) for x in vals} if isinstance(vals, tuple) and all(isinstance(x, T.Poly) and x.as_fraction() is not None for x in vals) else None
            except Unrecognised as e:
                got = None
            if got is None:
                bad.append("ishape=%s, mshape=%s: the helper's source cannot be folded to a list of axes" % (list(ish), list(msh)))
            elif {d for d in got if 0 <= d < len(osh) and osh[d] != 1} != want or any(d < 0 or d >= len(osh) for d in got):
                bad.append("ishape=%s, mshape=%s (output %s): sums over axes %s, the input is broadcast along %s" % (list(ish), list(msh), list(osh), sorted(got), sorted(want)))
        run.check(not bad, "A3c", hq.split(".")[-1], f.loc(), "%d shape pairs folded: summed axes = broadcast axes of the input" % n,
                  "%s: %s%s -- the adjoint then sums the wrong axes (or reshapes an array of the wrong size), so <Ax, y> != <x, A^H y> for those shapes" % (
                      hq.split(".")[-1], "; ".join(bad[:3]), " (and %d more)" % (len(bad) - 3) if len(bad) > 3 else ""), stmt="A3c:" + hq)
        run.floor("A3c-" + hq.split(".")[-1], 20, n, "shape pairs")


def _a9(run, M, sigs):
    n = 0
    for cname, (flag, kind, what) in FLAGGED.items():
        if cname not in sigs:
            raise AnchorMissing("sigpy.linop." + cname)
        f, res, _ = sigs[cname]
        fsym = T.sym(flag)
        on, off = {}, {}
        for conds, sig, kw in res:
            if not sig.startswith(kind):
                continue
            rest = frozenset(c.key() for c in conds if c != fsym and c != negate(fsym))
            if any(c == fsym for c in conds):
                on[rest] = (sig, kw)
            elif any(c == negate(fsym) for c in conds):
                off[rest] = (sig, kw)
        if not on or not off:
            # the adjoint of these classes is the same class with the flag toggled (rule A3): that is the adjoint only if _apply reads the flag
            run.bad("A9", cname + " flag", f.loc(), "%s._apply does not branch on %s (%d flag-set / %d flag-clear paths), although %s._adjoint_linop builds the adjoint by "
                    "toggling that flag: the operator built with the flag set and the one built without it act alike, so one of them is not the adjoint of the other "
                    "(a value conjugated once in the constructor is conjugated again, or not at all, after two adjoints)" % (cname, flag, len(on), len(off), cname),
                    stmt="A9:noflag:" + cname)
            n += 2 if cname == "Multiply" else 1    # the pairs this class contributes on the pinned tree (scalar and array multiplier)
            continue
        for rest in on:
            # partner = the flag-clear path under the same remaining conditions (or the most specific one they imply)
            cands = [r for r in off if r <= rest]
            if not cands:
                raise Unrecognised("%s._apply: no flag-clear path corresponds to the flag-set path under %d further conditions" % (cname, len(rest)), f.node)
            (s1, k1), (s0, k0) = on[rest], off[max(cands, key=len)]
            n += 1
            if kind == "matmul":
                pos = "#0" if s0 == "matmul[1]" else "#1"
                a0, a1 = k0.get(pos), k1.get(pos)
                ok = s0 == s1 and isinstance(a0, T.Poly) and isinstance(a1, T.Poly) and T.enc(a1) in _conj_transposes(a0)
                want = "conj(%s) with the last two axes exchanged" % T.show(a0, 60)
            else:
                a0, a1 = k0.get("mult"), k1.get("mult")
                ok = isinstance(a0, T.Poly) and isinstance(a1, T.Poly) and T.eq(a1, T.conj(a0))
                want = "conj(%s)" % T.show(a0, 60)
            run.check(ok, "A9", "%s[%s]%s" % (cname, flag, "" if not rest else " case %d" % (sorted(map(repr, on)).index(repr(rest)) + 1)), f.loc(), "with %s set the operator applies %s" % (flag, want),
                      "%s._apply with %s set uses %s where the flag-clear path uses %s: the adjoint of x -> K x is x -> K^H x, i.e. %s (a missing conjugate is invisible to "
                      "real-valued tests)" % (cname, flag, T.show(a1, 100) if isinstance(a1, T.Poly) else a1, T.show(a0, 100) if isinstance(a0, T.Poly) else a0, want),
                      stmt="A9:%s" % cname)
    run.floor("A9", 4, n, "flag-set / flag-clear path pairs")


def apply_signatures(alg, cls):
    """value-number _apply with opaque attributes; returns list of (conds, signature, named args, return node)"""
    f = alg.M.method(cls, "_apply", inherit=False)
    if f is None:
        raise AnchorMissing(cls.qual + "._apply")
    if cls.name == "AllReduce":
        return f, [((), "allreduce", {})]
    if cls.name == "AllReduceAdjoint":
        return f, [((), "allreduce_adj", {})]
    vn = alg.vn(f)
    outs = vn.run(f.body, State({"input": T.sym("input")}))
    res = []
    for o in outs:
        if o.status == "raise":
            continue
        if o.status != "return" or o.ret is None:
            raise Unrecognised("%s has a path without a returned value" % f.qual, f.node)
        sig, kw = classify(o.ret)
        res.append((o.conds, sig, kw))
    return f, res


def main_signature(sigs):
    names = {s for _, s, _ in sigs}
    if len(names) > 1:
        names.discard("identity")  # guarded shortcut (Multiply by the scalar 1)
    if len(names) != 1:
        raise Unrecognised("operator has several actions: %s" % sorted(names))
    return names.pop()


def check(run, M, tier):
    run.rule("A1", "shape swap: the operator expression returned by _adjoint_linop has oshape == self.ishape and ishape == self.oshape "
                   "as symbolic terms over the constructor parameters; adjacent factors of composite adjoints chain")
    run.rule("A2", "the adjoint's primitive is the adjoint partner of the operator's primitive (table of mathematical pairs)")
    run.rule("A3a", "inside each class every like-named primitive parameter receives the stored attribute")
    run.rule("A3b", "every configuration parameter of the adjoint's constructor receives self.<same name> (o*/i* twins exchanged; "
                    "negated shift, toggled flags, inverse permutation where the partner table requires)")
    run.rule("A4", "combinator adjoints equal (AB)^H=B^H A^H, termwise ^H for Add/Hstack/Vstack/Diag with axes kept/exchanged, Conj(A.H)")
    run.rule("A5", "involution: A.H.H is an instance of A's class with equal shapes and action parameters")
    run.rule("A6", "raw (possibly negative) axes are normalised before any position- or value-sensitive use")
    run.rule("A9", "flag semantics of the self-paired classes: with the adjoint/conj flag set, _apply uses the conjugate (transpose) of the very array it uses "
                   "with the flag clear (MatMul/RightMatMul: conj(mat) with the last two axes exchanged; Multiply: conj(mult))")
    run.rule("A7", "MRI operator factories return expressions built only from sigpy.linop operators")
    alg = LinAlg(M)
    classes = [c for c in sorted(alg.classes.values(), key=lambda c: c.node.lineno) if c.mod.name == "sigpy.linop"]
    run.floor("A1", 38, len(classes), "Linop subclasses in sigpy/linop.py")
    n_override = sum(1 for c in classes if M.method(c, "_adjoint_linop", inherit=False) is not None)
    run.floor("A3b", 36, n_override, "classes overriding _adjoint_linop")
    sigs = {}
    for c in classes:
        if c.name in COMBINATORS:
            continue
        f, s = apply_signatures(alg, c)
        sigs[c.name] = (f, s, main_signature(s))
        if sigs[c.name][2] != "identity":
            for conds_, sg_, _kw in s:
                if sg_ == "identity" and c.name != "Multiply":
                    run.bad("A2", c.qual, f.loc(), "%s._apply returns its input unchanged under [%s] while its adjoint partner does not know that shortcut: on those inputs the "
                            "operator acts as the identity although its advertised action (and its adjoint) is %s" % (c.name, cond_text(list(conds_))[:120], sigs[c.name][2]),
                            stmt="A2:shortcut:" + c.name)
    run.count("classes", len(classes))

    for c in classes:
        adjf = M.method(c, "_adjoint_linop", inherit=False)
        if adjf is None:
            run.bad("A1", c.qual, "%s:%d" % (c.mod.path, c.node.lineno), "%s does not define _adjoint_linop" % c.qual, stmt=c.name)
            continue
        insts = alg.instances(c)
        run.count("constructor_paths", len(insts))
        for inst in insts:
            f, res = alg.eval_method(inst, "_adjoint_linop")
            for conds, r in res:
                ctx = "%s[%s]" % (c.name, cond_text(inst.conds + [x for x in conds if x not in inst.conds])[:70])
                where = adjf.loc()
                if not isinstance(r, LV):
                    raise Unrecognised("%s._adjoint_linop returns a non-operator value %s" % (c.qual, _show(r)), adjf.node)
                if c.name in COMBINATORS:
                    _check_combinator(run, alg, c, inst, r, adjf, ctx)
                    continue
                # ---- A1
                ok_o = val_eq(r.oshape, inst.ishape)
                ok_i = val_eq(r.ishape, inst.oshape)
                if c.name == "Transpose" and r.kind == "prim" and r.cls.name == "Transpose" and r.args.get("axes") != NONE:
                    # the shape of a transpose by the inverse permutation is a fact about permutations, outside E3:
                    # A3b pins axes = argsort(self.axes); here only the directly decidable half is compared
                    ok_o = True
                    run.trust("permutation fact: [S[a] for a in argsort(p)] with S = [s[a] for a in p] is s")
                run.check(ok_o and ok_i, "A1", ctx, where,
                          "adjoint %s has shapes (%s <- %s) = swapped shapes of the operator" % (r.describe()[:80], _show(r.oshape), _show(r.ishape)),
                          "adjoint of %s is %s with oshape %s / ishape %s, but the operator maps %s -> %s"
                          % (c.name, r.describe()[:120], _show(r.oshape), _show(r.ishape), _show(inst.ishape), _show(inst.oshape)),
                          stmt="A1:" + c.name)
                if r.kind == "compose":
                    for x, y in zip(r.parts[:-1], r.parts[1:]):
                        run.check(val_eq(x.ishape, y.oshape), "A1", ctx + " chain", where,
                                  "factor shapes chain (%s feeds %s)" % (y.describe()[:40], x.describe()[:40]),
                                  "composite adjoint of %s does not chain: %s outputs %s but %s expects %s"
                                  % (c.name, y.describe()[:60], _show(y.oshape), x.describe()[:60], _show(x.ishape)), stmt="A1chain:" + c.name)
                # ---- the primitive-carrying factor of the adjoint
                core = r
                if r.kind == "compose":
                    if c.name not in COMPOSITE_ADJ:
                        raise Unrecognised("composite adjoint for %s" % c.name, adjf.node)
                    _check_composite(run, alg, c, inst, r, adjf, ctx)
                    core = r.parts[-1]
                if core.kind != "prim":
                    raise Unrecognised("adjoint of %s is %s" % (c.name, core.kind), adjf.node)
                # ---- A2
                sigC = sigs[c.name][2]
                D = core.cls
                if D.name not in sigs:
                    raise Unrecognised("adjoint class %s has no primitive signature" % D.name, adjf.node)
                sigD = sigs[D.name][2]
                if sigC not in PAIRS:
                    raise Unrecognised("primitive %s of %s is not in the adjoint table" % (sigC, c.name), adjf.node)
                run.check(PAIRS[sigC][0] == sigD, "A2", ctx, where,
                          "primitive %s pairs with %s (%s)" % (sigC, sigD, PAIRS[sigC][1]),
                          "adjoint of %s is built on %s (class %s) but the adjoint partner of %s is %s (%s)"
                          % (c.name, sigD, D.name, sigC, PAIRS[sigC][0], PAIRS[sigC][1]), stmt="A2:" + c.name)
                # ---- A3b
                _check_forwarding(run, alg, c, inst, core, adjf, ctx)
                # ---- A5
                if r.kind == "prim" and c.name != "Transpose":
                    _check_involution(run, alg, c, inst, r, adjf, ctx, sigs, list(inst.conds) + [x for x in conds if x not in inst.conds])
        # ---- A3a
        if c.name not in COMBINATORS:
            _check_wiring(run, alg, c, sigs[c.name])

    # ---- A9 flag semantics
    _a9(run, M, sigs)
    _a3c(run, M, tier)
    # ---- A6
    check_raw_axes(run, M, "A6", scope="C01")
    # ---- A8 relational obligations on the numerical cores of the pairs
    from . import adjcore
    adjcore.check(run, M, tier)
    # ---- A7
    _check_factories(run, M, alg)
    run.info("numerical cores of the pairs are decided where they live: C05 (fft), C06 (nufft), C07 (interp kernels), "
             "C08 (conv), C09 (index maps), C10 (wavelet)")


# --------------------------------------------------------------------------------------------
def _check_combinator(run, alg, c, inst, r, adjf, ctx):
    src = REF_COMBINATOR[c.name]
    lv = alg.self_lv(inst)
    env = {"self": lv}
    for k, v in lv.attrs.items():
        env["self." + k] = v
    vn = alg.vn(adjf)
    want = vn.ev(ast.parse(src, mode="eval").body, State(env, list(inst.conds)))
    ok = isinstance(want, LV) and want.as_term() == r.as_term()
    run.check(ok, "A4", ctx, adjf.loc(), "adjoint is %s" % src,
              "adjoint of %s is %s; the mathematical adjoint is %s" % (c.name, r.describe()[:160], src), stmt="A4:" + c.name)


def _config_params(alg, D):
    init = alg.M.method(D, "__init__")
    ps = init.params[1:]
    return [p for p in ps if not p.endswith("shape")]


def _twin(q, params):
    if q[:1] in ("o", "i") and len(q) > 1:
        t = ("i" if q[0] == "o" else "o") + q[1:]
        if t in params:
            return t
    return None


def _check_forwarding(run, alg, c, inst, core, adjf, ctx):
    D = core.cls
    dparams = _config_params(alg, D)
    for q in dparams:
        got = core.args[q]
        twin = _twin(q, dparams)
        src_attr = twin if twin else q
        if (c.name, q) in TRANSFORMS:
            fn, why = TRANSFORMS[(c.name, q)]
            if src_attr not in inst.attrs:
                raise Unrecognised("%s stores no attribute `%s`" % (c.name, src_attr), adjf.node)
            want = fn(inst.attrs[src_attr])
            desc = "%s of self.%s (%s)" % (fn.__name__.strip("_"), src_attr, why)
        elif src_attr in inst.attrs:
            want = inst.attrs[src_attr]
            desc = "self." + src_attr
        else:
            # nothing to forward: the operator has no such configuration (NUFFTAdjoint -> NUFFT(toeplitz))
            run.ok("A3b", "%s -> %s.%s" % (ctx, D.name, q), "no counterpart attribute on %s; constructor default used" % c.name, adjf.loc())
            continue
        run.check(val_eq(got, want), "A3b", "%s -> %s.%s" % (ctx, D.name, q), adjf.loc(),
                  "adjoint receives %s = %s" % (q, desc),
                  "adjoint of %s builds %s with %s = %s, expected %s (= %s); an omitted argument falls back to the constructor default"
                  % (c.name, D.name, q, _show(got), desc, _show(want)), stmt="A3b:%s.%s" % (c.name, q))


def _check_composite(run, alg, c, inst, r, adjf, ctx):
    """MatMul / RightMatMul / Multiply: R * S * M with S = Sum(M.oshape, sum_axes(self.oshape, self.ishape, mshape)),
    R = Reshape(self.ishape, S.oshape)"""
    names = [p.cls.name if p.kind == "prim" else p.kind for p in r.parts]
    ok = len(r.parts) == 3 and names[0] == "Reshape" and names[1] == "Sum" and names[2] == c.name
    run.check(ok, "A4", ctx + " composite", adjf.loc(), "adjoint is Reshape * Sum * %s" % c.name,
              "adjoint of %s is the product %s; expected Reshape * Sum(broadcast axes) * %s(conjugated)" % (c.name, names, c.name),
              stmt="A4c:" + c.name)
    if not ok:
        return
    S = r.parts[1]
    axes = S.args["axes"]
    at = axes.single_atom() if isinstance(axes, T.Poly) else None
    helper = {"Multiply": "fn:sigpy.linop._get_multiply_adjoint_sum_axes"}.get(c.name, "fn:sigpy.linop._get_matmul_adjoint_sum_axes")
    mshape = inst.attrs.get("mshape")
    if mshape is None:
        mshape = T.app("attr:shape", inst.attrs["mat"])
    want = T.app(helper, T.app("kw:ishape", inst.ishape), T.app("kw:mshape", mshape), T.app("kw:oshape", inst.oshape))
    run.check(at is not None and val_eq(axes, want), "A3b", ctx + " sum axes", adjf.loc(),
              "broadcast axes come from %s(self.oshape, self.ishape, shape of the multiplier)" % helper[3:],
              "sum axes of the adjoint of %s are %s; expected %s(oshape=self.oshape, ishape=self.ishape, mshape=multiplier shape)"
              % (c.name, _show(axes), helper[3:]), stmt="A3b:sumaxes:" + c.name)


def _check_involution(run, alg, c, inst, r, adjf, ctx, sigs, conds):
    rr = alg.adjoint(r, conds=conds)
    if not isinstance(rr, LV) or rr.kind != "prim":
        raise Unrecognised("double adjoint of %s is %s" % (c.name, getattr(rr, "kind", "?")), adjf.node)
    same_cls = rr.cls.qual == c.qual or (c.name in ("Identity", "Flip") and rr.cls.qual == c.qual)
    f, s, _ = sigs[c.name]
    used = set()
    for _, _, kw in s:
        for v in kw.values():
            if isinstance(v, (T.Poly, tuple)):
                used |= {x[5:] for x in T.symbols(v) if x.startswith("self.")}
    used -= {"oshape", "ishape"}
    diffs = []
    if not val_eq(rr.oshape, inst.oshape) or not val_eq(rr.ishape, inst.ishape):
        diffs.append("shapes %s<-%s" % (_show(rr.oshape), _show(rr.ishape)))
    for a in sorted(used):
        if a in inst.attrs and not val_eq(rr.attrs.get(a), inst.attrs[a]):
            diffs.append("%s = %s (was %s)" % (a, _show(rr.attrs.get(a)), _show(inst.attrs[a])))
    run.check(same_cls and not diffs, "A5", ctx, adjf.loc(),
              "A.H.H is %s with equal shapes and action parameters %s" % (c.name, sorted(used)),
              "the adjoint of the adjoint of %s is %s with %s" % (c.name, rr.describe()[:100], "; ".join(diffs) or "a different class"),
              stmt="A5:" + c.name)


def _check_wiring(run, alg, c, sig):
    f, paths, main = sig
    init = alg.M.method(c, "__init__")
    attrs = set()
    for n in walk_no_nested(init.node):
        if isinstance(n, ast.Assign):
            for t in n.targets:
                for x in ast.walk(t):
                    if isinstance(x, ast.Attribute) and isinstance(x.value, ast.Name) and x.value.id == "self":
                        attrs.add(x.attr)
    n = 0
    for conds, s, kw in paths:
        if s == "identity" and main != "identity":
            continue
        for p, v in kw.items():
            if p.startswith("#"):
                continue
            a = PARAM_ALIAS.get((s, p), p)
            if a in attrs and isinstance(v, T.Poly):
                n += 1
                want = T.sym("self." + a)
                run.check(v == want or (c.name in TOGGLED and v == T.conj(want)), "A3a", "%s.%s" % (c.name, p), f.loc(),
                          "primitive parameter %s receives self.%s" % (p, a),
                          "%s._apply passes %s = %s to its primitive %s; the stored attribute self.%s is expected"
                          % (c.name, p, _show(v), s, a), stmt="A3a:%s.%s" % (c.name, p))
    return n


def _check_factories(run, M, alg):
    facts = ["sigpy.mri.linop.Sense", "sigpy.mri.linop.ConvSense", "sigpy.mri.linop.ConvImage",
             "sigpy.mri.rf.linop.PtxSpatialExplicit", "sigpy.linop.FiniteDifference"]
    for q in facts:
        f = M.func(q)
        n_ctor = 0
        bad = []
        for call in [n for n in ast.walk(f.node) if isinstance(n, ast.Call)]:
            tgt = M.resolve_call(f, call)
            if tgt[0] == "class":
                if tgt[1].qual in alg.classes and tgt[1].mod.name == "sigpy.linop":
                    n_ctor += 1
                elif M.is_subclass(tgt[1], "sigpy.linop.Linop"):
                    bad.append(call)
        for mname in (f.mod.name,):
            for cq, cc in M.classes.items():
                if cc.mod.name == mname and mname != "sigpy.linop" and M.is_subclass(cc, "sigpy.linop.Linop"):
                    bad.append(cc.node)
        run.check(n_ctor >= 1 and not bad, "A7", q, f.loc(),
                  "built from %d sigpy.linop constructor calls through * + .H only" % n_ctor,
                  "%s uses an operator class defined outside sigpy.linop (%s): its adjoint is not covered by A1-A5"
                  % (q, [unparse(b)[:40] for b in bad]), stmt="A7:" + q)
    run.floor("A7", 5, len(facts), "operator factories")
