"""C19 (partial) -- every state update of the Bloch simulators (and the peel step of the inverse SLR transform) is unitary.

Q1 per simulator, one loop iteration maps the Cayley-Klein pair (a, b) linearly, (a', b') = M (a, b), and M^H M = I:
   |M00|^2 + |M10|^2 = 1, |M01|^2 + |M11|^2 = 1, conj(M00) M01 + conj(M10) M11 = 0   (decided in the term normal form)
Q2 phase-accrual factors are unit phasors exp(i * real); the steps applied after the loop (rewinder, total phase) are unitary too
Q3 the initial state is the identity rotation (a, b) = (1, 0)
Q4 ab2rf peels one hard pulse with a unitary matrix built from c = (1 + |b/a|^2)^(-1/2), s = conj(c b / a)
NOT decided: that SLR design and simulation are mutual inverses, composition of waveforms, behaviour at exactly zero flip (eps regularisers are read as 0).
"""
import ast

from .. import terms as T
from ..model import AnchorMissing, Unrecognised, unparse
from ..vn import NONE, VN, State, cond_text, is_tuple

SIMS = {
    "sigpy.mri.rf.sim.abrm": dict(state=("a", "b"), real={"x", "om", "g", "phi"}, env={"eps": 0}),
    "sigpy.mri.rf.sim.abrm_nd": dict(state=("a", "b"), real={"x", "g", "om", "phi"}, env={"eps": 0}),
    "sigpy.mri.rf.sim.abrm_hp": dict(state=("a", "b"), real={"xx", "gamgdt", "dom0dt", "Nt"}, env={}),
    "sigpy.mri.rf.sim.abrm_ptx": dict(state=("statea", "stateb"), real={"x", "g", "dt", "gam", "bz", "phi", "fmap"}, env={}),
    "sigpy.mri.rf.optcont.blochsim": dict(state=("a", "b"), real={"x", "g"}, env={}),
}


class SimVN(VN):
    """value numbering with two simulator idioms: n = column_stack((..)); n[:, k]   and   v[isinf(v)] = 0 (ignored: generic phi != 0)"""

    def ev_Subscript(self, e, st):
        base = self.ev(e.value, st)
        if is_tuple(base) and isinstance(e.slice, ast.Tuple) and len(e.slice.elts) == 2 and isinstance(e.slice.elts[0], ast.Slice):
            i = self._int(e.slice.elts[1], st, None)
            if i is not None and 0 <= i < len(base):
                return base[i]
        return VN.ev_Subscript(self, e, st)

    def assign(self, tgt, val, st, node):
        if isinstance(tgt, ast.Subscript) and isinstance(tgt.slice, ast.Call) and unparse(tgt.slice.func).endswith("isinf"):
            return  # masks the phi == 0 samples; outside the generic case analysed here
        return VN.assign(self, tgt, val, st, node)


def unitary_obligations(new_a, new_b, names):
    """returns list of (label, held, detail) for M^H M = I, or raises Unrecognised if the update is not linear"""
    ca = T.linear_coeffs(new_a, list(names))
    cb = T.linear_coeffs(new_b, list(names))
    if ca is None or cb is None:
        raise Unrecognised("state update is not linear in the previous state")
    (coa, ra), (cob, rb) = ca, cb
    M00, M01 = coa[names[0]], coa[names[1]]
    M10, M11 = cob[names[0]], cob[names[1]]
    one = T.const(1)
    zero = T.const(0)
    obs = [
        ("update is homogeneous (no constant term)", ra.is_zero() and rb.is_zero(), ""),
        ("|M00|^2 + |M10|^2 = 1", T.eq(T.add(T.absq(M00), T.absq(M10)), one), T.show(T.add(T.absq(M00), T.absq(M10)), 300)),
        ("|M01|^2 + |M11|^2 = 1", T.eq(T.add(T.absq(M01), T.absq(M11)), one), T.show(T.add(T.absq(M01), T.absq(M11)), 300)),
        ("conj(M00) M01 + conj(M10) M11 = 0", T.eq(T.add(T.mul(T.conj(M00), M01), T.mul(T.conj(M10), M11)), zero),
         T.show(T.add(T.mul(T.conj(M00), M01), T.mul(T.conj(M10), M11)), 300)),
    ]
    return obs


def check(run, M, tier):
    run.rule("Q1", "one loop iteration of each simulator is a linear map of the Cayley-Klein pair with M^H M = I (three identities closed in the term normal form; "
                   "phi^2 = |rf|^2 + om^2, regularisers eps read as 0)")
    run.rule("Q2", "statements after the loop (rewinder, total phase accrual) are unitary; phase factors are exp(i * real)")
    run.rule("Q3", "initial state (a, b) = (ones, zeros)")
    run.rule("Q4", "ab2rf peel step is unitary")
    run.assume("generic samples: phi != 0 (the isinf masks of abrm_ptx) and eps = 0")
    n_sites = 0
    for q, cfg in SIMS.items():
        f = M.func(q)
        names = cfg["state"]
        # locate the time loop (first For at the top level of the `with device:` block)
        body = f.body
        withs = [s for s in body if isinstance(s, ast.With)]
        if withs:
            body = withs[-1].body
        loops = [i for i, s in enumerate(body) if isinstance(s, ast.For)]
        if not loops:
            raise Unrecognised("%s has no time loop" % q, f.node)
        li = loops[0]
        pre, loop, post = body[:li], body[li], body[li + 1:]
        real = set(cfg["real"])
        vn = SimVN(M, f, real=real)
        env0 = {k: T.const(v) for k, v in cfg["env"].items()}
        pre_states = [o for o in vn.run(pre, State(dict(env0))) if o.status == "live"]
        # Q3 initial state
        for o in pre_states[:1]:
            a0, b0 = o.env.get(names[0]), o.env.get(names[1])
            ok = isinstance(a0, T.Poly) and isinstance(b0, T.Poly) and "ones" in T.show(a0, 200) and "zeros" in T.show(b0, 200)
            run.check(ok, "Q3", q.split(".")[-1] + " initial state", f.loc(), "starts from (ones, zeros)", "%s starts from (%s, %s); expected the identity rotation (1, 0)"
                      % (q, T.show(a0, 80), T.show(b0, 80)), stmt="Q3:" + q)
        # Q1 one iteration, all branch combinations
        for ps in pre_states:
            env = dict(ps.env)
            for i, nm in enumerate(names):
                env[nm] = T.sym(nm)
            for k in list(env):
                if k in cfg["env"]:
                    env[k] = T.const(cfg["env"][k])
            env[loop.target.id if isinstance(loop.target, ast.Name) else "_"] = T.sym("t", real=True)
            outs = [o for o in SimVN(M, f, real=real).run(loop.body, State(env, list(ps.conds))) if o.status == "live"]
            for o in outs:
                n_sites += 1
                na, nb = o.env.get(names[0]), o.env.get(names[1])
                label = "%s step[%s]" % (q.split(".")[-1], cond_text(o.conds)[:50])
                try:
                    obs = unitary_obligations(na, nb, names)
                except (Unrecognised, TypeError) as e:
                    run.bad("Q1", label, f.loc(loop), "%s: the per-sample update of (%s, %s) is not a linear map of the previous state (%s)" % (q, names[0], names[1], e), stmt="Q1:lin:" + label)
                    continue
                for what, held, detail in obs:
                    run.check(held, "Q1", label + " " + what, f.loc(loop), what,
                              "%s: the per-sample state update violates %s (left-hand side normalises to %s): the Cayley-Klein parameters no longer satisfy |alpha|^2 + |beta|^2 = 1"
                              % (q, what, detail), stmt="Q1:%s:%s" % (label, what))
        # Q2 post-loop statements: apply to symbolic state, must again be unitary
        env = dict(pre_states[0].env)
        for nm in names:
            env[nm] = T.sym(nm)
        for k in cfg["env"]:
            env[k] = T.const(cfg["env"][k])
        posts = [s for s in post if not isinstance(s, ast.Return)]
        outs = [o for o in SimVN(M, f, real=real).run(posts, State(env)) if o.status == "live"]
        for o in outs:
            if q.endswith("abrm_ptx"):
                # returned (a, b) = (statea, -conj(stateb)) : norm preserved trivially; checked on the last loop statements instead
                continue
            na, nb = o.env.get(names[0]), o.env.get(names[1])
            if na == T.sym(names[0]) and nb == T.sym(names[1]):
                continue
            label = "%s post-loop[%s]" % (q.split(".")[-1], cond_text(o.conds)[:50])
            try:
                obs = unitary_obligations(na, nb, names)
            except (Unrecognised, TypeError) as e:
                run.bad("Q2", label, f.loc(), "%s: the statements after the time loop are not a linear map of the state (%s)" % (q, e), stmt="Q2:lin:" + label)
                continue
            for what, held, detail in obs:
                run.check(held, "Q2", label + " " + what, f.loc(), what,
                          "%s: the statements after the time loop violate %s (normalises to %s)" % (q, what, detail), stmt="Q2:%s:%s" % (label, what))
        # returned pair is the state pair
        rets = [n for n in ast.walk(f.node) if isinstance(n, ast.Return) and n.value is not None]
        okr = len(rets) == 1 and isinstance(rets[0].value, ast.Tuple) and [unparse(x) for x in rets[0].value.elts[:2]] == ["a", "b"]
        run.check(okr, "Q2", q.split(".")[-1] + " return", f.loc(), "returns (a, b)", "%s returns `%s`" % (q, unparse(rets[0].value) if rets else "nothing"), stmt="Q2:ret:" + q)
        if q.endswith("abrm_ptx"):
            # a = statea ; b = -conj(stateb) inside the loop
            asg = {unparse(n.targets[0]): unparse(n.value).replace(" ", "") for n in ast.walk(loop) if isinstance(n, ast.Assign) and unparse(n.targets[0]) in ("a", "b")}
            run.check(asg == {"a": "statea", "b": "-xp.conj(stateb)"}, "Q2", "abrm_ptx output pair", f.loc(loop), "(a, b) = (statea, -conj(stateb))",
                      "abrm_ptx reports (a, b) = %s" % asg, stmt="Q2:ptx-pair")
    run.floor("Q1", 6, n_sites, "state-update sites")
    # ---- Q4 ab2rf
    f = M.func("sigpy.mri.rf.slr.ab2rf")
    loop = [s for s in f.body if isinstance(s, ast.For)]
    if len(loop) != 1:
        raise Unrecognised("ab2rf has %d loops" % len(loop), f.node)
    inner = [s for s in loop[0].body if isinstance(s, ast.If)]
    stm = [s for s in loop[0].body if not isinstance(s, ast.If)] + (inner[0].body if inner else [])
    vn = SimVN(M, f, real={"ii"})
    env = {"a": T.sym("a"), "b": T.sym("b"), "ii": T.sym("ii", real=True)}

    class PeelVN(SimVN):
        # a[ii], b[ii] are the leading coefficients: treat as scalars `a_ii`, `b_ii`; a, b as vectors
        def ev_Subscript(self, e, st):
            if isinstance(e.value, ast.Name) and e.value.id in ("a", "b") and unparse(e.slice) == "ii":
                return T.sym(e.value.id + "_ii")
            if isinstance(e.value, ast.Name) and e.value.id in ("at", "bt"):
                return self.ev(e.value, st)  # the shifts at[1:ii+1], bt[0:ii] only re-index the polynomials
            return SimVN.ev_Subscript(self, e, st)

        def assign(self, tgt, val, st, node):
            if isinstance(tgt, ast.Subscript) and unparse(tgt.value) == "rf":
                return
            return SimVN.assign(self, tgt, val, st, node)
    outs = [o for o in PeelVN(M, f, real={"ii"}).run(stm, State(env)) if o.status == "live"]
    ok_any = False
    for o in outs:
        try:
            obs = unitary_obligations(o.env.get("a"), o.env.get("b"), ("a", "b"))
        except (Unrecognised, TypeError) as e:
            run.bad("Q4", "ab2rf peel", f.loc(loop[0]), "the peel step of ab2rf is not a linear map of (a, b): %s" % e, stmt="Q4:lin")
            continue
        ok_any = True
        for what, held, detail in obs:
            run.check(held, "Q4", "ab2rf peel " + what, f.loc(loop[0]), what, "ab2rf: the backward recursion step violates %s (normalises to %s)" % (what, detail), stmt="Q4:" + what)
    run.floor("Q4", 1, 1 if ok_any else 0, "peel steps analysed")
