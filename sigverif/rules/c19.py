"""C19 (partial) -- every state update of the Bloch simulators (and the peel step of the inverse SLR transform) is unitary.

Q1 per simulator, one loop iteration maps the Cayley-Klein pair (a, b) linearly, (a', b') = M (a, b), and M^H M = I:
   |M00|^2 + |M10|^2 = 1, |M01|^2 + |M11|^2 = 1, conj(M00) M01 + conj(M10) M11 = 0   (decided in the term normal form)
Q2 phase-accrual factors are unit phasors exp(i * real); the steps applied after the loop (rewinder, total phase) are unitary too
Q3 the initial state is the identity rotation (a, b) = (1, 0)
Q4 ab2rf peels one hard pulse with a unitary matrix built from c = (1 + |b/a|^2)^(-1/2), s = conj(c b / a)
NOT decided: that SLR design and simulation are mutual inverses, composition of waveforms, behaviour at exactly zero flip (eps regularisers are read as 0).
"""
import ast
from fractions import Fraction

from .. import terms as T
from ..model import AnchorMissing, Unrecognised, unparse
from ..vn import NONE, VN, State, cond_text, is_tuple

# per simulator: the *parameters* that are documented as real-valued (positions, gradients, dwell time, off-resonance map).  Local names
# never appear here: the state pair, the regulariser and every intermediate are identified by their role in the data flow.
SIMS = {
    "sigpy.mri.rf.sim.abrm": dict(real={"x"}),
    "sigpy.mri.rf.sim.abrm_nd": dict(real={"x", "g"}),
    "sigpy.mri.rf.sim.abrm_hp": dict(real={"xx", "gamgdt", "dom0dt"}),
    "sigpy.mri.rf.sim.abrm_ptx": dict(real={"x", "g", "dt", "fmap"}),
    "sigpy.mri.rf.optcont.blochsim": dict(real={"x", "g"}),
}


def _zero_regularisers(env):
    """a local bound to a numeric constant of magnitude <= 1e-9 is a division regulariser: read as 0 (stated assumption)"""
    out = dict(env)
    for k, v in env.items():
        if isinstance(v, T.Poly):
            fr = v.as_fraction()
            if fr is not None and 0 < abs(fr) <= 1e-9:
                out[k] = T.const(0)
    return out


def _assigned_names(stmts):
    out = []
    for s in stmts:
        for n in ast.walk(s):
            tg = []
            if isinstance(n, ast.Assign):
                tg = n.targets
            elif isinstance(n, ast.AugAssign):
                tg = [n.target]
            for t in tg:
                for x in ast.walk(t):
                    if isinstance(x, ast.Name) and isinstance(x.ctx, ast.Store) and x.id not in out:
                        out.append(x.id)
    return out


def find_state(M, f, pre_env, loop, real):
    """the Cayley-Klein pair = the two variables that exist before the time loop and whose value after one iteration depends on their
    own previous value (self-recurrent); ordered (alpha, beta) by their initial values (ones, zeros)"""
    names = [n for n in _assigned_names(loop.body) if n in pre_env]
    env = dict(pre_env)
    for n in names:
        env[n] = T.sym(n)
    if isinstance(loop.target, ast.Name):
        env[loop.target.id] = T.sym("t", real=True)
    outs = [o for o in SimVN(M, f, real=real).run(loop.body, State(env)) if o.status == "live"]
    rec = []
    for n in names:
        for o in outs:
            v = o.env.get(n)
            if isinstance(v, T.Poly) and v != T.sym(n) and n in T.symbols(v) and n not in rec:
                rec.append(n)
    if len(rec) != 2:
        raise Unrecognised("%s: expected exactly two self-recurrent state variables in the time loop, found %s" % (f.qual, rec), loop)
    init = {n: T.show(pre_env[n], 200) if isinstance(pre_env[n], T.Poly) else "" for n in rec}
    alpha = [n for n in rec if "ones" in init[n]]
    beta = [n for n in rec if "zeros" in init[n]]
    if len(alpha) == 1 and len(beta) == 1:
        return (alpha[0], beta[0]), True
    return tuple(rec), False


class SimVN(VN):
    """value numbering with two simulator idioms: n = column_stack((..)); n[:, k]   and   v[isinf(v)] = 0 (ignored: generic phi != 0)"""

    def ev_Subscript(self, e, st):
        base = self.ev(e.value, st)
        if is_tuple(base) and isinstance(e.slice, ast.Tuple) and len(e.slice.elts) == 2 and isinstance(e.slice.elts[0], ast.Slice):
            i = self._int(e.slice.elts[1], st, None)
            if i is not None and 0 <= i < len(base):
                return base[i]
        return VN.ev_Subscript(self, e, st)

    def assign(self, tgt, val, st, node):
        if isinstance(tgt, ast.Subscript) and isinstance(tgt.slice, ast.Call) and unparse(tgt.slice.func).endswith("isinf"):
            return  # masks the phi == 0 samples; outside the generic case analysed here
        return VN.assign(self, tgt, val, st, node)


def unitary_obligations(new_a, new_b, names):
    """returns list of (label, held, detail) for M^H M = I, or raises Unrecognised if the update is not linear"""
    ca = T.linear_coeffs(new_a, list(names))
    cb = T.linear_coeffs(new_b, list(names))
    if ca is None or cb is None:
        raise Unrecognised("state update is not linear in the previous state")
    (coa, ra), (cob, rb) = ca, cb
    M00, M01 = coa[names[0]], coa[names[1]]
    M10, M11 = cob[names[0]], cob[names[1]]
    one = T.const(1)
    zero = T.const(0)
    obs = [
        ("update is homogeneous (no constant term)", ra.is_zero() and rb.is_zero(), ""),
        ("|M00|^2 + |M10|^2 = 1", T.eq(T.add(T.absq(M00), T.absq(M10)), one), T.show(T.add(T.absq(M00), T.absq(M10)), 300)),
        ("|M01|^2 + |M11|^2 = 1", T.eq(T.add(T.absq(M01), T.absq(M11)), one), T.show(T.add(T.absq(M01), T.absq(M11)), 300)),
        ("conj(M00) M01 + conj(M10) M11 = 0", T.eq(T.add(T.mul(T.conj(M00), M01), T.mul(T.conj(M10), M11)), zero),
         T.show(T.add(T.mul(T.conj(M00), M01), T.mul(T.conj(M10), M11)), 300)),
    ]
    return obs


def _exp_args(p, skip=()):
    """arguments of the exp(..) atoms of a term that do not mention any symbol in `skip`"""
    out = []
    if not isinstance(p, T.Poly):
        return out
    for m in p.t:
        for a, e in m:
            if a[0] == "app" and a[1] == "exp" and len(a[2]) == 1:
                arg = T.dec(a[2][0])
                if isinstance(arg, T.Poly) and not (T.symbols(arg) & set(skip)):
                    out.append(T.scale(arg, e) if hasattr(T, "scale") else arg)
    return out


def _sum_over_loop(arg, tsym, trip):
    """sum over t in range(trip) of a term that is linear in samples X[t]: X[t] -> sum(X, axis=0), t-free monomials -> trip * monomial"""
    out = T.const(0)
    for m, c in arg.t.items():
        term = T.Poly({frozenset(): c})
        indexed = False
        for a, e in m:
            ap = T.Poly({frozenset({(a, e)}): T.ONE})
            if a[0] == "app" and a[1] == "getitem" and e == 1 and tsym in T.symbols(ap):
                base, idx = T.dec(a[2][0]), T.dec(a[2][1])
                idx1 = idx[0] if isinstance(idx, tuple) and len(idx) == 1 else idx
                if indexed or not (isinstance(idx1, T.Poly) and idx1 == T.sym(tsym, real=True)) or tsym in T.symbols(base):
                    return None
                indexed = True
                ap = None
                if isinstance(base, T.Poly) and len(base.t) == 1:
                    # sum over the samples of c * ones(n) is c * n
                    (bm, bc), = base.t.items()
                    ones_ = [(a_, e_) for a_, e_ in bm if a_[0] == "app" and a_[1] == "call:numpy.ones" and e_ == 1 and len(a_[2]) == 1]
                    if len(ones_) == 1:
                        n_ = T.dec(ones_[0][0][2][0])
                        if isinstance(n_, T.Poly):
                            ap = T.mul(T.Poly({frozenset(x_ for x_ in bm if x_[0] is not ones_[0][0]): bc}), n_)
                if ap is None:
                    ap = T.app("sum", base, T.app("kw:axis", T.const(0)))
            elif tsym in T.symbols(ap):
                return None
            term = T.mul(term, ap)
        out = T.add(out, term if indexed else T.mul(term, trip))
    return out


DATA_PARAMS = {
    "sigpy.mri.rf.sim.abrm": ("rf", "x"),
    "sigpy.mri.rf.sim.abrm_nd": ("rf", "x", "g"),
    "sigpy.mri.rf.sim.abrm_hp": ("rf", "gamgdt", "xx"),
    "sigpy.mri.rf.sim.abrm_ptx": ("b1", "x", "g"),
    "sigpy.mri.rf.optcont.blochsim": ("rf", "x", "g"),
}


def _q9(run, M):
    """the waveforms and positions are simulated as given: a simulator that re-lays-out one of its data arguments on the strength of its shape
    (`if g.shape == (ndim, nt): g = g.T`) simulates a different sequence whenever the shapes coincide (Nt == Ndim), so a whole waveform no longer
    composes from its parts"""
    run.rule("Q9", "no simulator rebinds or re-lays-out its data arguments (RF samples, gradient samples, positions) before simulating them")
    for q, names in DATA_PARAMS.items():
        f = M.func(q)
        hits = []
        for n in ast.walk(f.node):
            tg = n.targets if isinstance(n, ast.Assign) else ([n.target] if isinstance(n, (ast.AugAssign, ast.AnnAssign)) else [])
            for t in tg:
                for x in ast.walk(t):
                    if isinstance(x, ast.Name) and isinstance(x.ctx, ast.Store) and x.id in names and x.id in f.params:
                        hits.append(n)
        run.check(not hits, "Q9", q.split(".")[-1], f.loc(hits[0]) if hits else f.loc(), "data arguments %s are read as given" % (names,),
                  "%s rebinds its data argument with `%s`: the samples that are simulated are then not the samples that were passed for every input the "
                  "condition happens to match" % (q.split(".")[-1], unparse(hits[0])[:120] if hits else ""), stmt="Q9:" + q)


def _q8(run, M):
    """abrm(balanced=True) ends with a rewinder that undoes half of the precession accumulated over the pulse: its rotation angle about z is minus one
    half of the sum over the time loop of the per-sample precession angle x*g[m] -- whatever the number of samples (odd or even)"""
    run.rule("Q8", "abrm: the balanced rewinder's precession angle equals minus one half of the sum over the time loop of the per-sample angle x*g[m]")
    q = "sigpy.mri.rf.sim.abrm"
    f = M.func(q)
    cfg = SIMS[q]
    body = f.body
    withs = [s_ for s_ in body if isinstance(s_, ast.With)]
    if withs:
        body = withs[-1].body
    loops = [i for i, s_ in enumerate(body) if isinstance(s_, ast.For)]
    if not loops:
        raise Unrecognised("%s has no time loop" % q, f.node)
    pre, loop, post = body[:loops[0]], body[loops[0]], body[loops[0] + 1:]
    real = set(cfg["real"])
    ps = [o for o in SimVN(M, f, real=real).run(pre, State()) if o.status == "live"][0]
    tname = loop.target.id if isinstance(loop.target, ast.Name) else "_"
    it = SimVN(M, f, real=real).ev(loop.iter, State(ps.env))
    ia = it.single_atom() if isinstance(it, T.Poly) else None
    trip = T.dec(ia[2][0]) if ia is not None and ia[0] == "app" and ia[1] in ("call:numpy.arange", "range") and len(ia[2]) == 1 else None
    # the per-sample precession angle: the value bound to the first local of the loop body that is the product of the positions and a gradient sample
    env = dict(ps.env)
    env[tname] = T.sym("t", real=True)
    om_t = None
    st_ = State(env)
    for s_ in loop.body:
        if isinstance(s_, ast.Assign) and len(s_.targets) == 1 and isinstance(s_.targets[0], ast.Name):
            v_ = SimVN(M, f, real=real).ev(s_.value, st_)
            if isinstance(v_, T.Poly) and "t" in T.symbols(v_) and "x" in T.symbols(v_) and "getitem(rf" not in T.show(v_, 2000):
                om_t = v_
                break
            st_.env[s_.targets[0].id] = v_
    # the rewinder's angle: the first such product bound in the `if balanced:` block after the loop
    om_r = None
    for s_ in post:
        if isinstance(s_, ast.If):
            st2 = State(dict(ps.env))
            for b_ in s_.body:
                if isinstance(b_, ast.Assign) and len(b_.targets) == 1 and isinstance(b_.targets[0], ast.Name):
                    v_ = SimVN(M, f, real=real).ev(b_.value, st2)
                    st2.env[b_.targets[0].id] = v_
                    if om_r is None and isinstance(v_, T.Poly) and "x" in T.symbols(v_):
                        om_r = v_
    ok = False
    why = "abrm's time loop or rewinder block has a form this rule cannot read"
    if om_t is not None and om_r is not None and trip is not None:
        total = _sum_over_loop(om_t, "t", trip)
        if total is not None:
            want = T.scale(total, Fraction(-1, 2))
            ok = T.eq(om_r, want)
            why = "abrm's balanced rewinder precesses by %s; minus one half of the accumulated per-sample angle %s over %s samples is %s: the rewinder no longer " \
                  "undoes half of the pulse's precession (for some pulse lengths), so balanced simulations of back-to-back pulses do not compose" % (
                      T.show(om_r, 160), T.show(om_t, 100), T.show(trip, 60), T.show(want, 160))
    run.check(ok, "Q8", "abrm rewinder", f.loc(), "rewinder angle = -1/2 * sum of per-sample precession angles", why, stmt="Q8")


def _q7(run, M):
    """abrm_hp applies the precession of every sample to beta only and compensates once, after the loop, with half the total precession phase
    on both parameters (Pauly et al.): the compensation must be exactly -1/2 of the sum, over the time loop, of the per-sample phase --
    otherwise (alpha, beta) carry a spurious phase that depends on the waveform length and back-to-back simulation no longer composes"""
    run.rule("Q7", "abrm_hp: the phase applied after the time loop equals minus one half of the sum over the loop of the per-sample precession phase "
                   "(sum over the samples of the gradient term, and the number of time points times the off-resonance term)")
    q = "sigpy.mri.rf.sim.abrm_hp"
    f = M.func(q)
    cfg = SIMS[q]
    body = f.body
    withs = [s_ for s_ in body if isinstance(s_, ast.With)]
    if withs:
        body = withs[-1].body
    loops = [i for i, s_ in enumerate(body) if isinstance(s_, ast.For)]
    if not loops:
        raise Unrecognised("%s has no time loop" % q, f.node)
    pre, loop, post = body[:loops[0]], body[loops[0]], body[loops[0] + 1:]
    real = set(cfg["real"])
    ps = [o for o in SimVN(M, f, real=real).run(pre, State()) if o.status == "live"][0]
    names, _ = find_state(M, f, ps.env, loop, real)
    env = dict(ps.env)
    for nm in names:
        env[nm] = T.sym(nm)
    tname = loop.target.id if isinstance(loop.target, ast.Name) else "_"
    env[tname] = T.sym("t", real=True)
    it = SimVN(M, f, real=real).ev(loop.iter, State(ps.env))
    ia = it.single_atom() if isinstance(it, T.Poly) else None
    trip = T.dec(ia[2][0]) if ia is not None and ia[0] == "app" and ia[1] in ("call:numpy.arange", "range") and len(ia[2]) == 1 else None
    louts = [o for o in SimVN(M, f, real=real).run(loop.body, State(env)) if o.status == "live"]
    env2 = dict(ps.env)
    for nm in names:
        env2[nm] = T.sym(nm)
    pouts = [o for o in SimVN(M, f, real=real).run([s_ for s_ in post if not isinstance(s_, ast.Return)], State(env2)) if o.status == "live"]
    ok = False
    why = "the time loop or the statements after it have a form this rule cannot read"
    if trip is not None and len(louts) == 1 and len(pouts) == 1:
        step = [x for nm in names for x in _exp_args(louts[0].env.get(nm), skip=("rf",))]
        step = [x for i, x in enumerate(step) if not any(x == y for y in step[:i])]
        fin = [x for nm in names for x in _exp_args(pouts[0].env.get(nm), skip=("rf",))]
        fin = [x for i, x in enumerate(fin) if not any(x == y for y in fin[:i])]
        if len(step) == 1 and len(fin) == 1:
            total = _sum_over_loop(step[0], "t", trip)
            if total is not None:
                want = T.scale(total, Fraction(-1, 2))
                ok = T.eq(fin[0], want)
                why = "abrm_hp multiplies (alpha, beta) after the loop by exp(%s); minus one half of the accumulated per-sample phase exp(%s) over %s samples is %s: " \
                      "the result carries a spurious phase that depends on the waveform length" % (T.show(fin[0], 160), T.show(step[0], 120), T.show(trip, 60), T.show(want, 160))
        else:
            why = "abrm_hp has %d precession factor(s) in the loop and %d after it; expected one each" % (len(step), len(fin))
    run.check(ok, "Q7", "abrm_hp total phase", f.loc(), "post-loop phase = -1/2 * sum of per-sample precession phases", why, stmt="Q7")


def check(run, M, tier):
    run.rule("Q1", "one loop iteration of each simulator is a linear map of the Cayley-Klein pair with M^H M = I (three identities closed in the term normal form; "
                   "phi^2 = |rf|^2 + om^2, regularisers eps read as 0)")
    run.rule("Q2", "statements after the loop (rewinder, total phase accrual) are unitary; phase factors are exp(i * real)")
    run.rule("Q3", "initial state (a, b) = (ones, zeros)")
    run.rule("Q4", "ab2rf peel step is unitary")
    run.rule("Q6", "no simulator / SLR function is memoised or keeps work buffers in module-level state (b2a's zero-padded buffer must be fresh for every design)")
    from ..common import check_no_memoisation
    check_no_memoisation(run, M, "Q6", ["sigpy.mri.rf.sim", "sigpy.mri.rf.slr", "sigpy.mri.rf.optcont"],
                         "a cached work buffer keeps the coefficients of an earlier, longer design in its padding, and a cached result array is shared between callers: "
                         "the designed pulse then depends on the call history, and simulating it no longer reproduces |B|")
    run.assume("generic samples: phi != 0 (the isinf masks of abrm_ptx) and eps = 0")
    n_sites = 0
    for q, cfg in SIMS.items():
        f = M.func(q)
        # locate the time loop (first For at the top level of the `with device:` block)
        body = f.body
        withs = [s for s in body if isinstance(s, ast.With)]
        if withs:
            body = withs[-1].body
        loops = [i for i, s in enumerate(body) if isinstance(s, ast.For)]
        if not loops:
            raise Unrecognised("%s has no time loop" % q, f.node)
        li = loops[0]
        pre, loop, post = body[:li], body[li], body[li + 1:]
        real = set(cfg["real"])
        vn = SimVN(M, f, real=real)
        pre_states = [o for o in vn.run(pre, State()) if o.status == "live"]
        for o in pre_states:
            o.env = _zero_regularisers(o.env)
        if not pre_states:
            raise Unrecognised("%s: no live path reaches the time loop" % q, f.node)
        names, init_ok = find_state(M, f, pre_states[0].env, loop, real)
        # Q3 initial state
        for o in pre_states[:1]:
            a0, b0 = o.env.get(names[0]), o.env.get(names[1])
            ok = init_ok
            run.check(ok, "Q3", q.split(".")[-1] + " initial state", f.loc(), "starts from (ones, zeros)", "%s starts from (%s, %s); expected the identity rotation (1, 0)"
                      % (q, T.show(a0, 80), T.show(b0, 80)), stmt="Q3:" + q)
        # Q1 one iteration, all branch combinations
        for ps in pre_states:
            env = dict(ps.env)
            for i, nm in enumerate(names):
                env[nm] = T.sym(nm)
            env[loop.target.id if isinstance(loop.target, ast.Name) else "_"] = T.sym("t", real=True)
            outs = [o for o in SimVN(M, f, real=real).run(loop.body, State(env, list(ps.conds))) if o.status == "live"]
            for o in outs:
                n_sites += 1
                na, nb = o.env.get(names[0]), o.env.get(names[1])
                label = "%s step[%s]" % (q.split(".")[-1], cond_text(o.conds)[:50])
                try:
                    obs = unitary_obligations(na, nb, names)
                except (Unrecognised, TypeError) as e:
                    run.bad("Q1", label, f.loc(loop), "%s: the per-sample update of (%s, %s) is not a linear map of the previous state (%s)" % (q, names[0], names[1], e), stmt="Q1:lin:" + label)
                    continue
                for what, held, detail in obs:
                    run.check(held, "Q1", label + " " + what, f.loc(loop), what,
                              "%s: the per-sample state update violates %s (left-hand side normalises to %s): the Cayley-Klein parameters no longer satisfy |alpha|^2 + |beta|^2 = 1"
                              % (q, what, detail), stmt="Q1:%s:%s" % (label, what))
        # Q2 post-loop statements: apply to symbolic state, must again be unitary
        env = dict(pre_states[0].env)
        for nm in names:
            env[nm] = T.sym(nm)
        posts = [s for s in post if not isinstance(s, ast.Return)]
        outs = [o for o in SimVN(M, f, real=real).run(posts, State(env)) if o.status == "live"]
        for o in outs:
            if q.endswith("abrm_ptx"):
                # returned (a, b) = (statea, -conj(stateb)) : norm preserved trivially; checked on the last loop statements instead
                continue
            na, nb = o.env.get(names[0]), o.env.get(names[1])
            if na == T.sym(names[0]) and nb == T.sym(names[1]):
                continue
            label = "%s post-loop[%s]" % (q.split(".")[-1], cond_text(o.conds)[:50])
            try:
                obs = unitary_obligations(na, nb, names)
            except (Unrecognised, TypeError) as e:
                run.bad("Q2", label, f.loc(), "%s: the statements after the time loop are not a linear map of the state (%s)" % (q, e), stmt="Q2:lin:" + label)
                continue
            for what, held, detail in obs:
                run.check(held, "Q2", label + " " + what, f.loc(), what,
                          "%s: the statements after the time loop violate %s (normalises to %s)" % (q, what, detail), stmt="Q2:%s:%s" % (label, what))
        # returned pair: the state pair itself, or (alpha, -conj(beta)) of it (abrm_ptx reports the pair in that convention)
        rets = [n for n in ast.walk(f.node) if isinstance(n, ast.Return) and n.value is not None]
        okr = False
        shown = unparse(rets[0].value) if rets else "nothing"
        if len(rets) == 1 and isinstance(rets[0].value, ast.Tuple) and len(rets[0].value.elts) >= 2:
            env = dict(pre_states[0].env)
            for nm in names:
                env[nm] = T.sym(nm)
            if isinstance(loop.target, ast.Name):
                env[loop.target.id] = T.sym("t", real=True)
            louts = [o for o in SimVN(M, f, real=real).run(loop.body, State(env)) if o.status == "live"]
            okr = bool(louts)
            n_good = 0
            for lo in louts:
                s0, s1 = lo.env.get(names[0]), lo.env.get(names[1])
                # (i) the reported pair is assigned inside the time loop (or is the state itself)
                r0_ = SimVN(M, f, real=real).ev(rets[0].value.elts[0], State(lo.env))
                r1_ = SimVN(M, f, real=real).ev(rets[0].value.elts[1], State(lo.env))
                if isinstance(r0_, T.Poly) and isinstance(r1_, T.Poly) and isinstance(s0, T.Poly) and isinstance(s1, T.Poly) and T.eq(r0_, s0) \
                        and (T.eq(r1_, s1) or T.eq(r1_, T.neg(T.conj(s1)))):
                    if not any(isinstance(s_, ast.Assign) and any(isinstance(x_, ast.Name) and x_.id in (unparse(rets[0].value.elts[0]), unparse(rets[0].value.elts[1]))
                                                                   for t_ in s_.targets for x_ in ast.walk(t_)) and not (set(names) & {unparse(rets[0].value.elts[0]), unparse(rets[0].value.elts[1])})
                               for p_ in post for s_ in ast.walk(p_)):
                        n_good += 1
                        continue
                # (ii) statements after the loop that only *report* the state (e.g. `if Nt > 0: a = statea; b = -conj(stateb)`) are followed
                # with the post-iteration state frozen as symbols, so that the returned names can be read off
                env2 = dict(lo.env)
                env2[names[0]], env2[names[1]] = T.sym("S0__"), T.sym("S1__")
                finals = [o for o in SimVN(M, f, real=real).run([s_ for s_ in post if not isinstance(s_, ast.Return)], State(env2, list(lo.conds))) if o.status == "live"]
                for fo in finals:
                    r0 = SimVN(M, f, real=real).ev(rets[0].value.elts[0], State(fo.env))
                    r1 = SimVN(M, f, real=real).ev(rets[0].value.elts[1], State(fo.env))
                    if not (isinstance(r0, T.Poly) and isinstance(r1, T.Poly)):
                        okr = False
                        continue
                    syms = T.symbols(r0) | T.symbols(r1)
                    if not ({"S0__", "S1__"} & syms):
                        continue   # a path on which the reported pair is still its initial value (no time step was simulated)
                    co0 = T.linear_coeffs(r0, ["S0__", "S1__"])
                    lin0 = co0 is not None and co0[1].is_zero() and co0[0]["S1__"].is_zero() and not co0[0]["S0__"].is_zero()
                    r1c = r1 if "S1__" in {a_[1] for m_ in r1.t for a_, _ in m_ if a_[0] == "sym" and not a_[3]} else T.conj(r1)
                    co1 = T.linear_coeffs(r1c, ["S0__", "S1__"])
                    lin1 = co1 is not None and co1[1].is_zero() and co1[0]["S0__"].is_zero() and not co1[0]["S1__"].is_zero()
                    # each reported entry is its own state variable times a unit-modulus factor (a phase or a sign, possibly conjugated)
                    unit0 = lin0 and T.eq(T.absq(co0[0]["S0__"]), T.const(1))
                    unit1 = lin1 and T.eq(T.absq(co1[0]["S1__"]), T.const(1))
                    if unit0 and unit1:
                        n_good += 1
                    else:
                        okr = False
            okr = okr and n_good >= 1
        run.check(okr, "Q2", q.split(".")[-1] + " return", f.loc(), "returns the state pair (alpha, beta) or (alpha, -conj(beta))",
                  "%s returns `%s`, whose first two entries are not the simulated Cayley-Klein pair (%s, %s)" % (q, shown, names[0], names[1]), stmt="Q2:ret:" + q)
    run.floor("Q1", 6, n_sites, "state-update sites")
    _q7(run, M)
    _q8(run, M)
    _q9(run, M)
    # ---- Q4 ab2rf
    f = M.func("sigpy.mri.rf.slr.ab2rf")
    loop = [s for s in f.body if isinstance(s, ast.For)]
    if len(loop) != 1:
        raise Unrecognised("ab2rf has %d loops" % len(loop), f.node)
    # roles: the polynomial pair = the two vectors that are read at the step index and rewritten inside the loop (the parameters, or
    # locals bound from them before the loop); the step index = the loop variable; the output = the returned array
    if len(f.params) != 2 or not isinstance(loop[0].target, ast.Name):
        raise Unrecognised("ab2rf signature / loop shape changed", f.node)
    lv = loop[0].target.id
    retn = [unparse(n.value) for n in ast.walk(f.node) if isinstance(n, ast.Return) and n.value is not None]
    read_at_step = []
    for n in ast.walk(loop[0]):
        if isinstance(n, ast.Subscript) and isinstance(n.value, ast.Name) and unparse(n.slice) == lv and isinstance(n.ctx, ast.Load) and n.value.id not in read_at_step:
            read_at_step.append(n.value.id)
    written = set()
    for n in ast.walk(loop[0]):
        if isinstance(n, ast.Assign):
            for t in n.targets:
                for x in ast.walk(t):
                    if isinstance(x, ast.Name) and isinstance(x.ctx, ast.Store):
                        written.add(x.id)
    pair = [n for n in read_at_step if n in written]
    if len(pair) != 2:
        raise Unrecognised("ab2rf: expected two coefficient vectors read at the step index and rewritten in the loop, found %s" % pair, loop[0])
    # which of the two is alpha: the one that descends from the first parameter
    origin = {}
    for nm in pair:
        if nm in f.params:
            origin[nm] = f.params.index(nm)
        else:
            for n in ast.walk(f.node):
                if isinstance(n, ast.Assign) and len(n.targets) == 1 and isinstance(n.targets[0], ast.Name) and n.targets[0].id == nm and n.lineno < loop[0].lineno:
                    used = [x.id for x in ast.walk(n.value) if isinstance(x, ast.Name) and x.id in f.params]
                    if used:
                        origin[nm] = f.params.index(used[0])
    if sorted(origin.values()) != [0, 1]:
        raise Unrecognised("ab2rf: cannot tell which coefficient vector is alpha and which is beta (%s)" % origin, loop[0])
    pa, pb = sorted(pair, key=lambda n_: origin[n_])
    stm = list(loop[0].body)
    env = {pa: T.sym("a"), pb: T.sym("b"), lv: T.sym("ii", real=True)}

    class PeelVN(SimVN):
        # a[ii], b[ii] are the leading coefficients: scalars `a_ii`, `b_ii`; a, b are the coefficient vectors
        def ev_Subscript(self, e, st):
            if isinstance(e.value, ast.Name) and e.value.id in (pa, pb) and unparse(e.slice) == lv:
                return T.sym(("a" if e.value.id == pa else "b") + "_ii")
            if isinstance(e.slice, ast.Slice):
                return self.ev(e.value, st)  # the shifts p[1:ii+1], q[0:ii] only re-index the polynomials
            return SimVN.ev_Subscript(self, e, st)

        def assign(self, tgt, val, st, node):
            if isinstance(tgt, ast.Subscript) and unparse(tgt.value) in retn:
                st.env["__rf_sample__"] = val   # the hard pulse emitted for this step
                return
            return SimVN.assign(self, tgt, val, st, node)
    # the loop body is followed path by path (`if ii > 0: peel` or `if ii == 0: break ... peel`); the peel paths are those on which the
    # coefficient vectors change
    outs = [o for o in PeelVN(M, f, real={lv}).run(stm, State(env)) if o.status in ("live", "continue")
            and isinstance(o.env.get(pa), T.Poly) and o.env.get(pa) != T.sym("a")]
    ok_any = False
    for o in outs:
        try:
            obs = unitary_obligations(o.env.get(pa), o.env.get(pb), ("a", "b"))
        except (Unrecognised, TypeError) as e:
            run.bad("Q4", "ab2rf peel", f.loc(loop[0]), "the peel step of ab2rf is not a linear map of (a, b): %s" % e, stmt="Q4:lin")
            continue
        ok_any = True
        for what, held, detail in obs:
            run.check(held, "Q4", "ab2rf peel " + what, f.loc(loop[0]), what, "ab2rf: the backward recursion step violates %s (normalises to %s)" % (what, detail), stmt="Q4:" + what)
    run.floor("Q4", 1, 1 if ok_any else 0, "peel steps analysed")
    # ---- Q5: the emitted sample and the peel matrix describe the same hard pulse
    run.rule("Q5", "ab2rf: the sample written for a step is 2*atan2(|s|, c)*exp(i*angle(s)) for the very (c, s) = (M00, M01) of the matrix that peels that step "
                   "(one conjugation convention for the recursion and for the emitted pulse; a mismatch returns the conjugate pulse, whose response is the mirror image)")
    for o in outs:
        got = o.env.get("__rf_sample__")
        ca = T.linear_coeffs(o.env.get(pa), ["a", "b"]) if isinstance(o.env.get(pa), T.Poly) else None
        if ca is None or not isinstance(got, T.Poly):
            run.bad("Q5", "ab2rf sample", f.loc(loop[0]), "ab2rf: the emitted sample or the peel matrix could not be read off the loop body", stmt="Q5:shape")
            continue
        M00, M01 = ca[0]["a"], ca[0]["b"]
        want = PeelVN(M, f, real={lv}).ev(ast.parse("2 * np.arctan2(np.abs(S_), C_) * np.exp(1j * np.angle(S_))", mode="eval").body, State({"S_": M01, "C_": M00}))
        run.check(T.eq(got, want), "Q5", "ab2rf sample", f.loc(loop[0]), "rf[j] = 2*atan2(|M01|, M00)*exp(i*angle(M01))",
                  "ab2rf writes %s for a step whose peel matrix has (M00, M01) = (%s, %s); the hard pulse removed by that matrix is 2*atan2(|M01|, M00)*exp(i*angle(M01)) = %s "
                  "(with the conjugation on the other side the returned pulse is conj(rf): its simulated response is |B(-w)| instead of |B(w)|)"
                  % (T.show(got, 160), T.show(M00, 60), T.show(M01, 80), T.show(want, 160)), stmt="Q5:sample")
