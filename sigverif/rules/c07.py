"""C07 -- interpolate / gridding implement the documented separable kernel sums and are transposes of each other.

I1-I4 per kernel N = 1,2,3 (spline and Kaiser-Bessel share the loop nests): the loop nest, window bounds, weights, wrapped grid indices and
      accumulate statement equal the documented formula generated per axis; gridding = interpolate with the accumulate roles exchanged; `+=` everywhere
I5    kernel functions equal the documented piecewise forms / the Abramowitz-Stegun 9.8.1-9.8.2 polynomial with its coefficient table
I6    registry: factory position k holds the rank-(k+1) kernel; wrappers index with ndim - 1; names map to the right kernel function
I7    wrappers: batch flattening, coordinate reshape, scalar->per-axis broadcasting, zero-initialised output, reshape back; the two wrappers mirror each other
CUDA kernels are out of scope (C source in strings, GPU build pruned).
"""
import ast

from .. import terms as T
from ..common import vn_paths, vn_ref
from ..kernelsum import summarize
from ..model import AnchorMissing, Unrecognised, unparse
from ..vn import NONE, VN, State, cond_text

FACT = {"interp": "sigpy.interp._get_interpolate", "grid": "sigpy.interp._get_gridding"}

REF_SPLINE = """
if abs(x) > 1:
    return 0
if order == 0:
    return 1
elif order == 1:
    return 1 - abs(x)
elif order == 2:
    if abs(x) > 1 / 3:
        return 9 / 8 * (1 - abs(x)) ** 2
    else:
        return 3 / 4 * (1 - 3 * x ** 2)
"""
REF_KB = """
if abs(x) > 1:
    return 0
x = beta * (1 - x ** 2) ** 0.5
t = x / 3.75
if x < 3.75:
    return (1 + 3.5156229 * t ** 2 + 3.0899424 * t ** 4 + 1.2067492 * t ** 6 + 0.2659732 * t ** 8 + 0.0360768 * t ** 10 + 0.0045813 * t ** 12)
else:
    return x ** -0.5 * np.exp(x) * (0.39894228 + 0.01328592 * t ** -1 + 0.00225319 * t ** -2 - 0.00157565 * t ** -3 + 0.00916281 * t ** -4
                                   - 0.02057706 * t ** -5 + 0.02635537 * t ** -6 - 0.01647633 * t ** -7 + 0.00392377 * t ** -8)
"""

REF_WRAP = {
    "interpolate": """
ndim = coord.shape[-1]
batch_shape = input.shape[:-ndim]
batch_size = util.prod(batch_shape)
pts_shape = coord.shape[:-1]
npts = util.prod(pts_shape)
xp = backend.get_array_module(input)
input2 = input.reshape([batch_size] + list(input.shape[-ndim:]))
coord2 = coord.reshape([npts, ndim])
output = xp.zeros([batch_size, npts], dtype=input2.dtype)
if np.isscalar(param):
    param2 = xp.array([param] * ndim, coord2.dtype)
else:
    param2 = xp.array(param, coord2.dtype)
if np.isscalar(width):
    width2 = xp.array([width] * ndim, coord2.dtype)
else:
    width2 = xp.array(width, coord2.dtype)
_interpolate[kernel][ndim - 1](output, input2, coord2, width2, param2)
return output.reshape(batch_shape + pts_shape)
""",
    "gridding": """
ndim = coord.shape[-1]
batch_shape = shape[:-ndim]
batch_size = util.prod(batch_shape)
pts_shape = coord.shape[:-1]
npts = util.prod(pts_shape)
xp = backend.get_array_module(input)
input2 = input.reshape([batch_size, npts])
coord2 = coord.reshape([npts, ndim])
output = xp.zeros([batch_size] + list(shape[-ndim:]), dtype=input2.dtype)
if np.isscalar(param):
    param2 = xp.array([param] * ndim, coord2.dtype)
else:
    param2 = xp.array(param, coord2.dtype)
if np.isscalar(width):
    width2 = xp.array([width] * ndim, coord2.dtype)
else:
    width2 = xp.array(width, coord2.dtype)
_gridding[kernel][ndim - 1](output, input2, coord2, width2, param2)
return output.reshape(shape)
""",
}


def S(n):
    return T.sym(n, real=True)


def kernel_hook(vn, call, st):
    """`_interpolate[kernel][ndim - 1](output, ...)` : the kernel writes its first argument"""
    f = call.func
    if isinstance(f, ast.Subscript):
        base = f
        idx = []
        while isinstance(base, ast.Subscript):
            idx.append(vn._as_term(vn.ev(base.slice, st)))
            base = base.value
        if isinstance(base, ast.Name) and base.id in ("_interpolate", "_gridding"):
            args = [vn._as_term(vn.ev(a, st)) for a in call.args]
            k = vn.key_of(call.args[0])
            res = T.app("kernel:" + base.id, *list(reversed(idx)), *args)
            if k is None:
                raise Unrecognised("kernel output argument is not a variable", call)
            st.env[k] = res
            return NONE
    return None


def expected_nest(N, grid_arr, pts_arr, loops):
    """documented formula for rank N; returns dict of expected terms given the loop symbols of the summary"""
    i = loops[0].var
    coord, width, param = T.sym("coord"), T.sym("width"), T.sym("param")
    shp = T.app("attr:shape", T.sym(grid_arr), real=True)
    ax = {}
    for k in range(1, N + 1):
        kx = T.app("getitem", coord, (i, T.const(-k)))
        W = T.app("getitem", width, T.const(-k))
        P = T.app("getitem", param, T.const(-k))
        n = T.app("getitem", shp, T.const(N + 1 - k))
        lo = T.app("ceil", T.sub(kx, T.div(W, T.const(2))), real=True)
        hi = T.add(T.app("floor", T.add(kx, T.div(W, T.const(2))), real=True), T.const(1))
        ax[k] = dict(kx=kx, W=W, P=P, n=n, lo=lo, hi=hi)
    return ax


def check_nest(run, M, kind, N, f):
    """kind: 'interp' | 'grid'"""
    grid_arr = "input" if kind == "interp" else "output"
    pts_arr = "output" if kind == "interp" else "input"
    label = "%s%d" % ("_interpolate" if kind == "interp" else "_gridding", N)
    ks = summarize(M, f)
    where = f.loc()
    # loops: points, N axis loops (outermost = axis N ... innermost = axis 1), batch
    ok_struct = len(ks.loops) == N + 2 and len(ks.stores) == 1
    run.check(ok_struct, "I1", label + " nest", where, "loop nest: points, %d window loops, batch; one store" % N,
              "%s has %d loops and %d stores; expected %d loops (points, one per axis, batch) and a single accumulate statement" % (label, len(ks.loops), len(ks.stores), N + 2),
              stmt="I1:nest:" + label)
    if not ok_struct:
        return None
    st = ks.stores[0]
    npts = T.app("len", T.sym("coord"), real=True)   # coord.shape[0] in the value numbering's spelling
    run.check(ks.loops[0].args == (npts,), "I3", label + " points loop", where, "outer loop over all coord.shape[0] points",
              "outer loop of %s ranges over %s; expected range(coord.shape[0])" % (label, [T.show(a) for a in ks.loops[0].args]), stmt="I3:pts:" + label)
    ax = expected_nest(N, grid_arr, pts_arr, ks.loops)
    # which loop serves which axis is determined by the coordinate it is centred on (not by names)
    axis_loop = {}
    for lp in ks.loops[1:-1]:
        hit = [k for k in ax if len(lp.args) == 2 and T.eq(lp.args[0], ax[k]["lo"])]
        if len(hit) == 1:
            axis_loop[hit[0]] = lp
    for k in range(1, N + 1):
        lp = axis_loop.get(k)
        run.check(lp is not None and T.eq(lp.args[1], ax[k]["hi"]), "I3", "%s axis -%d window" % (label, k), where,
                  "window ceil(c - W/2) .. floor(c + W/2) inclusive with c = coord[i,-%d], W = width[-%d]" % (k, k),
                  "%s has no loop over the documented window of axis -%d (ceil(coord[i,-%d] - width[-%d]/2) .. floor(coord[i,-%d] + width[-%d]/2) inclusive); loops: %s"
                  % (label, k, k, k, k, k, ["range(%s)" % ", ".join(T.show(a, 80) for a in l.args) for l in ks.loops[1:-1]]), stmt="I3:window:%s:%d" % (label, k))
    if len(axis_loop) != N:
        return None
    b = ks.loops[-1].var
    bs = T.app("getitem", T.app("attr:shape", T.sym(grid_arr), real=True), T.const(0))
    run.check(ks.loops[-1].args == (bs,), "I3", label + " batch loop", where, "inner loop over the batch",
              "batch loop of %s ranges over %s" % (label, [T.show(a) for a in ks.loops[-1].args]), stmt="I3:batch:" + label)
    i = ks.loops[0].var
    # expected weight, grid index, point index
    w = T.const(1)
    for k in range(1, N + 1):
        v = axis_loop[k].var
        arg = T.div(T.sub(v, ax[k]["kx"]), T.div(ax[k]["W"], T.const(2)))
        w = T.mul(w, T.app("call:kernel", arg, ax[k]["P"]))
    gidx = (b,) + tuple(T.app("mod", axis_loop[k].var, ax[k]["n"], real=True) for k in range(N, 0, -1))
    pidx = (b, i)
    want_t, want_s = (pidx, gidx) if kind == "interp" else (gidx, pidx)
    src_atom = T.app("getitem", T.sym(pts_arr if kind == "grid" else grid_arr), want_s)
    want_val = T.mul(w, src_atom)
    run.check(st.accumulate, "I4", label + " accumulate", f.loc(st.node), "contributions accumulate with +=",
              "%s stores with `=`: coincident or wrapped contributions overwrite instead of adding (`%s`)" % (label, unparse(st.node)), stmt="I4:" + label)
    run.check(st.array == ("output") and _tuple_eq(st.idx, want_t), "I2", label + " target index", f.loc(st.node),
              "writes output[%s]" % ", ".join(T.show(x, 40) for x in want_t),
              "%s writes %s[%s]; the documented target is output[%s] (each axis wrapped by its own size, batch first)"
              % (label, st.array, ", ".join(T.show(x, 60) for x in st.idx), ", ".join(T.show(x, 60) for x in want_t)), stmt="I2:target:" + label)
    run.check(isinstance(st.value, T.Poly) and T.eq(st.value, want_val), "I3", label + " weight and source", f.loc(st.node),
              "adds prod_d K((i_d - c_d)/(W_d/2), p_d) * source sample",
              "%s adds %s ; the documented contribution is %s" % (label, T.show(st.value, 400) if isinstance(st.value, T.Poly) else st.value, T.show(want_val, 400)),
              stmt="I3:value:" + label)
    return dict(weight=w, gidx=gidx, pidx=pidx, store=st)


def _tuple_eq(a, b):
    return len(a) == len(b) and all(isinstance(x, T.Poly) and isinstance(y, T.Poly) and T.eq(x, y) for x, y in zip(a, b))


def kernels_of(M, fact_qual):
    fact = M.func(fact_qual)
    rets = [n for n in ast.walk(fact.node) if isinstance(n, ast.Return) and isinstance(n.value, ast.Tuple)]
    if len(rets) != 1:
        raise Unrecognised("%s does not return one tuple of kernels" % fact_qual, fact.node)
    out = []
    for el in rets[0].value.elts:
        q = M.resolve_name(fact.mod, el, fact)
        if q not in M.funcs:
            raise Unrecognised("%s returns a non-local kernel %s" % (fact_qual, unparse(el)), el)
        out.append(M.funcs[q])
    return fact, out


def check(run, M, tier, rule_prefix=""):
    run.rule("I1", "each kernel is one loop nest (points, one window loop per axis, batch) with a single accumulate statement; gridding has interpolate's nest with roles exchanged")
    run.rule("I2", "per-axis consistency: the index wrapped by size n_k sits at axis -k and its loop is centred on coord[i,-k] with width[-k], param[-k]")
    run.rule("I3", "documented window ceil(c - W/2)..floor(c + W/2) inclusive, weight prod_d K((i_d - c_d)/(W_d/2), p_d), periodic index i % n")
    run.rule("I4", "accumulation with += in all six kernels")
    run.rule("I5", "spline orders 0/1/2 with |x|>1 cut-off and Kaiser-Bessel I0(beta sqrt(1-x^2)) via the A&S 9.8.1/9.8.2 polynomials (coefficient table)")
    run.rule("I6", "registry: factories return (rank-1, rank-2, rank-3) kernels in this order, names 'spline'/'kaiser_bessel' select the right kernel function, wrappers index with ndim - 1")
    run.rule("I7", "wrappers flatten batch axes, reshape coord to [npts, ndim], broadcast scalar width/param per axis, start from zeros of the right shape/dtype and reshape back")
    res = {}
    n_k = 0
    for kind, fq in FACT.items():
        fact, ks = kernels_of(M, fq)
        run.check(len(ks) == 3, "I6", fq.split(".")[-1] + " arity", fact.loc(), "three kernels returned", "%s returns %d kernels" % (fq, len(ks)), stmt="I6:arity:" + kind)
        for pos, f in enumerate(ks):
            # rank from the .shape unpacking
            rank = None
            for s in f.body:
                if isinstance(s, ast.Assign) and isinstance(s.targets[0], ast.Tuple) and isinstance(s.value, ast.Attribute) and s.value.attr == "shape":
                    rank = len(s.targets[0].elts) - 1
                    break
            run.check(rank == pos + 1, "I6", "%s position %d" % (fq.split(".")[-1], pos), f.loc(), "position %d holds the rank-%d kernel" % (pos, pos + 1),
                      "position %d of the tuple returned by %s is %s, which unpacks %s grid sizes; the wrappers index it with ndim - 1 = %d"
                      % (pos, fq.split(".")[-1], f.name, rank, pos), stmt="I6:pos:%s:%d" % (kind, pos))
            if rank is None:
                continue
            n_k += 1
            res[(kind, rank)] = check_nest(run, M, kind, rank, f)
        # name -> kernel function selection
        vn = VN(M, fact)
        for name, want in (("spline", "sigpy.interp._spline_kernel"), ("kaiser_bessel", "sigpy.interp._kaiser_bessel_kernel")):
            # everything the factory does before it defines the kernels (an if-chain, a helper call, a table lookup ...)
            sel = []
            for s_ in fact.body:
                if isinstance(s_, (ast.FunctionDef, ast.Return)):
                    break
                sel.append(s_)
            pname = fact.params[0]
            outs = VN(M, fact).run(sel, State({pname: T.sym(repr(name), real=True)}))
            got = {T.show(o.env.get(pname)) for o in outs if o.status != "raise"}
            run.check(got == {want.split(".")[-1]}, "I6", "%s name %s" % (fq.split(".")[-1], name), fact.loc(), "'%s' selects %s" % (name, want.split(".")[-1]),
                      "kernel name '%s' selects %s in %s; expected %s" % (name, sorted(got), fq.split(".")[-1], want.split(".")[-1]), stmt="I6:name:%s:%s" % (kind, name))
    run.floor("I1", 6, n_k, "interpolation/gridding kernels")
    # duality
    for N in (1, 2, 3):
        a, b = res.get(("interp", N)), res.get(("grid", N))
        if a is None or b is None:
            continue
        # compare modulo the loop-symbol renaming (both summaries use L0.. in the same nest order) and the array holding the grid
        same_w = T.eq(a["weight"], b["weight"])
        run.check(same_w, "I1", "duality rank %d" % N, M.func(FACT["grid"]).loc(), "gridding uses exactly interpolate's weights and wrapped indices with source/target exchanged",
                  "rank-%d gridding and interpolation use different weights" % N, stmt="I1:dual:%d" % N)
    # registry fill
    mod = M.mod("sigpy.interp")
    fills = {}
    for n in ast.walk(mod.tree):
        if isinstance(n, ast.Assign) and isinstance(n.targets[0], ast.Subscript) and isinstance(n.targets[0].value, ast.Name) and isinstance(n.value, ast.Call):
            fills[n.targets[0].value.id] = (unparse(n.targets[0].slice), unparse(n.value))
    run.check(fills.get("_interpolate") == ("kernel", "_get_interpolate(kernel)") and fills.get("_gridding") == ("kernel", "_get_gridding(kernel)"),
              "I6", "registry fill", mod.path, "_interpolate[k] = _get_interpolate(k), _gridding[k] = _get_gridding(k)",
              "kernel tables are filled as %s" % fills, stmt="I6:fill")
    # I5
    check_kernel_functions(run, M, "I5")
    # I7
    for name in ("interpolate", "gridding"):
        f = M.func("sigpy.interp." + name)
        vn = VN(M, f, call_hook=kernel_hook)
        code = [o for o in vn.run(f.body, State()) if o.status == "return"]
        rf = [o for o in VN(M, f, call_hook=kernel_hook).run(ast.parse(REF_WRAP[name].strip()).body, State()) if o.status == "return"]
        ok = len(code) == len(rf)
        bad = []
        for o in code:
            cs = frozenset(c.key() for c in o.conds)
            m = [r for r in rf if frozenset(c.key() for c in r.conds) == cs]
            if len(m) != 1 or T.enc(o.ret) != T.enc(m[0].ret):
                ok = False
                bad.append((cond_text(o.conds), T.show(o.ret, 500) if isinstance(o.ret, T.Poly) else o.ret))
        run.check(ok, "I7", "interp." + name, f.loc(), "wrapper flattens, broadcasts, zero-initialises, dispatches on ndim - 1 and reshapes back as documented",
                  "%s deviates from the documented wrapper: %s" % (name, bad[:1] or "different case split"), stmt="I7:" + name)
    if not rule_prefix:
        _i8(run, M)


def _i8(run, M):
    """the Interpolate / Gridding operators are the two functions with the constructor's (coord, kernel, width, param), and each builds its
    adjoint from the very same four values -- so that the operator pair inherits the transpose relation I1-I4 establish for the kernels"""
    from ..linopdesc import LinAlg, LV, _show, _t
    run.rule("I8", "linop.Interpolate / linop.Gridding apply interp.interpolate / interp.gridding with the constructor's coord, kernel, width, param, and hand the same "
                   "four values to the partner operator they return as adjoint")
    alg = LinAlg(M)
    n = 0
    for cname, fq, partner in (("Interpolate", "sigpy.interp.interpolate", "Gridding"), ("Gridding", "sigpy.interp.gridding", "Interpolate")):
        cls = M.cls("sigpy.linop." + cname)
        for inst in alg.instances(cls):
            f, res = alg.eval_method(inst, "_apply")
            for conds, ret in res:
                n += 1
                at = ret.single_atom() if isinstance(ret, T.Poly) else None
                bad = []
                if at is None or at[0] != "app" or at[1] != "fn:" + fq:
                    bad.append("returns %s, not %s(input, ...)" % (_show(ret)[:160], fq.split(".")[-1]))
                else:
                    got = {}
                    for x in at[2]:
                        xa = T.dec(x).single_atom() if isinstance(T.dec(x), T.Poly) else None
                        if xa is not None and xa[0] == "app" and xa[1].startswith("kw:"):
                            got[xa[1][3:]] = T.show(_t(T.dec(xa[2][0])), 100)
                    for kw in ("coord", "kernel", "width", "param"):
                        if got.get(kw) != kw:
                            bad.append("%s receives %s for `%s`; the constructor was given `%s`" % (fq.split(".")[-1], got.get(kw, "its default"), kw, kw))
                    if got.get("input") != "input":
                        bad.append("the function is not applied to the operator's input")
                run.check(not bad, "I8", cname + "._apply", f.loc(), "is %s(input, coord, kernel, width, param)" % fq.split(".")[-1],
                          "%s._apply: %s" % (cname, "; ".join(bad[:3])), stmt="I8:apply:" + cname)
            g, res = alg.eval_method(inst, "_adjoint_linop")
            for conds, ret in res:
                n += 1
                bad = []
                if not (isinstance(ret, LV) and ret.kind == "prim" and ret.cls.name == partner):
                    bad.append("the adjoint is %s, not %s" % (_show(ret)[:120], partner))
                else:
                    for kw in ("coord", "kernel", "width", "param"):
                        v = ret.attrs.get(kw)
                        shown = T.show(_t(v), 100) if v is not None else "missing"
                        if shown != kw:
                            bad.append("the adjoint %s is built with %s = %s (the operator itself uses `%s`)" % (partner, kw, shown, kw))
                run.check(not bad, "I8", cname + "._adjoint_linop", g.loc(), "%s with the same coord, kernel, width, param" % partner,
                          "%s._adjoint_linop: %s" % (cname, "; ".join(bad[:3])), stmt="I8:adjoint:" + cname)
    run.floor("I8", 4, n, "operator methods examined")


def check_kernel_functions(run, M, rule, names=("_spline_kernel", "_kaiser_bessel_kernel")):
    """the scalar kernel functions equal their documented forms (also used by C06 for the Kaiser-Bessel kernel); constant-range loops are
    unrolled, so a series written as a loop is compared term by term with the documented polynomial"""
    from ..vn import unroll_loop
    for name, ref in (("_spline_kernel", REF_SPLINE), ("_kaiser_bessel_kernel", REF_KB)):
        if name not in names:
            continue
        f = M.func("sigpy.interp." + name)
        real = {"x", "order", "beta"}
        _, code = vn_paths(M, f, real=real, loop_hook=unroll_loop)
        _, rf = vn_ref(ref.strip(), model=M, func=f, real=real)
        code = [o for o in code if o.status == "return"]
        rf = [o for o in rf if o.status == "return"]
        ok = len(code) == len(rf)
        bad = []
        for o in code:
            cs = frozenset(c.key() for c in o.conds)
            m = [r for r in rf if frozenset(c.key() for c in r.conds) == cs]
            if len(m) != 1 or not (isinstance(o.ret, T.Poly) and T.eq(o.ret, m[0].ret)):
                ok = False
                bad.append((cond_text(o.conds), T.show(o.ret, 200) if isinstance(o.ret, T.Poly) else o.ret, T.show(m[0].ret, 200) if m else "no such case"))
        run.check(ok, rule, name, f.loc(), "equals the documented kernel on %d cases" % len(rf),
                  "%s deviates from the documented kernel: %s" % (name, bad[:2] or "different case split (%d vs %d)" % (len(code), len(rf))), stmt="%s:%s" % (rule, name))
