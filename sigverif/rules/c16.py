"""C16 (partial) -- the SENSE operator is [sqrt(weights)] (FFT | NUFFT) Multiply(mps); batching is a Vstack of per-batch SENSE
operators over the coil axis; the recon apps weight the data with the same sqrt(weights) and route into LinearLeastSquares.

E1 Sense (tseg None, comm None, transp_nufft False): on every path over {ishape, coord, weights, coil_batch_size} the returned operator
   equals the documented composition; the batched branch forwards coord, weights, ishape unchanged and slices mps in consecutive batches
E2 apps: y is multiplied by weights**0.5 with the same (estimated) weights handed to Sense; the three recon constructors share one
   preamble; L1Wavelet uses one W in UnitaryTransform, L1Reg(W.oshape, lamda) and g; TV passes G = FiniteDifference(A.ishape), L1Reg(G.oshape, lamda)
E3 _estimate_weights: mask of sampled k-space (rss over coils > 0) when neither weights nor coord are given
NOT decided: optimality of the recon output (inherits C14's routing and the solvers' convergence).
"""
import ast

from .. import terms as T
from ..linopdesc import LV, LinAlg, _show, _t, havoc_loop
from ..model import AnchorMissing, Unrecognised, unparse
from ..vn import FALSE, NONE, TRUE, VN, State, cond_text

REF_SENSE = """
num_coils = len(mps)
if ishape is None:
    ishape = mps.shape[1:]
    img_ndim = mps.ndim - 1
else:
    img_ndim = len(ishape)
if coil_batch_size is None:
    coil_batch_size = num_coils
if coil_batch_size < len(mps):
    nb = (num_coils + coil_batch_size - 1) // coil_batch_size
    return sp.linop.Vstack([Sense(mps[c * coil_batch_size:(c + 1) * coil_batch_size], coord=coord, weights=weights, ishape=ishape) for c in range(nb)], axis=0)
S = sp.linop.Multiply(ishape, mps)
if coord is None:
    F = sp.linop.FFT(S.oshape, axes=range(-img_ndim, 0))
else:
    F = sp.linop.NUFFT(S.oshape, coord)
A = F * S
if weights is not None:
    A = sp.linop.Multiply(F.oshape, weights ** 0.5) * A
return A
"""

REF_PREAMBLE = """
weights = _estimate_weights(y, weights, coord)
if weights is not None:
    y = sp.to_device(y * weights ** 0.5, device=device)
else:
    y = sp.to_device(y, device=device)
A = linop.Sense(mps, coord=coord, weights=weights, {TSEG}coil_batch_size=coil_batch_size, comm=comm, transp_nufft=transp_nufft)
"""

REF_WEIGHTS = """
if weights is None and coord is None:
    weights = (sp.rss(y, axes=(0,)) > 0).astype(y.dtype)
return weights
"""


def check(run, M, tier):
    run.rule("E1", "Sense(mps, coord, weights, ishape, coil_batch_size) with tseg=None, comm=None, transp_nufft=False returns P * F * S resp. the Vstack(axis=0) of per-batch Sense operators on every path")
    run.rule("E2", "SenseRecon / L1WaveletRecon / TotalVariationRecon: y * weights**0.5 with the weights given to Sense; one shared preamble; regulariser wiring (W, lamda) / (G, lamda) into LinearLeastSquares")
    run.rule("E4", "the recon constructors and Sense never write the caller's k-space, maps, weights or coordinates (interprocedural effect analysis)")
    run.rule("E3", "_estimate_weights returns the sampling mask (rss over the coil axis > 0) only when neither weights nor coord are given")
    run.assume("quantifier of the property: tseg = None, comm = None, transp_nufft = False (the other settings are outside C16)")
    alg = LinAlg(M)
    alg.array_syms |= {"mps", "weights", "coord"}
    f = M.func("sigpy.mri.linop.Sense")
    env = {"tseg": NONE, "comm": NONE, "transp_nufft": FALSE}
    code = [o for o in alg.vn(f, loop_hook=havoc_loop).run(f.body, State(dict(env))) if o.status == "return"]
    ref = [o for o in alg.vn(f, loop_hook=havoc_loop).run(ast.parse(REF_SENSE).body, State(dict(env))) if o.status == "return"]
    run.count("paths", len(code))
    run.floor("E1", 12, len(code), "paths of Sense over {ishape, coil_batch_size, coord, weights}")
    nbad = 0
    for o in code:
        cs = frozenset(c.key() for c in o.conds)
        m = [r for r in ref if frozenset(c.key() for c in r.conds) == cs]
        got = _t(o.ret)
        if len(m) != 1:
            nbad += 1
            run.bad("E1", "Sense[%s]" % cond_text(o.conds)[:100], f.loc(), "Sense under [%s] has no counterpart in the documented construction" % cond_text(o.conds), stmt="E1:" + cond_text(o.conds))
            continue
        want = _t(m[0].ret)
        if T.enc(got) != T.enc(want):
            nbad += 1
            run.bad("E1", "Sense[%s]" % cond_text(o.conds)[:100], f.loc(), "Sense under [%s] returns %s ; the documented operator is %s"
                    % (cond_text(o.conds), _desc(o.ret), _desc(m[0].ret)), stmt="E1:" + cond_text(o.conds))
        else:
            run.ok("E1", "Sense[%s]" % cond_text(o.conds)[:100], _desc(o.ret)[:160], f.loc())
    if len(code) != len(ref):
        run.bad("E1", "Sense paths", f.loc(), "Sense has %d returning paths, the documented construction %d" % (len(code), len(ref)), stmt="E1:paths")
    # what the batched branch does not forward (outside the property's quantifier): INFO
    run.info("Sense's coil-batching branch does not forward tseg and transp_nufft to the per-batch operators (outside C16's quantifier)")

    # ---- E4
    _e4(run, M)
    _inherited_routing(run, M, tier)
    # ---- E3
    fw = M.func("sigpy.mri.app._estimate_weights")
    cw = [o for o in VN(M, fw).run(fw.body, State()) if o.status == "return"]
    rw = [o for o in VN(M, fw).run(ast.parse(REF_WEIGHTS).body, State()) if o.status == "return"]
    sig = lambda outs: sorted((tuple(sorted(repr(c.key()) for c in o.conds)), repr(T.enc(o.ret))) for o in outs)
    run.check(sig(cw) == sig(rw), "E3", "_estimate_weights", fw.loc(), "mask of sampled points over the coil axis, only when weights and coord are both None",
              "_estimate_weights deviates: %s" % [(cond_text(o.conds), _show(o.ret)) for o in cw], stmt="E3")

    # ---- E2 apps
    captured = {}

    def hook(vn, call, st):
        fn = call.func
        if isinstance(fn, ast.Attribute) and fn.attr == "__init__" and isinstance(fn.value, ast.Call) and isinstance(fn.value.func, ast.Name) and fn.value.func.id == "super":
            args = [vn._as_term(vn.ev(a, st)) for a in call.args]
            kw = {k.arg: vn._as_term(vn.ev(k.value, st)) for k in call.keywords if k.arg}
            for pn in ("A", "y")[len(args):]:   # LinearLeastSquares.__init__(A, y, ...) given by keyword
                if pn in kw:
                    args.append(kw.pop(pn))
            st.env["__super_args__"] = tuple(args)
            st.env["__super_kw__"] = T.app("dict", *[T.app("kw:" + k, v) for k, v in sorted(kw.items())])
            for k, v in kw.items():
                st.env["__kw_" + k] = v
            return NONE
        return None
    base_env = {"comm": NONE}
    results = {}
    for cname, tseg in (("SenseRecon", "tseg=tseg, "), ("L1WaveletRecon", ""), ("TotalVariationRecon", "")):
        f = M.func("sigpy.mri.app.%s.__init__" % cname)
        outs = [o for o in VN(M, f, call_hook=hook).run(f.body, State(dict(base_env))) if o.status != "raise"]
        refs = [o for o in VN(M, f, call_hook=hook).run(ast.parse(REF_PREAMBLE.replace("{TSEG}", tseg)).body, State(dict(base_env))) if o.status != "raise"]
        results[cname] = outs
        for o in outs:
            cs = frozenset(c.key() for c in o.conds)
            m = [r for r in refs if frozenset(c.key() for c in r.conds) <= cs]
            # local names of the analysed constructor never matter: the operator and the data are what reaches LinearLeastSquares.__init__
            sup = o.env.get("__super_args__")
            ok2 = isinstance(sup, tuple) and len(sup) == 2
            ok = len(m) == 1 and ok2 and T.enc(sup[0]) == T.enc(m[0].env.get("A")) and T.enc(sup[1]) == T.enc(m[0].env.get("y"))
            run.check(ok and ok2, "E2", "%s preamble[%s]" % (cname, cond_text(o.conds)[:60]), f.loc(),
                      "y * weights**0.5 and Sense(mps, coord, weights, ...) with the same estimated weights, handed to LinearLeastSquares as (A, y)",
                      "%s: under [%s] the data is %s and the operator %s (passed on as %s); expected y * weights**0.5 with the same weights given to Sense, all of "
                      "coord/coil_batch_size/comm/transp_nufft forwarded" % (cname, cond_text(o.conds), _show(sup[1]) if ok2 else "?", _show(sup[0]) if ok2 else "?", _show(sup)),
                      stmt="E2:pre:%s:%s" % (cname, cond_text(o.conds)))
    # SenseRecon forwards lamda
    for o in results["SenseRecon"]:
        run.check(o.env.get("__kw_lamda") == T.sym("lamda"), "E2", "SenseRecon lamda", M.func("sigpy.mri.app.SenseRecon.__init__").loc(), "lamda forwarded",
                  "SenseRecon passes lamda=%s" % _show(o.env.get("__kw_lamda")), stmt="E2:lamda")
    # L1Wavelet
    fl = M.func("sigpy.mri.app.L1WaveletRecon.__init__")
    for o in results["L1WaveletRecon"]:
        W = _kwarg_of(o.env.get("__kw_proxg"), "new:sigpy.prox.UnitaryTransform", "A")
        wantW = VN(M, fl).ev(ast.parse("sp.linop.Wavelet(mps.shape[1:], wave_name=wave_name)", mode="eval").body, State())
        okW = W is not None and T.enc(W) == T.enc(wantW)
        wantP = VN(M, fl).ev(ast.parse("sp.prox.UnitaryTransform(sp.prox.L1Reg(W.oshape, lamda), W)", mode="eval").body, State({"W": W}))
        okP = o.env.get("__kw_proxg") is not None and T.enc(o.env["__kw_proxg"]) == T.enc(wantP)
        g = o.env.get("__kw_g")
        vg = VN(M, fl)
        sg = vg.run(ast.parse("def g(input):\n    return lamda * xp.sum(xp.abs(W(input))).item()\n").body, State({"W": W}))
        wantg = vg._as_term(sg[0].env["g"])
        gs = T.show(g, 300) if isinstance(g, T.Poly) else ""
        okg = isinstance(g, T.Poly) and T.enc(g) == T.enc(wantg)
        run.check(okW and okP and okg, "E2", "L1WaveletRecon wiring[%s]" % cond_text(o.conds)[:40], fl.loc(),
                  "one W = Wavelet(mps.shape[1:], wave_name) in UnitaryTransform(L1Reg(W.oshape, lamda), W) and in g = lamda*sum|W x|",
                  "L1WaveletRecon wires W=%s, proxg=%s, g=%s; expected one Wavelet(mps.shape[1:], wave_name) used in UnitaryTransform(L1Reg(W.oshape, lamda), W) and g"
                  % (_show(W), _show(o.env.get("__kw_proxg")), gs[:120]), stmt="E2:l1w:%s" % cond_text(o.conds))
    ft = M.func("sigpy.mri.app.TotalVariationRecon.__init__")
    for o in results["TotalVariationRecon"]:
        sup = o.env.get("__super_args__")
        A = sup[0] if isinstance(sup, tuple) and sup else None
        G = o.env.get("__kw_G")
        wantG = VN(M, ft).ev(ast.parse("sp.linop.FiniteDifference(A.ishape)", mode="eval").body, State({"A": A}))
        wantP = VN(M, ft).ev(ast.parse("sp.prox.L1Reg(G.oshape, lamda)", mode="eval").body, State({"G": G}))
        ok = G is not None and T.enc(G) == T.enc(wantG) and T.enc(o.env.get("__kw_G")) == T.enc(G) and T.enc(o.env.get("__kw_proxg")) == T.enc(wantP)
        vg = VN(M, ft)
        sg = vg.run(ast.parse("def g(x):\n    return lamda * xp.sum(xp.abs(x)).item()\n").body, State())
        wantg = vg._as_term(sg[0].env["g"])
        okg = isinstance(o.env.get("__kw_g"), T.Poly) and T.enc(o.env["__kw_g"]) == T.enc(wantg)
        run.check(ok and okg, "E2", "TotalVariationRecon wiring[%s]" % cond_text(o.conds)[:40], ft.loc(),
                  "G = FiniteDifference(A.ishape), proxg = L1Reg(G.oshape, lamda), g = lamda*sum|.|, all passed to LinearLeastSquares",
                  "TotalVariationRecon wires G=%s, proxg=%s" % (_show(G), _show(o.env.get("__kw_proxg"))), stmt="E2:tv:%s" % cond_text(o.conds))


def _inherited_routing(run, M, tier):
    """C16's anchors include sigpy/app.py: the recon apps are thin wrappers around LinearLeastSquares, so the routing rules of C14 (which operator, prox,
    step sizes and regularisation reach the solver on every option path) are part of this property's check as well"""
    from . import c14
    c14.check(run, M, tier)


def _e4(run, M):
    """the recon constructors (and the helpers they call) only read the arrays they are given: k-space, maps, weights and coordinates of the
    caller are never written (a second recon built from the same arrays must see the same data)"""
    from ..effects import Effects
    eff = Effects(M)
    for cname in ("SenseRecon", "L1WaveletRecon", "TotalVariationRecon"):
        f = M.func("sigpy.mri.app.%s.__init__" % cname)
        sm = eff.of(f.qual)
        hit = sorted(p for p in sm.mut if p in ("y", "mps", "weights", "coord"))
        if not hit:
            run.ok("E4", cname + ".__init__", "no write reaches y, mps, weights or coord", f.loc())
        for p in hit:
            for node, why in sm.detail.get(("P", p), [])[:1]:
                run.bad("E4", cname + ".__init__", f.loc(node), "%s.__init__ modifies the caller's array `%s`: %s (the same k-space handed to a second reconstruction is "
                        "already scaled, so that reconstruction minimises a different objective)" % (cname, p, why), stmt="E4:%s:%s" % (cname, p))
    g = M.func("sigpy.mri.linop.Sense")
    sm = eff.of(g.qual)
    hit = sorted(p for p in sm.mut if p in ("mps", "weights", "coord"))
    run.check(not hit, "E4", "linop.Sense", g.loc(), "no write reaches mps, weights or coord", "Sense modifies its argument(s) %s in place" % hit, stmt="E4:Sense")


def _kwarg_of(term, fname, kw):
    """the value bound to keyword/parameter `kw` in the application `fname(...)` that `term` consists of"""
    a = term.single_atom() if isinstance(term, T.Poly) else None
    if a is None or a[0] != "app" or a[1] != fname:
        return None
    for x in a[2]:
        v = T.dec(x)
        va = v.single_atom() if isinstance(v, T.Poly) else None
        if va is not None and va[0] == "app" and va[1] == "kw:" + kw:
            return T.dec(va[2][0])
    return None


def _desc(v):
    if isinstance(v, LV):
        return v.describe()[:400]
    return _show(v)
