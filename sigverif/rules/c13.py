"""C13 (partial) -- update forms of the proximal-gradient and primal-dual methods.

Decided statically: one `_update` of GradientMethod equals the (accelerated) proximal-gradient / FISTA step and one `_update`
of PrimalDualHybridGradient equals the Chambolle-Pock step including both strong-convexity accelerations (which must be each
other's mirror image under tau<->sigma); constructor state; the caller's x and u are only updated in place.
NOT decided: every rate, monotonicity and convergence statement of the property (they quantify over runtime histories).
"""
import ast

from .. import terms as T
from ..common import compare_with_reference, vn_paths, vn_ref
from ..effects import Analyzer, Effects
from ..model import AnchorMissing, is_self_attr, unparse
from ..vn import VN, cond_text

GM = "sigpy.alg.GradientMethod"
PD = "sigpy.alg.PrimalDualHybridGradient"
REAL = {"self.alpha", "self.t", "self.tau_min", "self.sigma_min", "self.gamma_primal", "self.gamma_dual", "self.theta", "self.tol",
        "self.iter", "self.max_iter", "gamma_primal", "gamma_dual"}

REF_GM_UPDATE = """
x_old = self.x
if self.accelerate:
    xin = self.z
else:
    xin = self.x
g = xin - self.alpha * self.gradf(xin)
if self.proxg is not None:
    self.x = self.proxg(self.alpha, g)
else:
    self.x = g
if self.accelerate:
    t_old = self.t
    self.t = (1 + (1 + 4 * t_old ** 2) ** 0.5) / 2
    self.z = self.x + ((t_old - 1) / self.t) * (self.x - x_old)
self.resid = xp.linalg.norm(self.x - x_old) / self.alpha
"""

REF_GM_INIT = """
self.gradf = gradf
self.alpha = alpha
self.accelerate = accelerate
self.proxg = proxg
self.x = x
self.tol = tol
if self.accelerate:
    self.z = self.x
    self.t = 1
self.resid = np.inf
"""

REF_PD_UPDATE = """
u_old = self.u
self.u = self.proxfc(self.sigma, self.u + self.sigma * self.A(self.x_ext))
x_old = self.x
self.x = self.proxg(self.tau, self.x - self.tau * self.AH(self.u))
if self.gamma_primal > 0 and self.gamma_dual == 0:
    theta = 1 / (1 + 2 * self.gamma_primal * self.tau_min) ** 0.5
    self.tau = self.tau * theta
    self.tau_min = self.tau_min * theta
    self.sigma = self.sigma / theta
elif self.gamma_primal == 0 and self.gamma_dual > 0:
    theta = 1 / (1 + 2 * self.gamma_dual * self.sigma_min) ** 0.5
    self.sigma = self.sigma * theta
    self.sigma_min = self.sigma_min * theta
    self.tau = self.tau / theta
else:
    theta = self.theta
self.resid = (xp.linalg.norm((self.x - x_old) / self.tau ** 0.5) ** 2 + xp.linalg.norm((self.u - u_old) / self.sigma ** 0.5) ** 2) ** 0.5
self.x_ext = self.x + theta * (self.x - x_old)
"""

REF_PD_INIT = """
self.proxfc = proxfc
self.proxg = proxg
self.tol = tol
self.A = A
self.AH = AH
self.u = u
self.x = x
self.tau = tau
self.sigma = sigma
self.theta = theta
self.gamma_primal = gamma_primal
self.gamma_dual = gamma_dual
self.x_ext = self.x
if self.gamma_primal > 0:
    self.tau_min = xp.amin(xp.abs(tau))
if self.gamma_dual > 0:
    self.sigma_min = xp.amin(xp.abs(sigma))
self.resid = np.inf
"""


STATE_ARRAYS = {"sigpy.alg.GradientMethod": {"x", "z", "x_old"}, "sigpy.alg.PrimalDualHybridGradient": {"x", "u", "x_ext", "x_old", "u_old"}}


def check(run, M, tier):
    run.rule("S1", "GradientMethod._update = x <- prox_{alpha g}(z - alpha grad f(z)) (z = x when not accelerated), t' = (1+sqrt(1+4t^2))/2, "
                   "z <- x + ((t-1)/t')(x - x_old), resid = ||x - x_old|| / alpha, on all four paths")
    run.rule("S2", "PrimalDualHybridGradient._update = u <- prox_{sigma f*}(u + sigma A x_ext); x <- prox_{tau g}(x - tau A^H u); step rescaling by "
                   "theta = 1/sqrt(1 + 2 gamma s_min) per acceleration branch; x_ext <- x + theta (x - x_old); resid from both variable changes")
    run.rule("S3", "the two acceleration branches are mirror images under tau<->sigma, gamma_primal<->gamma_dual")
    run.rule("S4", "constructor state (z copy and t = 1; x_ext copy; tau_min / sigma_min = min |step|)")
    run.rule("S7", "no _update of GradientMethod / PDHG updates in place a value returned by A, AH, gradf or a prox (it may be the iterate or the dual variable itself)")
    run.rule("S6", "at the end of __init__ and of _update no two state arrays of the algorithm are the same object (an extrapolation point bound to a scratch buffer "
                   "is overwritten by the next update)")
    run.rule("S5", "the caller's arrays x (and u) are bound as given and never rebound afterwards: all updates are in place")
    run.assume("convergence theory (descent lemma, FISTA rate, Chambolle-Pock) is trusted mathematics; only the update forms are decided")
    eff = Effects(M)
    for qual, ref_u, ref_i, state_u, state_i, what, r_u in (
        (GM, REF_GM_UPDATE, REF_GM_INIT, ["self.x", "self.z", "self.t", "self.resid"],
         ["self.x", "self.z", "self.t", "self.resid", "self.alpha", "self.gradf", "self.proxg", "self.accelerate", "self.tol"], "proximal-gradient step", "S1"),
        (PD, REF_PD_UPDATE, REF_PD_INIT, ["self.u", "self.x", "self.x_ext", "self.tau", "self.sigma", "self.tau_min", "self.sigma_min", "self.resid"],
         ["self.u", "self.x", "self.x_ext", "self.tau", "self.sigma", "self.tau_min", "self.sigma_min", "self.theta", "self.gamma_primal",
          "self.gamma_dual", "self.proxfc", "self.proxg", "self.A", "self.AH", "self.tol", "self.resid"], "Chambolle-Pock step", "S2"),
    ):
        cls = M.cls(qual)
        upd = M.method(cls, "_update", inherit=False)
        init = M.method(cls, "__init__", inherit=False)
        if upd is None or init is None:
            raise AnchorMissing(qual + "._update/__init__")
        _, code = vn_paths(M, upd, real=REAL)
        _, ref = vn_ref(ref_u, model=M, func=upd, real=REAL)
        run.count("paths", len(code))
        compare_with_reference(run, r_u, cls.name + "._update", upd, code, ref, state_u, what)
        run.floor(r_u, 3, len(code), "paths of %s._update" % cls.name)
        _, codei = vn_paths(M, init, real=REAL)
        _, refi = vn_ref(ref_i, model=M, func=init, real=REAL)
        compare_with_reference(run, "S4", cls.name + ".__init__", init, codei, refi, state_i, "documented initial state")
        if qual == PD:
            _mirror(run, upd, code)
        # S7 operator results are never updated in place; S6 state arrays stay distinct objects
        from ..common import check_operator_results_not_updated
        check_operator_results_not_updated(run, eff, "S7", [upd], "the iterate or the dual variable the next update starts from")
        for label, states in (("_update", code), ("__init__", codei)):
            for o in states:
                if o.status == "raise":
                    continue
                keys = [k for k in o.env if k.startswith("self.") and isinstance(o.env[k], T.Poly)]
                clash = sorted({tuple(sorted((a, b))) for a in keys for b in keys if a < b and o.root(a) == o.root(b)
                                and (a in o.alias or b in o.alias) and a.split(".")[1] in STATE_ARRAYS[qual] and b.split(".")[1] in STATE_ARRAYS[qual]})
                run.check(not clash, "S6", "%s.%s[%s]" % (cls.name, label, cond_text(o.conds)[:50]), (upd if label == "_update" else init).loc(),
                          "state arrays are distinct objects",
                          "%s.%s leaves %s bound to one and the same array object under [%s]: the next in-place update of one silently changes the other "
                          "(e.g. the extrapolation point is overwritten before it is used, and the accelerated method degrades to the plain one)"
                          % (cls.name, label, " and ".join("%s / %s" % c for c in clash), cond_text(o.conds)[:80]), stmt="S6:%s:%s" % (cls.name, label))
        # S5 in-place discipline
        arrays = ["x"] if qual == GM else ["x", "u"]
        for name, f in sorted(cls.methods.items()):
            sm = eff.of(f.qual)
            for attr, node in sm.selfsets:
                if attr not in arrays:
                    continue
                if name == "__init__":
                    ok = isinstance(node, ast.Assign) and isinstance(node.value, ast.Name) and node.value.id == attr
                    run.check(ok, "S5", "%s.__init__ self.%s" % (cls.name, attr), f.loc(node), "bound to the caller's array",
                              "`%s` does not store the caller's array itself, so the solution is not written into the array the caller passed" % unparse(node), stmt=node)
                elif isinstance(node, ast.AugAssign):
                    continue  # in-place update of the array
                else:
                    run.bad("S5", "%s.%s self.%s" % (cls.name, name, attr), f.loc(node),
                            "`%s` rebinds self.%s; the caller's array stops receiving the iterate" % (unparse(node), attr), stmt=node)
        sm = eff.of(upd.qual)
        for a in arrays:
            w = sm.detail.get(("A", a), [])
            run.check(len(w) >= 1, "S5", "%s._update writes %s in place" % (cls.name, a), upd.loc(), "%d in-place write(s)" % len(w),
                      "no in-place write into self.%s in _update" % a, stmt="S5:%s:%s" % (cls.name, a))
        # private copies
        an = Analyzer(eff, init)
        an.run()
        for attr in (["z"] if qual == GM else ["x_ext"]):
            roots = [r for a_, n_, r in an.s.selfset_roots if a_ == attr]
            ok = roots and all(not any(x[0] in ("P", "A") for x in r) for r in roots)
            run.check(ok, "S5", "%s.__init__ self.%s" % (cls.name, attr), init.loc(), "self.%s is a private copy" % attr,
                      "self.%s aliases the caller's array: in-place updates of x would also change it" % attr, stmt="S5:copy:" + attr)


def _mirror(run, upd, code):
    swap = {"self.tau": T.sym("self.sigma"), "self.sigma": T.sym("self.tau"), "self.tau_min": T.sym("self.sigma_min", real=True),
            "self.sigma_min": T.sym("self.tau_min", real=True), "self.gamma_primal": T.sym("self.gamma_dual", real=True),
            "self.gamma_dual": T.sym("self.gamma_primal", real=True)}
    def has(o, txt):
        return any(txt in T.show(c, 400) for c in o.conds)
    from ..vn import conjuncts
    pv = VN(real={"self.gamma_primal", "self.gamma_dual"})
    gp = pv.compare(ast.Gt(), T.sym("self.gamma_primal", real=True), T.const(0))
    gd = pv.compare(ast.Gt(), T.sym("self.gamma_dual", real=True), T.const(0))

    def holds(o, c):
        return any(c == x for k in o.conds for x in conjuncts(k))
    pri = [o for o in code if o.status != "raise" and holds(o, gp)]
    dua = [o for o in code if o.status != "raise" and holds(o, gd) and o not in pri]
    if len(pri) != 1 or len(dua) != 1:
        run.bad("S3", "PrimalDualHybridGradient._update", upd.loc(), "expected exactly one primal- and one dual-acceleration path, found %d and %d" % (len(pri), len(dua)),
                stmt="S3:paths")
        return
    p, d = pri[0], dua[0]
    pairs = [("self.tau", "self.sigma"), ("self.tau_min", "self.sigma_min"), ("self.sigma", "self.tau")]
    bad = []
    for a, b in pairs:
        va, vb = p.env.get(a), d.env.get(b)
        if va is None or vb is None or not T.eq(T.subst(va, swap), vb):
            bad.append((a, b))
    run.check(not bad, "S3", "PrimalDualHybridGradient acceleration branches", upd.loc(), "dual branch = primal branch with tau<->sigma, gamma_primal<->gamma_dual",
              "the dual acceleration branch is not the mirror image of the primal one for %s" % bad, stmt="S3:mirror")
