"""C05 -- fft / ifft are the centred unitary DFT and mutually inverse.

F1 centred pipeline: resize(oshape) -> ifftshift(axes) -> (i)fftn(axes, norm) -> fftshift(axes) over one normalised axes tuple
F2 fft/ifft and _fftc/_ifftc are mirrors modulo fftn <-> ifftn
F3 defaults center=True, norm="ortho"; the FFT/IFFT operators forward axes and center and nothing else
F4 dtype: real input is promoted to complex under a "not complex" guard; the result is cast back to the (complex) input dtype;
   the non-centred path passes s=oshape, axes, norm
F5 centring of the zero-pad/crop (shared with C09/X1)
Not decided: numerical equality with the DFT matrix (numpy's FFT is trusted).
"""
import ast

from .. import terms as T
from ..common import vn_paths, vn_ref
from ..model import AnchorMissing, unparse
from ..vn import NONE, VN, State, cond_text
from .c09 import REF as REF_C09, _cmp as cmp_c09

REF_FFTC = """
ndim = input.ndim
axes = util._normalize_axes(axes, ndim)
xp = backend.get_array_module(input)
if oshape is None:
    oshape = input.shape
tmp = util.resize(input, oshape)
tmp = xp.fft.ifftshift(tmp, axes=axes)
tmp = xp.fft.{F}(tmp, axes=axes, norm=norm)
return xp.fft.fftshift(tmp, axes=axes)
"""
REF_FFT = """
xp = backend.get_array_module(input)
if not np.issubdtype(input.dtype, np.complexfloating):
    input = input.astype(np.complex64)
if center:
    output = {C}(input, oshape=oshape, axes=axes, norm=norm)
else:
    output = xp.fft.{F}(input, s=oshape, axes=axes, norm=norm)
if np.issubdtype(input.dtype, np.complexfloating) and input.dtype != output.dtype:
    output = output.astype(input.dtype)
return output
"""


def _compare(run, M, rule, q, src, inline=()):
    f = M.func(q)
    _, code = vn_paths(M, f, inline=set(inline))
    _, ref = vn_ref(src.strip(), model=M, func=f, inline=set(inline))
    code = [o for o in code if o.status == "return"]
    ref = [o for o in ref if o.status == "return"]
    ok = len(code) == len(ref)
    bad = []
    for o in code:
        cs = frozenset(c.key() for c in o.conds)
        m = [r for r in ref if frozenset(c.key() for c in r.conds) == cs]
        if len(m) != 1 or T.enc(o.ret) != T.enc(m[0].ret):
            ok = False
            bad.append("under [%s] returns %s%s" % (cond_text(o.conds)[:160], T.show(o.ret, 300) if isinstance(o.ret, T.Poly) else o.ret,
                                                   " ; documented %s" % T.show(m[0].ret, 300) if len(m) == 1 else " ; no such documented case"))
    run.check(ok, rule, q, f.loc(), "equals the documented pipeline on %d path(s)" % len(ref),
              "%s deviates from the documented centred-DFT pipeline: %s" % (q, "; ".join(bad[:2]) or "case split differs (%d vs %d paths)" % (len(code), len(ref))),
              stmt="%s:%s" % (rule, q))
    return f


def check(run, M, tier):
    run.rule("F1", "_fftc/_ifftc: resize -> ifftshift -> (i)fftn -> fftshift, all over the same _normalize_axes(axes, ndim), norm forwarded, oshape defaulting to input.shape")
    run.rule("F2", "fft/ifft (and _fftc/_ifftc) are the same function modulo fftn<->ifftn / _fftc<->_ifftc")
    run.rule("F3", "signature defaults: center=True, norm='ortho' (fft, ifft), norm='ortho' (_fftc, _ifftc); FFT/IFFT._apply forward axes and center only")
    run.rule("F4", "complex promotion guarded by `not issubdtype(complexfloating)`, result cast back to the input's complex dtype, non-centred path passes s=oshape, axes, norm")
    run.rule("F5", "util.resize centres with max(i//2 - o//2, 0) / max(o//2 - i//2, 0)")
    _compare(run, M, "F1", "sigpy.fourier._fftc", REF_FFTC.format(F="fftn"))
    _compare(run, M, "F1", "sigpy.fourier._ifftc", REF_FFTC.format(F="ifftn"))
    # (the centred core is expanded on both sides: whether fft reaches it through _fftc or through a merged helper is not a difference; F1 certifies the core)
    cores = ("sigpy.fourier._fftc", "sigpy.fourier._ifftc")
    _compare(run, M, "F4", "sigpy.fourier.fft", REF_FFT.format(C="_fftc", F="fftn"), inline=cores)
    _compare(run, M, "F4", "sigpy.fourier.ifft", REF_FFT.format(C="_ifftc", F="ifftn"), inline=cores)
    # F2 mirror: fft/ifft and _fftc/_ifftc are instances of ONE template (REF_FFT / REF_FFTC) differing only in the primitive,
    # so F1/F4 holding for both members of a pair is the mirror property
    held = {(o[1]) for o in run.obligations if o[0] in ("F1", "F4") and o[2]}
    for a_, b_ in (("sigpy.fourier.fft", "sigpy.fourier.ifft"), ("sigpy.fourier._fftc", "sigpy.fourier._ifftc")):
        run.check(a_ in held and b_ in held, "F2", "%s ~ %s" % (a_.split(".")[-1], b_.split(".")[-1]), M.func(b_).loc(),
                  "both instantiate the same template modulo fftn<->ifftn", "%s and %s are not mirror images modulo fftn<->ifftn" % (a_, b_), stmt="F2:" + a_)
    # F3 defaults
    for q, want in (("sigpy.fourier.fft", {"center": True, "norm": "ortho", "oshape": None, "axes": None}),
                    ("sigpy.fourier.ifft", {"center": True, "norm": "ortho", "oshape": None, "axes": None}),
                    ("sigpy.fourier._fftc", {"norm": "ortho", "oshape": None, "axes": None}),
                    ("sigpy.fourier._ifftc", {"norm": "ortho", "oshape": None, "axes": None})):
        f = M.func(q)
        d = {k: (v.value if isinstance(v, ast.Constant) else unparse(v)) for k, v in f.defaults.items()}
        run.check(d == want, "F3", q + " defaults", f.loc(), "defaults %s" % want, "%s has defaults %s; documented %s" % (q, d, want), stmt="F3:" + q)
    for cname, prim in (("FFT", "fft"), ("IFFT", "ifft")):
        f = M.func("sigpy.linop.%s._apply" % cname)
        # what _apply computes, read through helper methods (value numbering of the method on a generic instance)
        from ..linopdesc import LinAlg, _t
        alg_ = LinAlg(M)
        want_t = "fn:sigpy.fourier.%s(kw:axes(axes), kw:center(center), kw:input(input), kw:norm('ortho'), kw:oshape(None))" % prim
        got_t = []
        for inst in alg_.instances(M.cls("sigpy.linop." + cname)):
            _, res = alg_.eval_method(inst, "_apply")
            got_t += [T.show(_t(r), 300) for _, r in res]
        ok = bool(got_t) and all(g == want_t for g in got_t)
        run.check(ok, "F3", cname + "._apply", f.loc(), "is fourier.%s(input, axes=self.axes, center=self.center)" % prim,
                  "%s._apply computes %s; expected fourier.%s(input, axes=self.axes, center=self.center) with the orthonormal default and no output shape"
                  % (cname, got_t[:2] or "nothing", prim), stmt="F3:apply:" + cname)
        d = {k: (v.value if isinstance(v, ast.Constant) else unparse(v)) for k, v in M.func("sigpy.linop.%s.__init__" % cname).defaults.items()}
        run.check(d == {"axes": None, "center": True}, "F3", cname + " defaults", f.loc(), "operator defaults axes=None, center=True", "%s defaults are %s" % (cname, d), stmt="F3:opdef:" + cname)
    run.rule("F6", "FFT and IFFT name each other as adjoint with the same shape, axes and center (a centred transform's adjoint is the centred inverse), and Identity as normal operator")
    from ..common import bound_args
    for cname, other in (("FFT", "IFFT"), ("IFFT", "FFT")):
        f = M.func("sigpy.linop.%s._adjoint_linop" % cname)
        rets = [n for n in ast.walk(f.node) if isinstance(n, ast.Return) and n.value is not None]
        from ..model import resolve_temp
        val = resolve_temp(f.node, rets[0].value) if len(rets) == 1 else None
        ba = bound_args(M, f, val) if isinstance(val, ast.Call) else None
        callee = M.resolve_call(f, val)[1].name if isinstance(val, ast.Call) and M.resolve_call(f, val)[0] == "class" else None
        ok = callee == other and ba is not None and ba.get("axes") == "self.axes" and ba.get("center") == "self.center" and ba.get("shape") in ("self.ishape", "self.oshape", "shape")
        run.check(ok, "F6", cname + "._adjoint_linop", f.loc(), "%s(self.ishape, axes=self.axes, center=self.center)" % other,
                  "%s._adjoint_linop returns `%s`; the adjoint of the %s transform over self.axes is %s with the same axes and the same center flag (dropping one falls "
                  "back to that constructor's default)" % (cname, unparse(val) if val is not None else "?", "centred/uncentred", other), stmt="F6:" + cname)
    cmp_c09(run, M, "sigpy.util.resize", REF_C09["sigpy.util.resize"], "F5")
    cmp_c09(run, M, "sigpy.util._normalize_axes", REF_C09["sigpy.util._normalize_axes"], "F1")


