"""C06 (partial) -- nufft / nufft_adjoint are step-for-step the documented (Beatty et al.) pipelines with one set of parameters.

U1 nufft = apodise, scale N^-1/2, zero-pad to the oversampled grid, unnormalised centred FFT over the last ndim axes, Kaiser-Bessel interpolation
   (width, beta) at the scaled coordinates, divide by width^ndim; nufft_adjoint = the mirrored steps with scaling prod(os_shape) N^-1/2
   compensating ifft(norm=None)
U2 shared quantities: beta is one term in both transforms; ceil(oversamp n) in _get_oversamp_shape, _scale_coord (scale and //2 shift), _apodize
U3 cited formulas: beta = pi sqrt((W/sigma (sigma - 1/2))^2 - 0.8); apodisation x/sinh(x) with x = sqrt(beta^2 - (pi W (idx - i//2)/os_i)^2)
U4 toeplitz_psf calls both transforms with the same (coord, oversamp, width) on the 2x grid
NOT decided: the 3 % / 0.3 % accuracy figures and periodicity (numerical properties of the Kaiser-Bessel approximation).
"""
import ast

from .. import terms as T
from ..kernelsum import summarize
from ..linopdesc import havoc_loop
from ..model import AnchorMissing, Unrecognised, unparse
from ..vn import NONE, VN, State, cond_text

BETA = "np.pi * (((width / oversamp) * (oversamp - 0.5)) ** 2 - 0.8) ** 0.5"

REF_NUFFT = """
ndim = coord.shape[-1]
beta = %s
os_shape = _get_oversamp_shape(input.shape, ndim, oversamp)
output = input.copy()
_apodize(output, ndim, oversamp, width, beta)
output = output / util.prod(input.shape[-ndim:]) ** 0.5
output = util.resize(output, os_shape)
output = fft(output, axes=range(-ndim, 0), norm=None)
coord = _scale_coord(coord, input.shape, oversamp)
output = interp.interpolate(output, coord, kernel="kaiser_bessel", width=width, param=beta)
output = output / width ** ndim
return output
""" % BETA

REF_ADJ = """
ndim = coord.shape[-1]
beta = %s
if oshape is None:
    oshape = list(input.shape[: -coord.ndim + 1]) + estimate_shape(coord)
else:
    oshape = list(oshape)
os_shape = _get_oversamp_shape(oshape, ndim, oversamp)
coord = _scale_coord(coord, oshape, oversamp)
output = interp.gridding(input, coord, os_shape, kernel="kaiser_bessel", width=width, param=beta)
output = output / width ** ndim
output = ifft(output, axes=range(-ndim, 0), norm=None)
output = util.resize(output, oshape)
output = output * (util.prod(os_shape[-ndim:]) / util.prod(oshape[-ndim:]) ** 0.5)
_apodize(output, ndim, oversamp, width, beta)
return output
""" % BETA

REF_OS = "return list(shape)[:-ndim] + [ceil(oversamp * i) for i in shape[-ndim:]]"

REF_SCALE = """
ndim = coord.shape[-1]
output = coord.copy()
for i in range(-ndim, 0):
    scale = ceil(oversamp * shape[i]) / shape[i]
    shift = ceil(oversamp * shape[i]) // 2
    output[..., i] *= scale
    output[..., i] += shift
return output
"""

REF_APOD = """
xp = backend.get_array_module(input)
output = input
for a in range(-ndim, 0):
    i = output.shape[a]
    os_i = ceil(oversamp * i)
    idx = xp.arange(i, dtype=output.dtype)
    apod = (beta ** 2 - (np.pi * width * (idx - i // 2) / os_i) ** 2) ** 0.5
    apod = apod / xp.sinh(apod)
    output = output * apod.reshape([i] + [1] * (-a - 1))
return output
"""

REF_PSF = """
xp = backend.get_array_module(coord)
ndim = coord.shape[-1]
new_shape = _get_oversamp_shape(shape, ndim, 2)
new_coord = _scale_coord(coord, new_shape, 2)
idx = [slice(None)] * len(new_shape)
for k in range(-1, -(ndim + 1), -1):
    idx[k] = new_shape[k] // 2
d = xp.zeros(new_shape, dtype=xp.complex64)
d[tuple(idx)] = 1
psf = nufft(d, new_coord, oversamp, width)
psf = nufft_adjoint(psf, new_coord, d.shape, oversamp, width)
fft_axes = tuple(range(-1, -(ndim + 1), -1))
psf = fft(psf, axes=fft_axes, norm=None) * (2 ** ndim)
return psf
"""

REAL = {"width", "oversamp", "ndim", "beta"}


def apod_hook(vn, call, st):
    """_apodize(x, ...) scales its first argument in place (and returns it)"""
    f = call.func
    if isinstance(f, ast.Name) and f.id == "_apodize":
        # arguments in the order of _apodize's own signature, whatever the spelling of the call
        order = ["input", "ndim", "oversamp", "width", "beta"]
        nodes = list(call.args) + [None] * (len(order) - len(call.args))
        for kwd in call.keywords:
            if kwd.arg in order:
                nodes[order.index(kwd.arg)] = kwd.value
        if any(n is None for n in nodes):
            return None
        args = [vn._as_term(vn.ev(a, st)) for a in nodes]
        k = vn.key_of(nodes[0])
        res = T.app("fn:sigpy.fourier._apodize", *args)
        if k is not None:
            st.env[k] = res
        return res
    return None


def _paths(M, f, stmts, hook=apod_hook, loop_hook=None):
    vn = VN(M, f, call_hook=hook, real=REAL, loop_hook=loop_hook)
    return [o for o in vn.run(stmts, State()) if o.status == "return"]


def _cmp(run, M, rule, q, ref_src, loop_hook=None, hook=apod_hook):
    f = M.func(q)
    code = _paths(M, f, f.body, hook, loop_hook)
    ref = _paths(M, f, ast.parse(ref_src.strip()).body, hook, loop_hook)
    ok = len(code) == len(ref) and len(code) > 0
    bad = []
    for o in code:
        cs = frozenset(c.key() for c in o.conds)
        m = [r for r in ref if frozenset(c.key() for c in r.conds) == cs]
        same = len(m) == 1 and (T.eq(o.ret, m[0].ret) if isinstance(o.ret, T.Poly) and isinstance(m[0].ret, T.Poly) else T.enc(o.ret) == T.enc(m[0].ret))
        if not same:
            ok = False
            bad.append("under [%s] returns %s ; documented %s" % (cond_text(o.conds)[:100], T.show(o.ret, 700) if isinstance(o.ret, T.Poly) else o.ret,
                                                                  (T.show(m[0].ret, 700) if isinstance(m[0].ret, T.Poly) else m[0].ret) if len(m) == 1 else "no such case"))
    run.check(ok, rule, q, f.loc(), "equals the documented pipeline", "%s deviates from the documented pipeline: %s" % (q, "; ".join(bad[:1]) or "case split differs"),
              stmt="%s:%s" % (rule, q))
    return f, code


def psf_instances_equal(M):
    """toeplitz_psf compared with its documented form for concrete ranks (1-3 transform dimensions, with and without a batch axis) and
    symbolic sizes: with the rank fixed, index lists, loops and comprehensions evaluate to plain tuples, so different spellings of the
    impulse index (negative-index stores into a list / concatenation of slices and centres) become the same term"""
    from ..vn import unroll_loop
    f = M.func("sigpy.fourier.toeplitz_psf")
    for ndim, nbatch in ((1, 0), (2, 0), (3, 0), (1, 1), (2, 1), (2, 2)):
        shape = tuple(T.sym("n%d" % i, real=True) for i in range(ndim + nbatch))
        res = []
        for body in (f.body, ast.parse(REF_PSF.strip()).body):
            class PVN(VN):
                def ev_Subscript(self, e, st):
                    if unparse(e) == "coord.shape[-1]":
                        return T.const(ndim)
                    return VN.ev_Subscript(self, e, st)
            vn = PVN(M, f, call_hook=apod_hook, real=REAL, loop_hook=unroll_loop, inline={"sigpy.fourier._get_oversamp_shape"})
            try:
                outs = [o for o in vn.run(body, State({"shape": shape})) if o.status == "return"]
            except (Unrecognised, TypeError, KeyError):
                return False
            res.append(sorted(repr(T.enc(vn._as_term(o.ret))) for o in outs))
        if not res[0] or res[0] != res[1]:
            return False
    return True


def check(run, M, tier):
    run.rule("U1", "nufft and nufft_adjoint equal the documented step sequences (apodise / N^-1/2 / zero-pad / unnormalised centred FFT over the last ndim axes / "
                   "Kaiser-Bessel interpolate at scaled coordinates / width^-ndim, and the mirror with prod(os_shape) N^-1/2)")
    run.rule("U2", "beta is the same term in both transforms; _get_oversamp_shape, _scale_coord, _apodize use ceil(oversamp * n) as documented")
    run.rule("U3", "beta = pi*sqrt((W/sigma*(sigma-1/2))^2 - 0.8) (Beatty et al.); apodisation = x/sinh(x), x = sqrt(beta^2 - (pi W (idx - i//2)/os_i)^2)")
    run.rule("U5", "the Kaiser-Bessel kernel is I0(beta sqrt(1 - x^2)) in the Abramowitz-Stegun 9.8.1/9.8.2 polynomial form, zero outside |x| <= 1 (same rule as C07/I5)")
    run.rule("U4", "toeplitz_psf evaluates nufft_adjoint(nufft(delta)) on the 2x grid with one (new_coord, oversamp, width), then the unnormalised FFT times 2^ndim")
    run.assume("accuracy of Kaiser-Bessel gridding at given (oversamp, width) is the cited references' result, not decided here")
    f1, c1 = _cmp(run, M, "U1", "sigpy.fourier.nufft", REF_NUFFT)
    f2, c2 = _cmp(run, M, "U1", "sigpy.fourier.nufft_adjoint", REF_ADJ)
    # U2/U3 beta
    want_beta = VN(real=REAL).ev(ast.parse(BETA, mode="eval").body, State())
    for f in (f1, f2):
        vn = VN(M, f, call_hook=apod_hook, real=REAL)
        outs = vn.run(f.body, State())
        # the kernel parameter is whatever reaches interpolate / gridding as `param` (local names never matter)
        found = []
        for o in outs:
            if o.status != "return":
                continue
            for a in T.apps(o.ret, "fn:sigpy.interp.interpolate") + T.apps(o.ret, "fn:sigpy.interp.gridding"):
                for x in a[2]:
                    v = T.dec(x)
                    va = v.single_atom() if isinstance(v, T.Poly) else None
                    if va is not None and va[0] == "app" and va[1] == "kw:param":
                        found.append(T.dec(va[2][0]))
        betas = {T.show(b_, 300) for b_ in found}
        ok = bool(found) and all(isinstance(b_, T.Poly) and T.eq(b_, want_beta) for b_ in found)
        run.check(ok, "U3", f.name + " beta", f.loc(), "beta = pi*sqrt((W/sigma*(sigma - 1/2))^2 - 0.8)",
                  "%s uses beta = %s; Beatty's kernel parameter is pi*sqrt((W/sigma*(sigma-1/2))^2 - 0.8)" % (f.name, sorted(betas)), stmt="U3:beta:" + f.name)
    _cmp(run, M, "U2", "sigpy.fourier._get_oversamp_shape", REF_OS)
    # _scale_coord: loop summary
    for q, ref_src, rule in (("sigpy.fourier._scale_coord", REF_SCALE, "U2"), ("sigpy.fourier._apodize", REF_APOD, "U3")):
        f = M.func(q)
        ka = summarize(M, f)
        kb = summarize(M, f, stmts=ast.parse(ref_src.strip()).body)
        sa = [(ka.canon(s.array), T.enc(s.idx), s.op, T.enc(s.value)) for s in ka.stores]
        sb = [(kb.canon(s.array), T.enc(s.idx), s.op, T.enc(s.value)) for s in kb.stores]
        la = [tuple(T.enc(a) for a in l.args) for l in ka.loops]
        lb = [tuple(T.enc(a) for a in l.args) for l in kb.loops]
        oa, ob = ka.ret, kb.ret   # the returned value (local names never matter)
        same_out = isinstance(oa, T.Poly) and isinstance(ob, T.Poly) and T.eq(oa, ob)
        run.check(sa == sb and la == lb and same_out, rule, q, f.loc(), "loop over the last ndim axes with the documented per-axis factors",
                  "%s deviates from its documented form: stores %s ; output %s ; documented stores %s ; output %s"
                  % (q, [(s.array, s.op, T.show(s.value, 200) if isinstance(s.value, T.Poly) else s.value) for s in ka.stores], T.show(oa, 400) if isinstance(oa, T.Poly) else oa,
                     [(s.array, s.op, T.show(s.value, 200) if isinstance(s.value, T.Poly) else s.value) for s in kb.stores], T.show(ob, 400) if isinstance(ob, T.Poly) else ob),
                  stmt="%s:%s" % (rule, q))
    # in-place contract of _apodize: it must scale the array it is given (output = input alias), which the callers rely on
    fa = M.func("sigpy.fourier._apodize")
    buf = fa.params[0]
    aliases = {buf} | {n.targets[0].id for n in ast.walk(fa.node) if isinstance(n, ast.Assign) and len(n.targets) == 1 and isinstance(n.targets[0], ast.Name)
                       and isinstance(n.value, ast.Name) and n.value.id == buf}
    al = [n for n in ast.walk(fa.node) if isinstance(n, ast.AugAssign) and isinstance(n.op, ast.Mult) and isinstance(n.target, ast.Name) and n.target.id in aliases]
    run.check(len(al) >= 1, "U1", "_apodize in-place contract", fa.loc(), "_apodize works on the caller's buffer (callers pass a private copy)",
              "_apodize no longer scales the array it is given in place, but nufft/nufft_adjoint discard its return value", stmt="U1:apod-inplace")
    if psf_instances_equal(M):
        run.ok("U4", "sigpy.fourier.toeplitz_psf", "equals the documented pipeline for every rank instance (1-3 transform dimensions, 0-2 batch axes, symbolic sizes)",
               M.func("sigpy.fourier.toeplitz_psf").loc())
    else:
        _cmp(run, M, "U4", "sigpy.fourier.toeplitz_psf", REF_PSF, loop_hook=havoc_loop)
    # U6 the transforms work on private copies
    run.rule("U6", "nufft, nufft_adjoint and toeplitz_psf never write through their array arguments (apodisation and scaling act on a private copy): a second transform of the same array sees the same data")
    from ..effects import Effects
    _eff = Effects(M)
    for q_ in ("sigpy.fourier.nufft", "sigpy.fourier.nufft_adjoint", "sigpy.fourier.toeplitz_psf"):
        f_ = M.func(q_)
        sm_ = _eff.of(q_)
        hit = sorted(p_ for p_ in sm_.mut if p_ in ("input", "coord"))
        if not hit:
            run.ok("U6", q_, "no write reaches input or coord", f_.loc())
        for p_ in hit:
            for node_, why_ in sm_.detail.get(("P", p_), [])[:1]:
                run.bad("U6", q_, f_.loc(node_), "%s modifies the caller's array `%s` in place (%s): transforming the same array again (another trajectory, the Gram operator, a "
                        "solver iterate) starts from already apodised/scaled data" % (q_, p_, why_), stmt="U6:%s:%s" % (q_, p_))
    # U5 the interpolation kernel nufft relies on (anchor: Kaiser-Bessel kernel via the polynomial I0 approximation)
    from .c07 import check_kernel_functions
    check_kernel_functions(run, M, "U5", names=("_kaiser_bessel_kernel",))
    # ... and the interpolation / gridding loops themselves (anchor sigpy/interp.py: window, weights, periodic wrap): nufft's accuracy and exact
    # adjointness are those of interpolate / gridding, so C07's kernel rules (I1-I7) are part of this property's check
    from . import c07
    c07.check(run, M, tier, rule_prefix="U7")
