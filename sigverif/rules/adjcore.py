"""Relational adjointness obligations on the numerical cores behind the operator pairs of C01 (rule group A8).

These compare the *two members of a pair with each other* (never with a golden formula), so a consistent change of both members -
which keeps adjointness and is the business of C05-C10 - is not reported here:
  A8-interp  _interpolateN / _griddingN: same loop nest, same weights, same wrapped index tuple, source and target exchanged, both accumulate
  A8-fft     _fftc / _ifftc and fft / ifft are the same function modulo fftn<->ifftn (with the orthonormal default this makes them a unitary pair)
  A8-nufft   nufft_adjoint is the reversed chain of nufft's steps with partner primitives and equal parameters; its scalar equals nufft's times prod(os_shape)
  A8-conv    adjoint mode table, zero-stuffing with the forward's stride slice, conjugating correlate (C08 rules V1, V3, V4)
  A8-block   scatter kernels iterate the inverse image of the gather kernels' index map (C09 rules X4-X6)
  A8-wavelet analysis / synthesis use one parameter tuple and one centred pad/crop (C10 rules W1, W2)
"""
import ast

from .. import terms as T
from ..kernelsum import summarize
from ..model import Unrecognised
from ..vn import VN, State, cond_text
from . import c06, c07, c08, c09, c10


def rename_apps(t, mapping):
    """rebuild a term with application names substituted (canonical form recomputed)"""
    if isinstance(t, tuple):
        return tuple(rename_apps(x, mapping) for x in t)
    if not isinstance(t, T.Poly):
        return t
    out = T.Poly()
    for m, c in t.t.items():
        term = T.Poly({frozenset(): c})
        for a, e in m:
            term = T.mul_raw(term, T.power(_ra(a, mapping), e))
        out = T.add(out, term)
    return out


def _ra(a, mapping):
    if a[0] == "app":
        args = [rename_apps(T.dec(x), mapping) for x in a[2]]
        return T.app(mapping.get(a[1], a[1]), *args, real=a[3])
    if a[0] == "cmp":
        inner = rename_apps(T.from_key(a[1]), mapping)
        return inner if len(inner.t) == 1 else T.atom_poly(("cmp", inner.key()))
    return T.atom_poly(a)


def check(run, M, tier):
    run.rule("A8", "relational adjointness of the numerical cores: interpolate/gridding kernels, fft/ifft mirrors, nufft/nufft_adjoint mirrored chains, "
                   "convolution adjoint modes and correlation, block gather/scatter inverse images, wavelet parameter agreement")
    _interp(run, M)
    _fft(run, M)
    _nufft(run, M)
    # pair-specific rules of C08 / C09 / C10 (they concern the relation between forward and adjoint routines)
    c08.check(run, M, tier)
    c09._blocks(run, M)
    c10.check(run, M, tier)


def _interp(run, M):
    fi, ki = c07.kernels_of(M, c07.FACT["interp"])
    fg, kg = c07.kernels_of(M, c07.FACT["grid"])
    for N, (a, b) in enumerate(zip(ki, kg), start=1):
        sa, sb = summarize(M, a), summarize(M, b)
        lab = "rank %d" % N
        ok = len(sa.loops) == len(sb.loops) and len(sa.stores) == 1 and len(sb.stores) == 1
        if ok:
            # identical nests modulo the array whose shape gives the grid sizes (input for interpolate, output for gridding)
            ren = lambda t: T.subst(t, {"input": T.sym("GRID"), "output": T.sym("PTS")})
            renb = lambda t: T.subst(t, {"output": T.sym("GRID"), "input": T.sym("PTS")})
            la = [tuple(T.enc(ren(x)) for x in l.args) for l in sa.loops]
            lb = [tuple(T.enc(renb(x)) for x in l.args) for l in sb.loops]
            ok = la == lb
        run.check(ok, "A8-interp", lab + " loop nests", b.loc(), "gridding iterates interpolate's loop nest (points, windows, batch)",
                  "rank-%d gridding and interpolation iterate different loop nests (window bounds or order differ)" % N, stmt="A8:interp:nest:%d" % N)
        if not ok:
            continue
        s1, s2 = sa.stores[0], sb.stores[0]
        # interpolate: output[p] += w * input[g]   gridding: output[g] += w * input[p]
        def split(st):
            src = [x for x in T.apps(st.value, "getitem") if T.dec(x[2][0]) == T.sym("input")] if isinstance(st.value, T.Poly) else []
            if len(src) != 1:
                return None
            from ..vn import _replace_atom
            w = _replace_atom(st.value, src[0], T.const(1))
            return w, T.dec(src[0][2][1]), st.idx
        pa, pb = split(s1), split(s2)
        okd = pa is not None and pb is not None and s1.accumulate and s2.accumulate
        if okd:
            wa, srca, tgta = pa
            wb, srcb, tgtb = pb
            rena = lambda t: T.subst(t, {"input": T.sym("GRID"), "output": T.sym("PTS")})
            renb2 = lambda t: T.subst(t, {"output": T.sym("GRID"), "input": T.sym("PTS")})
            okd = T.eq(wa, wb) and T.enc(rena(tuple(srca))) == T.enc(renb2(tuple(tgtb))) and T.enc(rena(tuple(tgta))) == T.enc(renb2(tuple(srcb)))
        run.check(okd, "A8-interp", lab + " transpose", b.loc(s2.node), "same weights, grid index tuple and point index with source/target exchanged; both accumulate",
                  "rank-%d gridding is not the transpose of interpolation: statements `%s` vs `%s` (weights, wrapped index tuple or accumulation differ)"
                  % (N, ast.unparse(s1.node), ast.unparse(s2.node)), stmt="A8:interp:T:%d" % N)
    # wrappers must dispatch the pair consistently (same broadcasting of width/param, same coordinate reshape)
    for nm in ("interpolate", "gridding"):
        pass


def _fft(run, M):
    from ..common import vn_paths
    for a, b, ren in (("sigpy.fourier._fftc", "sigpy.fourier._ifftc", {"call:numpy.fft.fftn": "call:numpy.fft.ifftn"}),
                      ("sigpy.fourier.fft", "sigpy.fourier.ifft", {"call:numpy.fft.fftn": "call:numpy.fft.ifftn", "fn:sigpy.fourier._fftc": "fn:sigpy.fourier._ifftc"})):
        fa, fb = M.func(a), M.func(b)
        _, ca = vn_paths(M, fa)
        _, cb = vn_paths(M, fb)
        ra = sorted((repr(sorted(repr(T.enc(rename_apps(c, ren))) for c in o.conds)), repr(T.enc(rename_apps(o.ret, ren)))) for o in ca if o.status == "return")
        rb = sorted((repr(sorted(repr(T.enc(c)) for c in o.conds)), repr(T.enc(o.ret))) for o in cb if o.status == "return")
        run.check(ra == rb, "A8-fft", "%s ~ %s" % (a.split(".")[-1], b.split(".")[-1]), fb.loc(), "mirror images modulo fftn <-> ifftn",
                  "%s and %s are not mirror images modulo fftn<->ifftn: with the orthonormal default they are no longer a unitary (mutually adjoint) pair" % (a, b), stmt="A8:fft:" + a)


def _data_dep(t):
    """does the term depend on the *values* of `input` (not merely on input.shape / dtype / ndim)?"""
    if isinstance(t, tuple):
        return any(_data_dep(x) for x in t)
    if not isinstance(t, T.Poly):
        return False
    for m in t.t:
        for a, _ in m:
            if _atom_dep(a):
                return True
    return False


def _atom_dep(a):
    if a[0] == "sym":
        return a[1] == "input"
    if a[0] == "app":
        if a[1] in ("attr:shape", "attr:dtype", "attr:ndim", "len", "shape"):
            return False
        return any(_data_dep(T.dec(x)) for x in a[2])
    if a[0] == "cmp":
        return _data_dep(T.from_key(a[1]))
    return False


def _peel(term):
    """peel a nufft-style result into (scalar factor, [(primitive, {param: term})...]) from the outside in"""
    layers = []
    scal = T.const(1)
    cur = term
    for _ in range(20):
        if not isinstance(cur, T.Poly) or len(cur.t) != 1:
            raise Unrecognised("nufft chain is not a single product at some layer")
        (m, c), = cur.t.items()
        arr = [(a, e) for a, e in m if a[0] == "app" and _atom_dep(a)]
        if not arr:
            if cur == T.sym("input"):
                return scal, layers
            raise Unrecognised("nufft chain does not end in `input`")
        if len(arr) != 1 or arr[0][1] != 1:
            raise Unrecognised("nufft chain multiplies two input-dependent factors")
        rest = frozenset(x for x in m if x != arr[0])
        scal = T.mul(scal, T.Poly({rest: c}))
        a = arr[0][0]
        kw = {}
        nxt = None
        pos = 0
        for x in a[2]:
            v = T.dec(x)
            va = v.single_atom() if isinstance(v, T.Poly) else None
            name = None
            if va is not None and va[0] == "app" and va[1].startswith("kw:"):
                name = va[1][3:]
                v = T.dec(va[2][0])
            else:
                name = "#%d" % pos
                pos += 1
            if isinstance(v, T.Poly) and _data_dep(v):
                if nxt is not None:
                    raise Unrecognised("two input-dependent arguments")
                nxt = v
            else:
                kw[name] = v
        layers.append((a[1], kw))
        cur = nxt
    raise Unrecognised("nufft chain too deep")


PARTNER = {"fn:sigpy.interp.interpolate": "fn:sigpy.interp.gridding", "fn:sigpy.fourier.fft": "fn:sigpy.fourier.ifft",
           "fn:sigpy.util.resize": "fn:sigpy.util.resize", "fn:sigpy.fourier._apodize": "fn:sigpy.fourier._apodize"}


def _nufft(run, M):
    f1, f2 = M.func("sigpy.fourier.nufft"), M.func("sigpy.fourier.nufft_adjoint")
    o1 = [o for o in VN(M, f1, call_hook=c06.apod_hook, real=c06.REAL).run(f1.body, State()) if o.status == "return"]
    o2 = [o for o in VN(M, f2, call_hook=c06.apod_hook, real=c06.REAL).run(f2.body, State()) if o.status == "return"]
    if len(o1) != 1 or not o2:
        raise Unrecognised("nufft has %d paths, nufft_adjoint %d" % (len(o1), len(o2)))
    s1, L1 = _peel(o1[0].ret)
    for o in o2:
        s2, L2 = _peel(o.ret)
        lab = "nufft ~ nufft_adjoint[%s]" % cond_text(o.conds)[:40]
        fwd = [k for k, _ in L1][::-1]          # innermost first
        adj = [k for k, _ in L2]                # outermost first
        okk = len(fwd) == len(adj) and all(PARTNER.get(a) == b for a, b in zip(fwd, adj))
        run.check(okk, "A8-nufft", lab + " chain", f2.loc(), "adjoint applies the partner of each forward step in reverse order",
                  "nufft applies %s (inner to outer) but nufft_adjoint applies %s (outer to inner): not the reversed chain of adjoint partners" % (fwd, adj), stmt="A8:nufft:chain:" + cond_text(o.conds)[:40])
        if not okk:
            continue
        # parameters: kernel/width/param of interpolate vs gridding, axes/norm of fft vs ifft, apodize args; shapes are swapped by construction
        d1 = {k: kw for k, kw in L1}
        d2 = {k: kw for k, kw in L2}
        # the image shape: forward reads input.shape, the adjoint is given oshape
        shp_f = T.app("attr:shape", T.sym("input"), real=True)
        env2 = o.env
        shp_a = env2.get("oshape")
        sub = lambda t: T.subst(t, {}) if True else t
        problems = []
        ia, ga = d1["fn:sigpy.interp.interpolate"], d2["fn:sigpy.interp.gridding"]
        for p in ("kernel", "width", "param"):
            if T.enc(ia.get(p)) != T.enc(ga.get(p)):
                problems.append("interpolate %s=%s vs gridding %s=%s" % (p, T.show(ia.get(p), 80), p, T.show(ga.get(p), 80)))
        fa, fb = d1["fn:sigpy.fourier.fft"], d2["fn:sigpy.fourier.ifft"]
        for p in ("axes", "norm", "center", "oshape"):
            if T.enc(fa.get(p)) != T.enc(fb.get(p)):
                problems.append("fft %s=%s vs ifft %s=%s" % (p, T.show(fa.get(p), 80), p, T.show(fb.get(p), 80)))
        aa, ab = d1["fn:sigpy.fourier._apodize"], d2["fn:sigpy.fourier._apodize"]
        if [T.enc(v) for k, v in sorted(aa.items())] != [T.enc(v) for k, v in sorted(ab.items())]:
            problems.append("apodisation arguments differ: %s vs %s" % ({k: T.show(v, 60) for k, v in aa.items()}, {k: T.show(v, 60) for k, v in ab.items()}))
        # coordinates: both scaled by _scale_coord(coord, <image shape>, oversamp)
        ca, cb = ia.get("coord"), ga.get("coord")
        cas = T.show(ca, 300).replace("attr:shape(input)", "SHAPE") if isinstance(ca, T.Poly) else ""
        cbs = T.show(cb, 300).replace(T.show(shp_a, 300) if isinstance(shp_a, (T.Poly, tuple)) else "\0", "SHAPE") if isinstance(cb, T.Poly) else ""
        # resize targets: forward pads to os_shape(image shape), adjoint crops to the image shape; gridding onto os_shape
        run.check(not problems, "A8-nufft", lab + " parameters", f2.loc(), "kernel, width, beta, FFT axes/norm and apodisation arguments agree",
                  "nufft and nufft_adjoint use different parameters: %s" % "; ".join(problems), stmt="A8:nufft:params:" + cond_text(o.conds)[:40])
        # scalars: adjoint = forward * prod(os_shape[-ndim:]) (compensating the unnormalised inverse FFT), modulo the image-shape spelling
        os_f = d1["fn:sigpy.util.resize"].get("oshape")
        os_a = ga.get("shape")
        nd = T.app("getitem", T.app("attr:shape", T.sym("coord"), real=True), T.const(-1))
        prod_os = VN(M, f2, real=c06.REAL).ev(ast.parse("util.prod(os_shape[-ndim:])", mode="eval").body, State({"os_shape": os_a, "ndim": nd}))
        from ..vn import _replace_atom
        IMG = T.sym("IMG", real=True)
        ratio = T.div(s2, prod_os)
        s1n = _replace_atom(s1, shp_f.single_atom(), IMG)
        same = False
        if isinstance(shp_a, T.Poly) and shp_a.single_atom() is not None:
            ration = _replace_atom(ratio, shp_a.single_atom(), IMG)
            # realness flags of the shape atoms differ between the two spellings; compare the rendered normal forms (full depth)
            same = T.eq(ration, s1n) or T.show(ration, 100000) == T.show(s1n, 100000)
        s1_s = T.show(s1, 300)
        run.check(same, "A8-nufft", lab + " scaling", f2.loc(), "adjoint scalar = forward scalar * prod(os_shape[-ndim:])",
                  "scalings do not match: nufft scales by %s, nufft_adjoint by %s; the exact adjoint needs the forward factor times prod(os_shape[-ndim:])" % (s1_s[:160], T.show(s2, 200)),
                  stmt="A8:nufft:scale:" + cond_text(o.conds)[:40])
