"""E3 -- path-sensitive value numbering of statement lists into canonical terms (terms.py).

``VN`` walks statements keeping ``name | self.attr -> value``; ``if`` forks the state and records the
branch condition as a term; conditions are compared only syntactically (after normalisation) so a
branch whose condition (or its negation) already holds on the path is not re-forked.  No solver.
Values: terms.Poly, python tuples of values, Closure, or Obj (opaque python object with attributes).
"""
import ast
from fractions import Fraction as Fr

from . import terms as T
from .model import Unrecognised, unparse


class Closure:
    def __init__(self, node, env, func):
        self.node = node
        self.env = env
        self.func = func


class Obj:
    """opaque python object value with symbolic attribute / call / operator behaviour"""

    def vn_getattr(self, name, vn, st, node):
        return None

    def vn_call(self, vn, call, args, kw, st):
        return None

    def vn_binop(self, op, other, reflected, vn, node):
        return None

    def as_term(self):
        return T.sym("<obj %s>" % type(self).__name__, real=True)


class State:
    __slots__ = ("env", "conds", "status", "ret", "events", "_broke", "alias")

    def __init__(self, env=None, conds=None, events=None, alias=None):
        self.env = dict(env or {})
        self.conds = list(conds or [])
        self.status = "live"  # live | return | raise
        self.ret = None
        self.events = list(events or [])
        self._broke = None
        self.alias = dict(alias or {})  # key -> key it was bound from without a copy (`x = self.x`): in-place updates reach both

    def fork(self):
        s = State(self.env, self.conds, self.events, self.alias)
        return s

    # ---- aliases: names bound to the very same array object
    def root(self, k):
        seen = set()
        while k in self.alias and k not in seen:
            seen.add(k)
            k = self.alias[k]
        return k

    def same_object(self, k):
        r = self.root(k)
        return [k2 for k2 in set(self.alias) | {r} if self.root(k2) == r]

    def rebind(self, k, src=None):
        """k now names another object: names that were bound from k keep the old object (their link is cut)"""
        old = self.alias.pop(k, None)
        for k2, v in list(self.alias.items()):
            if v == k:
                if old is not None:
                    self.alias[k2] = old
                else:
                    del self.alias[k2]
        if src is not None and src != k:
            self.alias[k] = src

    def update_in_place(self, k, val):
        for k2 in self.same_object(k):
            self.env[k2] = val
        self.env[k] = val


CMP = {ast.Lt: "lt", ast.LtE: "le", ast.Eq: "eq", ast.NotEq: "ne", ast.Is: "is", ast.IsNot: "isnot",
       ast.In: "in", ast.NotIn: "notin"}
NEG = {"lt": "ge_", "le": "gt_", "eq": "ne", "ne": "eq", "is": "isnot", "isnot": "is", "in": "notin", "notin": "in"}

NONE = T.sym("None", real=True)
TRUE = T.sym("True", real=True)
FALSE = T.sym("False", real=True)


REVERSE = T.app("slice", NONE, NONE, T.const(-1))


def negate(c):
    a = c.single_atom() if isinstance(c, T.Poly) else None
    if a is not None and a[0] == "app":
        f = a[1]
        args = [T.dec(x) for x in a[2]]
        if f == "not":
            return args[0]
        if f in ("and", "or") and all(isinstance(x, T.Poly) for x in args):
            # De Morgan: negation is pushed inwards, so `not (a and b)` and `not a or not b` are one condition
            return T.app("or" if f == "and" else "and", *[negate(x) for x in args])
        if f in ("eq", "ne", "is", "isnot", "in", "notin"):
            return T.app(NEG[f], *args)
        if f == "lt":  # not (a < b) == b <= a
            return T.app("le", args[1], args[0])
        if f == "le":
            return T.app("lt", args[1], args[0])
        if f == "pos":  # not (d > 0) == -d >= 0
            return T.app("nonneg", T.neg(args[0]))
        if f == "nonneg":
            return T.app("pos", T.neg(args[0]))
        if f == "zero":
            return T.app("nonzero", args[0])
        if f == "nonzero":
            return T.app("zero", args[0])
    if c == TRUE:
        return FALSE
    if c == FALSE:
        return TRUE
    fr = c.as_fraction() if isinstance(c, T.Poly) else None
    if fr is not None:  # truthiness of a numeric constant
        return FALSE if fr != 0 else TRUE
    return T.app("not", c)


def is_tuple(v):
    return isinstance(v, tuple)


def conjuncts(c):
    """a condition as the list of conditions that all hold: and(a, b) -> [a, b] (recursively)"""
    a = c.single_atom() if isinstance(c, T.Poly) else None
    if a is not None and a[0] == "app" and a[1] == "and":
        out = []
        for x in a[2]:
            out.extend(conjuncts(T.dec(x)))
        return out
    return [c]


def rank_of(v):
    """number of axes of an array value when it is allocated with a shape of known length (possibly followed by stores)"""
    for _ in range(8):
        if not isinstance(v, T.Poly):
            return None
        a = v.single_atom()
        if a is None or a[0] != "app":
            return None
        if a[1] == "setitem" and a[2]:
            v = T.dec(a[2][0])
            continue
        if a[1] in ("call:numpy.zeros", "call:numpy.ones", "call:numpy.empty") and a[2]:
            shp = T.dec(a[2][0])
            if is_tuple(shp):
                return len(shp)
            n = seq_len(shp) if isinstance(shp, T.Poly) else None
            fr = n.as_fraction() if isinstance(n, T.Poly) else None
            return int(fr) if fr is not None else None
        return None
    return None


def expand_ellipsis(idx, base):
    """x[..., i, j] on an array of known rank is x[:, i, j] with the full slices written out"""
    if not is_tuple(idx):
        return idx
    marks = [i for i, x in enumerate(idx) if isinstance(x, T.Poly) and x in (T.sym("...", real=True), T.sym("Ellipsis", real=True), T.sym("Ellipsis"))]
    if len(marks) != 1:
        return idx
    r = rank_of(base)
    if r is None or r < len(idx) - 1:
        return idx
    full = T.app("slice", NONE, NONE, NONE)
    i = marks[0]
    return tuple(idx[:i]) + (full,) * (r - (len(idx) - 1)) + tuple(idx[i + 1:])


def absorb_disjunctions(conds):
    """a path condition is a conjunction: a conjunct or(a, b) says nothing new once a (or b) is itself a conjunct, and reduces to b once
    not(a) is one -- so `if a or b: ... if a: ...` reads like `if a: ...`"""
    conds = list(conds)
    for _ in range(4):
        changed = False
        out = []
        for c in conds:
            at = c.single_atom() if isinstance(c, T.Poly) else None
            if at is not None and at[0] == "app" and at[1] == "or":
                ds = [T.dec(x) for x in at[2]]
                others = [k for k in conds if k is not c]
                if any(d == k for d in ds for k in others):
                    changed = True
                    continue          # absorbed
                keep = [d for d in ds if not any(negate(d) == k for k in others)]
                if not keep:
                    return None
                if len(keep) < len(ds) and keep:
                    changed = True
                    nc = keep[0] if len(keep) == 1 else T.app("or", *keep)
                    for x in conjuncts(nc):
                        if not any(x == k for k in out) and not any(x == k for k in others):
                            out.append(x)
                    continue
            out.append(c)
        conds = out
        if not changed:
            break
    return conds


UFUNCS_WITH_OUT = {"multiply", "add", "subtract", "divide", "true_divide", "conj", "conjugate", "negative", "abs", "absolute", "sqrt", "exp", "square",
                   "cos", "sin", "real", "imag", "clip", "maximum", "minimum"}
REAL_NUMPY = {"ones", "zeros", "size", "arange", "linspace", "shape", "mgrid", "isinf", "isnan", "argmax", "argmin", "histogram", "floor", "ceil"}
SEQ_APPS = {"seq", "comp", "repeat", "concat", "list", "shape", "range", "zip"}
# items of tuple-returning repo functions that are themselves sequences: {fn-app name: {index, ...}} (registered by rule modules
# after they have confirmed from the source that these return elements are built with tuple(...))
SEQ_ITEMS = {}


def is_seq(v):
    """syntactically known to be a python sequence (so `+` is concatenation, not addition)"""
    if isinstance(v, tuple):
        return True
    if isinstance(v, T.Poly):
        a = v.single_atom()
        if a is not None and a[0] == "app":
            if a[1] in SEQ_APPS or a[1] == "attr:shape":
                return True
            if a[1] == "getitem" and len(a[2]) == 2 and a[2][1][0] == "P" and a[2][0][0] == "P":
                ba = T.from_key(a[2][0][1]).single_atom()
                fr = T.from_key(a[2][1][1]).as_fraction()
                if ba is not None and ba[0] == "app" and ba[1] in SEQ_ITEMS and fr is not None and int(fr) in SEQ_ITEMS[ba[1]]:
                    return True
            if a[1] == "getitem" and len(a[2]) == 2 and a[2][1][0] == "P":
                i = T.from_key(a[2][1][1]).single_atom()
                if i is not None and i[0] == "app" and i[1] == "slice":
                    return is_seq_or_unknown(T.dec(a[2][0]))
    return False


def is_seq_or_unknown(v):
    return True


def concat(a, b):
    """associative, non-commutative concatenation of sequence values"""
    parts = []
    for v in (a, b):
        at = v.single_atom() if isinstance(v, T.Poly) else None
        if at is not None and at[0] == "app" and at[1] == "concat":
            parts.extend(T.dec(x) for x in at[2])
        elif isinstance(v, tuple) and parts and isinstance(parts[-1], tuple):
            parts[-1] = parts[-1] + v
        elif isinstance(v, tuple) and len(v) == 0:
            continue
        else:
            parts.append(v)
    if len(parts) == 1 and (isinstance(parts[0], tuple) or is_seq(parts[0])):
        return parts[0]
    return T.app("concat", *parts)   # (a single part that is not known to be a sequence keeps the marker: it was used as one)


def _load_known():
    import os
    p = os.path.join(os.path.dirname(os.path.abspath(__file__)), "known_funcs.txt")
    try:
        with open(p) as fh:
            return {ln.strip() for ln in fh if ln.strip() and not ln.startswith("#")}
    except OSError:
        return None


KNOWN_FUNCS = _load_known()
INT_IDENTITIES = False   # set by rules whose terms are array sizes (integers)


class VN:
    # numpy-ish functions with algebraic meaning
    def __init__(self, model=None, func=None, real=(), scalars=(), inline=(), max_depth=3, depth=0,
                 call_hook=None, name_hook=None, loop_hook=None, opaque_attrs=True):
        self.model = model
        self.func = func
        self.real = set(real)
        self.scalars = set(scalars)
        self.inline = set(inline) | {"sigpy.util.axpy", "sigpy.util.xpay"}
        self.max_depth = max_depth
        self.depth = depth
        self.call_hook = call_hook
        self.name_hook = name_hook
        self.loop_hook = loop_hook

    # ------------------------------------------------------------------ names
    def is_xp(self, head):
        """`head` names the array module in the function being numbered (decided from bindings by the model)"""
        if head in ("xp", "np", "numpy"):
            return True
        if self.model is not None and self.func is not None:
            return head in self.model.xp_names(self.func)
        return False

    def sym(self, name):
        return T.sym(name, real=name in self.real)

    def key_of(self, e):
        """environment key for an lvalue-ish expression: 'x' | 'self.a' | 'a.b.c' or None"""
        if isinstance(e, ast.Name):
            return e.id
        if isinstance(e, ast.Attribute):
            b = self.key_of(e.value)
            return None if b is None else b + "." + e.attr
        return None

    # ------------------------------------------------------------------ expressions
    def ev(self, e, st):
        m = getattr(self, "ev_" + type(e).__name__, None)
        if m is None:
            raise Unrecognised("value numbering: unsupported expression %s" % type(e).__name__, e)
        return m(e, st)

    def ev_Constant(self, e, st):
        v = e.value
        if v is None:
            return NONE
        if v is True:
            return TRUE
        if v is False:
            return FALSE
        if isinstance(v, complex):
            return T.Poly({frozenset(): (Fr(str(v.real)), Fr(str(v.imag)))})
        if isinstance(v, (int, float)):
            return T.const(Fr(str(v)))
        if v is Ellipsis:
            return T.sym("...", real=True)
        return T.sym(repr(v), real=True)

    def ev_Name(self, e, st):
        if e.id in st.env:
            return st.env[e.id]
        if self.name_hook is not None:
            r = self.name_hook(self, e, st)
            if r is not None:
                return r
        c = self._module_constant(e.id)
        if c is not None:
            return self.ev_Constant(c, st) if isinstance(c, ast.Constant) else self.ev(c, State())
        return self.sym(e.id)

    def _module_constant(self, name):
        """a module-level name that is bound exactly once, to a literal (`_MODE = "zero"`), reads as that literal"""
        if self.func is None:
            return None
        mod = self.func.mod
        cache = mod.__dict__.setdefault("_consts", None)
        if cache is None:
            cache = {}
            counts = {}
            for n in mod.tree.body:
                if isinstance(n, ast.Assign) and len(n.targets) == 1 and isinstance(n.targets[0], ast.Name):
                    counts[n.targets[0].id] = counts.get(n.targets[0].id, 0) + 1
                    if isinstance(n.value, ast.Constant) and not isinstance(n.value.value, (bytes, type(Ellipsis))):
                        cache[n.targets[0].id] = n.value
                    elif (n.targets[0].id.startswith("_") or n.targets[0].id.isupper()) and not n.targets[0].id.startswith("__") and _pure_const_expr(n.value):
                        cache[n.targets[0].id] = n.value       # `_REVERSE = slice(None, None, -1)`, `_CDTYPE = np.complex64`, `_GAMBAR = 4257 * 2`
            for n in ast.walk(mod.tree):
                if isinstance(n, ast.Global):
                    for g in n.names:
                        counts[g] = 99
            cache = {k: v for k, v in cache.items() if counts.get(k) == 1}
            mod._consts = cache
        return cache.get(name)

    def ev_Attribute(self, e, st):
        k = self.key_of(e)
        if k is not None and k in st.env:
            return st.env[k]
        if k is not None and k.startswith("self.") and isinstance(st.env.get("self"), Obj):
            base = self.ev(e.value, st)
            if isinstance(base, Obj):
                r = base.vn_getattr(e.attr, self, st, e)
                if r is not None:
                    return r
        if k is not None and (k.startswith("self.") and k.count(".") == 1):
            if self.name_hook is not None:
                r = self.name_hook(self, e, st)
                if r is not None:
                    return r
            return self.sym(k)
        if k is not None and "." in k and self.is_xp(k.split(".")[0]) and not isinstance(st.env.get(k.split(".")[0]), (tuple, Obj, Closure)):
            k = "np." + k.split(".", 1)[1]  # one spelling for attributes of the array module (whatever the local is called or bound to)
        if k in ("np.pi", "math.pi"):
            return T.sym("pi", real=True)
        if k in ("np.inf", "math.inf"):
            return T.sym("inf", real=True)
        if k is not None and k.split(".")[0] in ("np", "backend", "sp", "util", "math"):
            return T.sym(k, real=True)
        base = self.ev(e.value, st)
        if isinstance(base, Obj):
            r = base.vn_getattr(e.attr, self, st, e)
            if r is not None:
                return r
            return T.app("attr:" + e.attr, base.as_term())
        if e.attr == "T" and isinstance(base, T.Poly):
            return T.app("transpose", base)
        if e.attr in ("real",) and isinstance(base, T.Poly):
            return T.real(base)
        if e.attr in ("imag",) and isinstance(base, T.Poly):
            return T.imag(base)
        if e.attr == "ndim" and isinstance(base, T.Poly):
            ba_ = base.single_atom()
            if ba_ is not None and ba_[0] == "app" and ba_[1] == "fn:sigpy.util.resize":
                # util.resize returns an array of shape oshape (rule X1 of C09): its rank is len(oshape)
                for x_ in ba_[2]:
                    kv = T.dec(x_)
                    ka = kv.single_atom() if isinstance(kv, T.Poly) else None
                    if ka is not None and ka[0] == "app" and ka[1] == "kw:oshape":
                        n_ = seq_len(T.dec(ka[2][0]))
                        if n_ is not None:
                            return n_
        if e.attr == "size" and isinstance(base, T.Poly):
            fa_ = base.single_atom()
            if fa_ is not None and fa_[0] == "app" and fa_[1] in ("ravel", "flatten", "reshape") and fa_[2] and fa_[2][0][0] == "P":
                return T.app("attr:size", T.dec(fa_[2][0]), real=True)          # reshaping does not change the number of elements
        if e.attr in ("shape", "ndim", "size", "dtype"):
            if e.attr == "shape" and is_tuple(base):
                return T.app("shape", base, real=True)
            if e.attr in ("shape", "dtype") and isinstance(base, T.Poly):
                # storing elements changes neither shape nor dtype; a freshly allocated array has the shape / dtype it was allocated with
                b_ = base
                for _ in range(6):
                    ba_ = b_.single_atom()
                    if ba_ is not None and ba_[0] == "app" and ba_[1] == "setitem" and ba_[2] and ba_[2][0][0] == "P":
                        b_ = T.dec(ba_[2][0])
                        continue
                    # cyclic shifts, and transforms without an explicit size `s`, keep the shape of their operand
                    if e.attr == "shape" and ba_ is not None and ba_[0] == "app" and ba_[2] and ba_[2][0][0] == "P" and (
                            ba_[1] in ("call:numpy.roll", "call:numpy.fft.fftshift", "call:numpy.fft.ifftshift") or
                            (ba_[1] in ("call:numpy.fft.fftn", "call:numpy.fft.ifftn") and len(ba_[2]) >= 1 and
                             all(x_[0] == "P" and (T.dec(x_).single_atom() or ("", ""))[1] in ("kw:axes", "kw:norm") for x_ in ba_[2][1:]))):
                        b_ = T.dec(ba_[2][0])
                        continue
                    break
                ba_ = b_.single_atom()
                if ba_ is not None and ba_[0] == "app" and ba_[1] in ("call:numpy.zeros", "call:numpy.ones", "call:numpy.empty") and ba_[2]:
                    if e.attr == "shape":
                        shp = T.dec(ba_[2][0])
                        if is_tuple(shp) or (isinstance(shp, T.Poly) and is_seq(shp)):
                            return shp
                    else:
                        for x_ in ba_[2][1:]:
                            kv = T.dec(x_)
                            ka = kv.single_atom() if isinstance(kv, T.Poly) else None
                            if ka is not None and ka[0] == "app" and ka[1] == "kw:dtype":
                                return T.dec(ka[2][0])
                if b_ is not base:
                    return T.app("attr:" + e.attr, b_, real=True)
            return T.app("attr:" + e.attr, base, real=True)
        return T.app("attr:" + e.attr, base)

    def ev_UnaryOp(self, e, st):
        v = self.ev(e.operand, st)
        if isinstance(e.op, ast.USub) and isinstance(v, Obj):
            r = v.vn_binop(ast.Mult(), T.const(-1), True, self, e)
            if r is not None:
                return r
        if isinstance(e.op, ast.USub):
            if is_tuple(v):
                raise Unrecognised("negated tuple", e)
            return T.neg(v)
        if isinstance(e.op, ast.UAdd):
            return v
        if isinstance(e.op, ast.Not):
            if is_tuple(v):
                return FALSE if len(v) > 0 else TRUE  # truthiness of a sequence of known length
            return negate(v)
        if isinstance(e.op, ast.Invert):
            return T.app("invert", v)
        raise Unrecognised("unary op", e)

    def ev_BinOp(self, e, st):
        a, b = self.ev(e.left, st), self.ev(e.right, st)
        return self.binop(e.op, a, b, e)

    @staticmethod
    def _str_const(v):
        a = v.single_atom() if isinstance(v, T.Poly) else None
        if a is not None and a[0] == "sym" and len(a[1]) >= 2 and a[1][0] == a[1][-1] == "'":
            return a[1][1:-1]
        return None

    def binop(self, op, a, b, node=None):
        if isinstance(op, ast.Add):
            sa, sb = self._str_const(a), self._str_const(b)
            if sa is not None and sb is not None:
                return T.sym(repr(sa + sb), real=True)      # concatenation of two known strings
        if isinstance(a, Obj):
            r = a.vn_binop(op, b, False, self, node)
            if r is not None:
                return r
        if isinstance(b, Obj):
            r = b.vn_binop(op, a, True, self, node)
            if r is not None:
                return r
        if isinstance(op, ast.Add) and (is_seq(a) or is_seq(b)) and not (is_tuple(a) and is_tuple(b)):
            return concat(a, b)
        if isinstance(op, ast.Mod) and isinstance(a, T.Poly) and isinstance(b, T.Poly):
            at = a.single_atom()
            if at is not None and at[0] == "app" and at[1] == "mod" and T.dec(at[2][1]) == b:
                return a  # (x % n) % n = x % n
        if is_tuple(a) or is_tuple(b):
            if isinstance(op, ast.Add) and is_tuple(a) and is_tuple(b):
                return a + b
            if isinstance(op, ast.Mult) and is_tuple(a) and isinstance(b, T.Poly):
                n = b.as_fraction()
                if n is not None and n.denominator == 1 and 0 <= n <= 16:
                    return a * int(n)
                return T.app("repeat", a, b)
            if isinstance(op, ast.Mult) and is_tuple(b) and isinstance(a, T.Poly):
                return self.binop(op, b, a, node)
            if isinstance(op, ast.Add):
                return T.app("concat", a, b)
            return T.app("binop:" + type(op).__name__, a, b)
        if not isinstance(a, T.Poly) or not isinstance(b, T.Poly):
            return T.app("binop:" + type(op).__name__, self._as_term(a), self._as_term(b))
        if isinstance(op, ast.Add):
            return T.add(a, b)
        if isinstance(op, ast.Sub):
            xa, xb = a.single_atom(), b.single_atom()
            if xa is not None and xb is not None and xa[0] == "app" and xb[0] == "app" and xa[1] == "max" and xb[1] == "min" and xa[2] == xb[2] and len(xa[2]) == 2 \
                    and all(x[0] == "P" for x in xa[2]) and xa[3]:
                return T.abs_(T.sub(T.dec(xa[2][0]), T.dec(xa[2][1])))     # max(a, b) - min(a, b) = |a - b|
            return T.sub(a, b)
        if isinstance(op, ast.Mult):
            return T.mul(a, b)
        if isinstance(op, ast.Div):
            if b.is_zero():
                return T.app("div", a, b)
            return T.div(a, b)
        if isinstance(op, ast.Pow):
            fr = b.as_fraction()
            if fr is not None and abs(fr) <= 64:
                if a.is_zero() and fr < 0:
                    return T.app("pow", a, b)
                return T.power(a, fr)
            return T.app("pow", a, b)
        if isinstance(op, ast.MatMult):
            # bilinearity: constant factors of single-term operands move out of the product
            coef = T.const(1)
            ops = []
            for v in (a, b):
                if len(v.t) == 1:
                    (m, c), = v.t.items()
                    if c != T.ONE and len(m) > 0:
                        coef = T.mul(coef, T.Poly({frozenset(): c}))
                        v = T.Poly({m: T.ONE})
                ops.append(v)
            r = T.app("matmul", ops[0], ops[1])
            return r if coef == T.const(1) else T.mul(coef, r)
        if isinstance(op, ast.FloorDiv):
            fa, fb = a.as_fraction(), b.as_fraction()
            if fa is not None and fb is not None and fb != 0:
                return T.const(fa // fb)
            if INT_IDENTITIES and fb == 2:
                # integer identity (array sizes): (n + 1) // 2 == (n + n % 2) / 2, so "round up to even" has one spelling
                x = T.sub(a, T.const(1))
                return T.mul(T.const(Fr(1, 2)), T.add(x, T.app("mod", x, T.const(2), real=True)))
            # floor((X + k*b) / b) = floor(X / b) + k for every integer k (any real X, b != 0): whole multiples of the divisor are pulled out,
            # so `(n - b + s) // s`, `(n - b) // s + 1` and `(n + s - 1) // s` vs `(n - 1) // s + 1` have one spelling each
            if fb is not None and fb > 0 and fb.denominator == 1:
                ca_ = a.const()
                if ca_[1] == 0 and ca_[0].denominator == 1:
                    kq = ca_[0] // fb
                    rem = ca_[0] - kq * fb
                    rest = T.add(T.sub(a, T.Poly({frozenset(): ca_}) if ca_ != T.ZERO else T.const(0)), T.const(rem))
                    if fb == 2 and rem == 1 and is_int_term(T.sub(rest, T.const(1))):
                        # integer n: (n + 1) // 2 = n - n // 2, so `n - (n + 1) // 2` and `n // 2` have one spelling
                        n_ = T.sub(rest, T.const(1))
                        return T.add(T.sub(n_, T.app("floordiv", n_, b, real=True)), T.const(kq))
                    if kq != 0:
                        return T.add(T.app("floordiv", rest, b, real=True), T.const(kq))
            if len(b.t) == 1 and not b.is_const():
                (bm, bc), = b.t.items()
                if bm in a.t and bc[1] == 0 and bc[0] != 0:
                    ac = a.t[bm]
                    if ac[1] == 0:
                        kq = ac[0] / bc[0]
                        if kq.denominator == 1 and kq != 0:
                            rest = T.Poly({m_: c_ for m_, c_ in a.t.items() if m_ != bm})
                            return T.add(self.binop(ast.FloorDiv(), rest, b, node), T.const(kq))
            return T.app("floordiv", a, b, real=True)
        if isinstance(op, ast.RShift):
            fb = b.as_fraction() if isinstance(b, T.Poly) else None
            if isinstance(a, T.Poly) and fb is not None and fb.denominator == 1 and 0 <= fb <= 16:
                return self.binop(ast.FloorDiv(), a, T.const(2 ** int(fb)), node)     # n >> k is n // 2**k
        if isinstance(op, ast.Mod):
            fa, fb = a.as_fraction(), b.as_fraction()
            if fa is not None and fb is not None and fb != 0:
                return T.const(fa % fb)
            return T.app("mod", a, b, real=True)
        if isinstance(op, (ast.BitAnd, ast.BitOr)):
            pr = small_array_pair(a, b)
            if pr is not None:
                return T.app("call:numpy.array", tuple(self.binop(op, x, y, node) for x, y in zip(*pr)))
            nm = "and" if isinstance(op, ast.BitAnd) else "or"
            unit, zero = (TRUE, FALSE) if nm == "and" else (FALSE, TRUE)
            if a == zero or b == zero:
                return zero
            if a == unit:
                return b
            if b == unit:
                return a
            return T.app(nm, a, b)
        raise Unrecognised("binary operator %s" % type(op).__name__, node)

    def _as_term(self, v):
        if isinstance(v, T.Poly):
            return v
        if isinstance(v, Obj):
            return v.as_term()
        if is_tuple(v):
            return v
        if isinstance(v, Closure):
            return self.closure_term(v)
        return T.sym(repr(v), real=True)

    def closure_term(self, clo):
        """a closure as a term: its body value-numbered over symbolic parameters ($name)"""
        node = clo.node
        params = [a.arg for a in node.args.args]
        if self.depth >= self.max_depth:
            return T.sym("<closure %s>" % getattr(node, "name", "lambda"), real=True)
        env = dict(clo.env)
        for p in params:
            env[p] = T.sym("$" + p)
        sub = VN(self.model, self.func, self.real, self.scalars, self.inline, self.max_depth, self.depth + 1,
                 self.call_hook, self.name_hook, self.loop_hook)
        try:
            if isinstance(node, ast.Lambda):
                return T.app("lambda", sub._as_term(sub.ev(node.body, State(env))))
            outs = sub.run(node.body, State(env))
        except Unrecognised:
            return T.sym("<closure %s>" % getattr(node, "name", "lambda"), real=True)
        parts = []
        for o in outs:
            if o.status == "raise":
                continue
            c = T.app("and", *o.conds) if o.conds else TRUE
            parts.append(T.app("path", c, sub._as_term(o.ret) if o.ret is not None else NONE))
        parts.sort(key=lambda a: repr(a.key()))
        return T.app("lambda", *parts)

    def ev_BoolOp(self, e, st):
        vals = [self._as_term(self.ev(v, st)) for v in e.values]
        is_and = isinstance(e.op, ast.And)
        keep = []
        # operands the path condition already decides count as the constants they are
        vals = [TRUE if (isinstance(v, T.Poly) and any(v == k for k in st.conds)) else
                (FALSE if (isinstance(v, T.Poly) and any(negate(v) == k for k in st.conds)) else v) for v in vals]
        for v in vals:
            if v == (TRUE if is_and else FALSE):
                continue
            if v == (FALSE if is_and else TRUE):
                return v
            keep.append(v)
        if not keep:
            return TRUE if is_and else FALSE
        if len(keep) == 1:
            return keep[0]
        return T.app("and" if is_and else "or", *keep)

    def ev_Compare(self, e, st):
        lraw = self.ev(e.left, st)
        if isinstance(lraw, Obj) and len(e.ops) == 1 and isinstance(e.ops[0], (ast.Is, ast.IsNot, ast.Eq, ast.NotEq)):
            r = self.ev(e.comparators[0], st)
            if r == NONE:
                return FALSE if isinstance(e.ops[0], (ast.Is, ast.Eq)) else TRUE
        left = self._as_term(lraw)
        out = []
        for op, c in zip(e.ops, e.comparators):
            right = self._as_term(self.ev(c, st))
            out.append(self.compare(op, left, right))
            left = right
        return out[0] if len(out) == 1 else T.app("and", *out)

    def compare(self, op, a, b):
        """comparisons of scalar terms are canonicalised on the difference, so that
        `i < n - 1`, `i + 1 < n` and `n - 1 > i` are one condition"""
        pr = small_array_pair(a, b) if isinstance(op, (ast.Lt, ast.Gt, ast.LtE, ast.GtE, ast.Eq, ast.NotEq)) else None
        if pr is not None:
            return T.app("call:numpy.array", tuple(self.compare(op, x, y) for x, y in zip(*pr)))    # elementwise on arrays of known elements
        if isinstance(a, T.Poly) and isinstance(b, T.Poly):
            fd = T.sub(b, a).as_fraction()
            if fd is not None and isinstance(op, (ast.Lt, ast.Gt, ast.LtE, ast.GtE, ast.Eq, ast.NotEq)):
                res = {ast.Lt: fd > 0, ast.Gt: fd < 0, ast.LtE: fd >= 0, ast.GtE: fd <= 0, ast.Eq: fd == 0, ast.NotEq: fd != 0}[type(op)]
                return TRUE if res else FALSE
            if isinstance(op, ast.Lt):
                return T.app("pos", T.sub(b, a))
            if isinstance(op, ast.Gt):
                return T.app("pos", T.sub(a, b))
            if isinstance(op, ast.LtE):
                return T.app("nonneg", T.sub(b, a))
            if isinstance(op, ast.GtE):
                return T.app("nonneg", T.sub(a, b))
            if isinstance(op, (ast.Eq, ast.NotEq)) and _is_strlit(a) and _is_strlit(b):
                same = a == b
                return (TRUE if same else FALSE) if isinstance(op, ast.Eq) else (FALSE if same else TRUE)
            if isinstance(op, (ast.Eq, ast.NotEq)):
                d = T.sub(a, b)
                nd = T.neg(d)
                if repr(nd.key()) < repr(d.key()):
                    d = nd
                return T.app("zero" if isinstance(op, ast.Eq) else "nonzero", d)
        if isinstance(op, (ast.Eq, ast.NotEq)) and is_tuple(a) and is_tuple(b) and all(isinstance(x, T.Poly) for x in a + b):
            # equality of two sequences of known length is the conjunction of the element equalities (and fails on different lengths)
            if len(a) != len(b):
                res = FALSE
            else:
                eqs = [self.compare(ast.Eq(), x, y) for x, y in zip(a, b)]
                if any(x == FALSE for x in eqs):
                    res = FALSE
                else:
                    eqs = [x for x in eqs if x != TRUE]
                    res = TRUE if not eqs else (eqs[0] if len(eqs) == 1 else T.app("and", *eqs))
            return res if isinstance(op, ast.Eq) else negate(res)
        if isinstance(op, (ast.In, ast.NotIn)) and isinstance(a, T.Poly) and is_tuple(b) and 0 < len(b) <= 8 and all(isinstance(x, T.Poly) for x in b):
            # membership in a literal collection is the disjunction of the equalities: `x in (1, 2, 3)` reads like `x == 1 or x == 2 or x == 3`
            eqs = [self.compare(ast.Eq(), a, x) for x in b]
            if any(x == TRUE for x in eqs):
                res = TRUE
            else:
                eqs = [x for x in eqs if x != FALSE]
                res = FALSE if not eqs else (eqs[0] if len(eqs) == 1 else T.app("or", *eqs))
            return res if isinstance(op, ast.In) else negate(res)
        if isinstance(op, ast.Gt):
            return T.app("lt", b, a)
        if isinstance(op, ast.GtE):
            return T.app("le", b, a)
        if isinstance(op, (ast.Is, ast.IsNot)) and b == NONE and a != NONE and (is_seq(a) or _is_constructed(a)):
            return FALSE if isinstance(op, ast.Is) else TRUE
        if isinstance(op, (ast.Is, ast.IsNot)) and a in (NONE, TRUE, FALSE) and b in (NONE, TRUE, FALSE):
            same = a == b
            return (TRUE if same else FALSE) if isinstance(op, ast.Is) else (FALSE if same else TRUE)
        return T.app(CMP[type(op)], a, b)

    def ev_IfExp(self, e, st):
        c = self._as_term(self.ev(e.test, st))
        if is_tuple(c):
            c = TRUE if len(c) > 0 else FALSE
        fr = c.as_fraction() if isinstance(c, T.Poly) else None
        if c == TRUE or (fr is not None and fr != 0):
            return self.ev(e.body, st)
        if c == FALSE or (fr is not None and fr == 0):
            return self.ev(e.orelse, st)
        if all(any(x == k for k in st.conds) for x in conjuncts(c)):
            return self.ev(e.body, st)
        if all(any(x == k for k in st.conds) for x in conjuncts(negate(c))):
            return self.ev(e.orelse, st)
        bt, et = self._as_term(self.ev(e.body, st)), self._as_term(self.ev(e.orelse, st))
        fa = c.single_atom() if isinstance(c, T.Poly) else None
        if fa is not None and fa[0] == "app" and fa[1] in ("pos", "nonneg") and len(fa[2]) == 1 and isinstance(bt, T.Poly) and isinstance(et, T.Poly):
            # `b if b > e else e` is max(b, e); `b if b < e else e` is min(b, e) (either strictness: the branches agree where b == e)
            d = T.dec(fa[2][0])
            if T.sub(bt, et) == d:
                return T.app("max", bt, et)
            if T.sub(et, bt) == d:
                return T.app("min", bt, et)
            # floor division by a positive constant is monotone: `x // k - y // k if x > y else 0` is max(x // k - y // k, 0)
            df = T.sub(bt, et)
            if len(df.t) == 2:
                fl = {}
                for m_, c_ in df.t.items():
                    if len(m_) == 1 and c_[1] == 0 and abs(c_[0]) == 1:
                        (a_, e_), = m_
                        if e_ == 1 and a_[0] == "app" and a_[1] == "floordiv":
                            k_ = T.dec(a_[2][1])
                            kf = k_.as_fraction() if isinstance(k_, T.Poly) else None
                            if kf is not None and kf > 0:
                                fl[c_[0]] = (T.dec(a_[2][0]), kf)
                if len(fl) == 2 and fl[1][1] == fl[-1][1] and T.sub(fl[1][0], fl[-1][0]) == d:
                    return T.app("max", bt, et)
        return T.app("ifexp", c, bt, et)

    def ev_Tuple(self, e, st):
        out = []
        for x in e.elts:
            if isinstance(x, ast.Starred):
                v = self.ev(x.value, st)
                if is_tuple(v):
                    out.extend(v)
                else:
                    out.append(T.app("star", self._as_term(v)))
            else:
                out.append(self.ev(x, st))
        return tuple(out)

    ev_List = ev_Tuple

    def ev_Dict(self, e, st):
        return T.app("dict", *[self._as_term(self.ev(v, st)) for v in e.values])

    def ev_Set(self, e, st):
        return T.app("set", *[self._as_term(self.ev(v, st)) for v in e.elts])

    def ev_JoinedStr(self, e, st):
        return T.sym("<fstring>", real=True)

    def ev_Slice(self, e, st):
        parts = [NONE if p is None else self._as_term(self.ev(p, st)) for p in (e.lower, e.upper, e.step)]
        return T.app("slice", *parts)

    def ev_Starred(self, e, st):
        return T.app("star", self._as_term(self.ev(e.value, st)))

    def ev_Lambda(self, e, st):
        return Closure(e, st.env, self.func)

    def ev_Subscript(self, e, st):
        base = self.ev(e.value, st)
        sl = e.slice
        if is_tuple(base):
            if isinstance(sl, ast.Slice):
                lo = self._int(sl.lower, st, 0)
                hi = self._int(sl.upper, st, len(base))
                step = self._int(sl.step, st, 1)
                if lo is not None and hi is not None and step is not None:
                    return base[slice(lo if sl.lower is not None else None, hi if sl.upper is not None else None,
                                      step if sl.step is not None else None)]
            else:
                i = self._int(sl, st, None)
                if i is not None and -len(base) <= i < len(base):
                    return base[i]
        idx = self._as_term(self.ev(sl, st))
        if isinstance(base, T.Poly) and isinstance(idx, T.Poly) and idx.as_fraction() == 0:
            ba0 = base.single_atom()
            if ba0 is not None and ba0[0] == "app" and ba0[1] == "attr:shape" and len(ba0[2]) == 1:
                return T.app("len", T.dec(ba0[2][0]), real=True)   # x.shape[0] is len(x)
        if isinstance(base, T.Poly) and idx == REVERSE:
            ba = base.single_atom()
            if ba is not None and ba[0] == "app" and ba[1] == "getitem" and T.dec(ba[2][1]) == REVERSE:
                return T.dec(ba[2][0])  # x[::-1][::-1] = x
            # (k * linspace(a, b, num=n))[::-1] = k * linspace(b, a, num=n) for scalar k: the mirrored ramp
            if len(base.t) == 1:
                (m_, c_), = base.t.items()
                lin = [(a_, e_) for a_, e_ in m_ if a_[0] == "app" and a_[1] == "call:numpy.linspace" and e_ == 1 and len(a_[2]) >= 2]
                rest = [(a_, e_) for a_, e_ in m_ if not (a_[0] == "app" and a_[1] == "call:numpy.linspace")]
                if len(lin) == 1 and all(self.is_scalar_atom(a_) for a_, _ in rest):
                    la = lin[0][0]
                    largs = [T.dec(x_) for x_ in la[2]]
                    if all(isinstance(x_, T.Poly) for x_ in largs) and not any(T.show(x_, 30).startswith("kw:endpoint") for x_ in largs):
                        mirrored = T.app("call:numpy.linspace", largs[1], largs[0], *largs[2:], real=True)
                        out_ = T.Poly({frozenset(): c_})
                        for a_, e_ in rest:
                            out_ = T.mul(out_, T.Poly({frozenset({(a_, e_)}): T.ONE}))
                        return T.mul(out_, mirrored)
        if isinstance(base, T.Poly) and isinstance(idx, T.Poly):
            fi = idx.as_fraction()
            if fi is not None and fi < 0 and fi.denominator == 1:
                n_ = st.env.get("#len:" + repr(base.key()))
                if n_ is not None and n_.as_fraction() + fi >= 0:
                    return T.app("getitem", base, T.const(n_.as_fraction() + fi))   # x[-1] of a sequence unpacked into n names is x[n - 1]
        return T.app("getitem", self._as_term(base), idx)

    def _int(self, node, st, default):
        if node is None:
            return default
        v = self.ev(node, st)
        if isinstance(v, T.Poly):
            fr = v.as_fraction()
            if fr is not None and fr.denominator == 1:
                return int(fr)
        return None

    def _comp(self, e, st, kind):
        """comprehension -> app(kind, elt, iter...) with bound names renamed @k (alpha-insensitive)"""
        env2 = State(st.env, st.conds)
        iters = []
        k = 0
        if len(e.generators) == 1:
            # a comprehension over a sequence of statically known length is the tuple of its element values (as the loop it abbreviates
            # would be unrolled); filters must be decidable for every element
            it0 = self.ev(e.generators[0].iter, env2)
            if is_tuple(it0) and len(it0) <= 16:
                vals = []
                decided = True
                for elem in it0:
                    env3 = State(st.env, st.conds, alias=st.alias)
                    self.assign(e.generators[0].target, elem, env3, e)
                    keep = True
                    for c in e.generators[0].ifs:
                        cv = self._as_term(self.ev(c, env3))
                        if cv == FALSE:
                            keep = False
                        elif cv != TRUE:
                            decided = False
                    if not decided:
                        break
                    if keep:
                        vals.append(self.ev(e.elt, env3))
                if decided:
                    return tuple(vals)
        for g in e.generators:
            if isinstance(g.iter, ast.Call) and isinstance(g.iter.func, ast.Name) and g.iter.func.id == "enumerate" and len(g.iter.args) == 1 and not g.iter.keywords \
                    and isinstance(g.target, (ast.Tuple, ast.List)) and len(g.target.elts) == 2 and all(isinstance(t_, ast.Name) for t_ in g.target.elts):
                xs = self.ev(g.iter.args[0], env2)
                if isinstance(xs, T.Poly):
                    # `for i, x in enumerate(xs)` is `for i in range(len(xs))` with x = xs[i]
                    idx = T.sym("@%d" % k, real=True)
                    env2.env[g.target.elts[0].id] = idx
                    env2.env[g.target.elts[1].id] = T.app("getitem", xs, idx)
                    k += 1
                    n_ = seq_len(xs)
                    iters.append(T.app("range", n_ if n_ is not None else T.app("len", xs, real=True), real=True))
                    for c in g.ifs:
                        iters.append(T.app("if", self._as_term(self.ev(c, env2))))
                    continue
            it = self.ev(g.iter, env2)
            # zip(a, b) -> parallel iteration
            targets = []
            self._flat_targets(g.target, targets)
            for t in targets:
                env2.env[t] = T.sym("@%d" % k, real=True)
                k += 1
            iters.append(self._as_term(it))
            for c in g.ifs:
                iters.append(T.app("if", self._as_term(self.ev(c, env2))))
        elt = self._as_term(self.ev(e.elt, env2))
        if k == 1 and len(iters) == 1 and elt == T.sym("@0", real=True):
            return iters[0]  # [x for x in it] has the elements of it
        # normal form of a filter-free comprehension over parallel sequences: inner comprehensions are fused into the body (also through
        # zip), a sequence iterated twice is iterated once, and the sequences are listed in a canonical order
        if len(iters) == 1 and isinstance(elt, T.Poly):
            r = self._normalise_comp(kind, elt, iters[0], k)
            if r is not None:
                return r
        return T.app(kind, elt, *iters)

    def _normalise_comp(self, kind, elt, it, k):
        def parts_of(x):
            xa = x.single_atom() if isinstance(x, T.Poly) else None
            if xa is not None and xa[0] == "app" and xa[1] == "zip":
                return [T.dec(y) for y in xa[2]]
            return None
        parts = parts_of(it)
        if parts is None:
            parts = [it]
        if len(parts) != k or not all(isinstance(p_, T.Poly) for p_ in parts):
            return None
        try:
            for _ in range(8):
                hit = None
                for i, pt in enumerate(parts):
                    pa = pt.single_atom()
                    if pa is not None and pa[0] == "app" and pa[1] == "comp" and len(pa[2]) == 2:
                        inner_elt, inner_it = T.dec(pa[2][0]), T.dec(pa[2][1])
                        ia = inner_it.single_atom() if isinstance(inner_it, T.Poly) else None
                        if not isinstance(inner_elt, T.Poly) or (ia is not None and ia[0] == "app" and ia[1] == "if"):
                            continue
                        zs = parts_of(inner_it) or [inner_it]
                        if not all(isinstance(z_, T.Poly) for z_ in zs):
                            continue
                        hit = (i, inner_elt, zs)
                        break
                if hit is None:
                    break
                i, inner_elt, zs = hit
                n = len(zs)
                # shift the outer variables above i, then substitute @i by the inner body over @i..@i+n-1 (two-step renaming via fresh names)
                ren = {"@%d" % j: T.sym("@tmp%d" % (j + n - 1 if j > i else j), real=True) for j in range(len(parts)) if j != i}
                inner = T.subst(inner_elt, {"@%d" % j: T.sym("@tmp%d" % (i + j), real=True) for j in range(n)})
                ren["@%d" % i] = inner
                elt = T.subst(elt, ren)
                parts = parts[:i] + zs + parts[i + 1:]
                elt = T.subst(elt, {"@tmp%d" % j: T.sym("@%d" % j, real=True) for j in range(len(parts))})
            # a sequence listed twice
            j = 0
            while j < len(parts):
                dup = [m for m in range(j + 1, len(parts)) if parts[m] == parts[j]]
                if dup:
                    m = dup[0]
                    ren = {"@%d" % m: T.sym("@%d" % j, real=True)}
                    ren.update({"@%d" % q: T.sym("@%d" % (q - 1), real=True) for q in range(m + 1, len(parts))})
                    elt = T.subst(elt, ren)
                    parts = parts[:m] + parts[m + 1:]
                    continue
                j += 1
            # canonical order
            order = sorted(range(len(parts)), key=lambda q: repr(parts[q].key()))
            if order != list(range(len(parts))):
                elt = T.subst(elt, {"@%d" % q: T.sym("@tmp%d" % order.index(q), real=True) for q in range(len(parts))})
                elt = T.subst(elt, {"@tmp%d" % q: T.sym("@%d" % q, real=True) for q in range(len(parts))})
                parts = [parts[q] for q in order]
            elt = self._renorm_mod(elt)
        except TypeError:
            return None
        if len(parts) == 1:
            if elt == T.sym("@0", real=True):
                return parts[0]
            return T.app(kind, elt, parts[0])
        return T.app(kind, elt, T.app("zip", *parts))

    def _renorm_mod(self, t):
        """apply (x % n) % n = x % n inside a term (after substitution)"""
        changed = True
        while changed:
            changed = False
            for a in T.apps(t, "mod"):
                x, n = T.dec(a[2][0]), T.dec(a[2][1])
                xa = x.single_atom() if isinstance(x, T.Poly) else None
                if xa is not None and xa[0] == "app" and xa[1] == "mod" and T.dec(xa[2][1]) == n:
                    t = _replace_atom(t, a, x)
                    changed = True
                    break
        return t

    def _flat_targets(self, t, out):
        if isinstance(t, ast.Name):
            out.append(t.id)
        elif isinstance(t, (ast.Tuple, ast.List)):
            for x in t.elts:
                self._flat_targets(x, out)
        else:
            raise Unrecognised("comprehension target", t)

    def ev_ListComp(self, e, st):
        return self._comp(e, st, "comp")

    def ev_GeneratorExp(self, e, st):
        return self._comp(e, st, "comp")

    def ev_SetComp(self, e, st):
        return self._comp(e, st, "comp")

    # ------------------------------------------------------------------ calls
    def ev_Call(self, e, st):
        if self.call_hook is not None:
            r = self.call_hook(self, e, st)
            if r is not None:
                return r
        f = e.func
        if isinstance(f, ast.Name) and f.id == "map" and len(e.args) >= 2 and not e.keywords and isinstance(e.args[0], ast.Lambda) \
                and len(e.args[0].args.args) == len(e.args) - 1 and not e.args[0].args.vararg and not e.args[0].args.defaults:
            # map(lambda a, b: E, xs, ys) is [E for a, b in zip(xs, ys)]
            lam = e.args[0]
            names = [a_.arg for a_ in lam.args.args]
            tgt = ast.Tuple(elts=[ast.Name(id=n_, ctx=ast.Store()) for n_ in names], ctx=ast.Store()) if len(names) > 1 else ast.Name(id=names[0], ctx=ast.Store())
            it = ast.Call(func=ast.Name(id="zip", ctx=ast.Load()), args=list(e.args[1:]), keywords=[]) if len(names) > 1 else e.args[1]
            comp = ast.ListComp(elt=lam.body, generators=[ast.comprehension(target=tgt, iter=it, ifs=[], is_async=0)])
            ast.copy_location(comp, e)
            ast.fix_missing_locations(comp)
            return self.ev(comp, st)
        if isinstance(f, ast.Name) and f.id in ("getattr", "setattr") and not e.keywords and len(e.args) == (2 if f.id == "getattr" else 3):
            # getattr(obj, "name") / setattr(obj, "name", v) with a name that is a known string is obj.name / obj.name = v
            nm = self._str_const(self.ev(e.args[1], st))
            if nm is not None and nm.isidentifier():
                tgt_ = ast.copy_location(ast.Attribute(value=e.args[0], attr=nm, ctx=ast.Load()), e)
                if f.id == "getattr":
                    return self.ev(tgt_, st)
                tgt_.ctx = ast.Store()
                val_ = self.ev(e.args[2], st)
                srck_ = self.key_of(e.args[2]) if isinstance(e.args[2], (ast.Name, ast.Attribute)) else None
                tk_ = self.key_of(tgt_)
                if tk_ is not None and srck_ is not None and st.root(srck_) == st.root(tk_):
                    return NONE      # storing back the very object that was read from there (after updating it in place): nothing changes
                self.assign(tgt_, val_, st, e)
                if tk_ is not None:
                    st.rebind(tk_, srck_ if isinstance(val_, T.Poly) else None)
                return NONE
        if isinstance(f, ast.Call) and isinstance(f.func, ast.Name) and f.func.id == "getattr" and len(f.args) == 2 and not f.keywords:
            # getattr(mod, "name")(...) with a name that is a known string constant is mod.name(...)
            nv = self.ev(f.args[1], st)
            na = nv.single_atom() if isinstance(nv, T.Poly) else None
            if na is not None and na[0] == "sym" and len(na[1]) > 2 and na[1][0] == na[1][-1] == "'" and na[1][1:-1].isidentifier():
                e2 = ast.copy_location(ast.Call(func=ast.copy_location(ast.Attribute(value=f.args[0], attr=na[1][1:-1], ctx=ast.Load()), f),
                                                args=e.args, keywords=e.keywords), e)
                return self.ev_Call(e2, st)
        # closure / lambda held in the environment
        k = self.key_of(f)
        if k is not None and isinstance(st.env.get(k), Closure):
            return self.call_closure(st.env[k], e, st)
        recv = None  # receiver value of a method call on a computed expression (evaluated once)
        if isinstance(f, (ast.Name, ast.Attribute, ast.Subscript, ast.Call)):
            fv = None
            if k is not None and isinstance(st.env.get(k), Obj):
                fv = st.env[k]
            elif isinstance(f, ast.Attribute):
                kb = self.key_of(f.value)
                if (kb is not None and isinstance(st.env.get(kb), Obj)) or isinstance(f.value, (ast.Call, ast.Attribute, ast.Subscript)):
                    try:
                        bv = self.ev(f.value, st)
                    except Unrecognised:
                        bv = None
                    if k is None:
                        recv = bv
                    if isinstance(bv, Obj):
                        fv = bv.vn_getattr(f.attr, self, st, f)
                        if fv is None:
                            a_ = [self.ev(a, st) for a in e.args]
                            kw_ = {kk.arg: self.ev(kk.value, st) for kk in e.keywords if kk.arg}
                            r = bv.vn_call_method(f.attr, self, e, a_, kw_, st) if hasattr(bv, "vn_call_method") else None
                            if r is not None:
                                return r
            if isinstance(fv, Obj):
                a_ = [self.ev(a, st) for a in e.args]
                kw_ = {kk.arg: self.ev(kk.value, st) for kk in e.keywords if kk.arg}
                r = fv.vn_call(self, e, a_, kw_, st)
                if r is not None:
                    return r
        args = [self.ev(a, st) for a in e.args if not isinstance(a, ast.Starred)]
        if any(isinstance(a, ast.Starred) for a in e.args):
            args = [self._as_term(self.ev(a, st)) for a in e.args]
        kw = {kk.arg: self.ev(kk.value, st) for kk in e.keywords if kk.arg is not None}
        self._argcache = {}
        if not any(isinstance(a, ast.Starred) for a in e.args):
            for a, v in zip(e.args, args):
                self._argcache[id(a)] = v
        for kk in e.keywords:
            if kk.arg is not None:
                self._argcache[id(kk.value)] = kw[kk.arg]
        argcache = self._argcache
        # method-style calls on values
        if isinstance(f, ast.Attribute):
            r = self.method_call(f, e, args, kw, st)
            if r is not None:
                return r
        # resolved callee
        tgt = None
        if self.model is not None and self.func is not None:
            tgt = self.model.resolve_call(self.func, e)
        if tgt is not None and tgt[0] == "repo":
            fn = tgt[1]
            if fn.qual == "sigpy.backend.copyto":
                b_ = self.model.bind(e, fn)   # positional or keyword spelling
                if not isinstance(b_.get("output"), ast.AST) or not isinstance(b_.get("input"), ast.AST):
                    raise Unrecognised("copyto call", e)
                return self.do_copyto(e, [None, self.ev(b_["input"], st)], st, b_["output"])
            if fn.qual in ("sigpy.backend.to_device",):
                return args[0]
            if fn.qual in self.inline and self.depth < self.max_depth:
                return self.inline_call(fn, e, st)
            if KNOWN_FUNCS is not None and fn.qual not in KNOWN_FUNCS and self.depth < self.max_depth and not fn.name.startswith("__"):
                # a helper the rules have never seen (extracted by a later edit): read through it when it is a single-path, loop-free
                # function; otherwise it stays an opaque application and the comparison decides
                snap_env, snap_ev = dict(st.env), list(st.events)
                try:
                    return self.inline_call(fn, e, st)
                except Unrecognised:
                    st.env.clear()
                    st.env.update(snap_env)
                    st.events[:] = snap_ev
            bound = self.bind_values(fn, e, st, argcache)
            if fn.qual == "sigpy.util.resize" and isinstance(bound.get("input"), T.Poly) and bound.get("ishift") == NONE and bound.get("oshift") == NONE \
                    and self._as_term(bound.get("oshape")) == T.app("attr:shape", bound["input"], real=True):
                return bound["input"]     # resize(x, x.shape) is x (the equal-shape early return of resize, which C05/F5 and C09/X1 certify)
            return T.app("fn:" + fn.qual, *[T.app("kw:" + p, self._as_term(bound[p])) for p in sorted(bound)])
        if tgt is not None and tgt[0] == "class":
            bound = self.bind_values(tgt[1], e, st, argcache)
            st.events.append(("new", tgt[1].qual, bound, e))
            return T.app("new:" + tgt[1].qual, *[T.app("kw:" + p, self._as_term(bound[p])) for p in sorted(bound)])
        name = None
        if tgt is not None and tgt[0] == "ext":
            name = tgt[1]
        short = (name or k or unparse(f)).split(".")[-1]
        if "out" in kw and (name or "").startswith("numpy.") and short in UFUNCS_WITH_OUT:
            # np.multiply(a, b, out=c) is c[...] = a * b (and returns c): evaluate the operation without `out`, then store
            out_node = [kk.value for kk in e.keywords if kk.arg == "out"][0]
            ko = self.key_of(out_node)
            kw2 = {a_: b_ for a_, b_ in kw.items() if a_ != "out"}
            r = self.numpy_call(short, name, e, args, kw2, st)
            if r is not None and ko is not None and kw["out"] != NONE:
                st.update_in_place(ko, r)
                return r
            if kw["out"] == NONE:
                kw = kw2
        r = self.numpy_call(short, name or k or "", e, args, kw, st)
        if r is not None:
            return r
        label = name or k or unparse(f)
        if (name or "").startswith("numpy.") and short in ("zeros", "ones", "empty") and not any(isinstance(a, ast.Starred) for a in e.args):
            # one spelling for np.zeros(shape, dtype) / np.zeros(shape, dtype=..) / np.zeros(shape=.., dtype=..)
            args, kw = list(args), dict(kw)
            if not args and "shape" in kw:
                args = [kw.pop("shape")]
            if len(args) == 2 and "dtype" not in kw:
                kw["dtype"] = args.pop()
        allargs = [self._as_term(a) for a in args] + [T.app("kw:" + kk, self._as_term(v)) for kk, v in sorted(kw.items())]
        if name is None and k is None and isinstance(f, ast.Attribute):
            # method of a computed value: keep the receiver as a term, not as source text
            if recv is not None:
                return T.app("method:" + f.attr, self._as_term(recv), *allargs)
        if k is not None and isinstance(st.env.get(k), T.Poly) and name is None:
            # callee is a value held in a variable (bound comprehension variable, user callable passed in); when that value is itself
            # a plain dotted name (`AH = self.A.H; AH(x)`, `f = np.fft.fftn; f(x)`) the call reads like the direct spelling
            lab = _dotted_of(st.env[k])
            if lab is not None and self.model is not None and self.func is not None and not lab.startswith("np.") and all(x.isidentifier() for x in lab.split(".")):
                # `kernel = _soft_thresh if soft else _hard_thresh; kernel(x)`: the variable holds a function of the repository -- the call is a call of that function
                try:
                    e2 = ast.copy_location(ast.Call(func=ast.copy_location(ast.parse(lab, mode="eval").body, f), args=e.args, keywords=e.keywords), e)
                    ast.fix_missing_locations(e2)
                    tgt2 = self.model.resolve_call(self.func, e2)
                except Exception:
                    tgt2 = None
                if tgt2 is not None and tgt2[0] in ("repo", "class") and self.key_of(e2.func) != k:
                    return self.ev_Call(e2, st)
            if lab is not None:
                if lab.startswith("np."):
                    short2 = lab.split(".")[-1]
                    r2 = self.numpy_call(short2, "numpy." + lab[3:], e, args, kw, st)
                    if r2 is not None:
                        return r2
                    if short2 in REAL_NUMPY:
                        return T.app("call:numpy." + lab[3:], *allargs, real=True)
                    return T.app("call:numpy." + lab[3:], *allargs)
                return T.app("call:" + lab, *allargs)
            return T.app("callv", st.env[k], *allargs)
        if (name or "").startswith("numpy.") and short in REAL_NUMPY:
            return T.app("call:" + label, *allargs, real=True)
        return T.app("call:" + label, *allargs)

    def bind_values(self, target, call, st, cache=None):
        b = self.model.bind(call, target)
        out = {}
        cache = cache or {}
        for p, node in b.items():
            if not isinstance(node, (list, dict)) and id(node) in cache:
                out[p] = cache[id(node)]
            elif isinstance(node, list):
                out[p] = tuple(self.ev(x, st) for x in node)
            elif isinstance(node, dict):
                out[p] = T.app("dict", *[T.app("kw:" + k, self._as_term(self.ev(v, st))) for k, v in sorted(node.items())])
            else:
                # defaults are evaluated in an empty environment (they are constants in this code base)
                out[p] = self.ev(node, st)
        return out

    def call_closure(self, clo, call, st):
        if self.depth >= self.max_depth:
            return T.app("call:<closure>", *[self._as_term(self.ev(a, st)) for a in call.args])
        node = clo.node
        params = [a.arg for a in node.args.args]
        env = dict(clo.env)
        # late binding: closures see the *current* enclosing environment
        env.update({k: v for k, v in st.env.items() if k not in params})
        for p, a in zip(params, call.args):
            env[p] = self.ev(a, st)
        for kk in call.keywords:
            env[kk.arg] = self.ev(kk.value, st)
        sub = VN(self.model, self.func, self.real, self.scalars, self.inline, self.max_depth, self.depth + 1,
                 self.call_hook, self.name_hook, self.loop_hook)
        if isinstance(node, ast.Lambda):
            return sub.ev(node.body, State(env, st.conds))
        outs = sub.run(node.body, State(env, st.conds))
        rets = [o for o in outs if o.status == "return"]
        live = [o for o in outs if o.status == "live"]
        # propagate side effects on enclosing names when there is a single path
        if len(outs) == 1:
            for k2, v2 in outs[0].env.items():
                if k2 not in params and (k2 in st.env or "." in k2):
                    st.env[k2] = v2
        if len(rets) == 1 and not live:
            return rets[0].ret
        if not rets:
            return NONE
        return T.app("paths", *[T.app("path", T.app("and", *o.conds[len(st.conds):]) if o.conds[len(st.conds):] else TRUE,
                                      self._as_term(o.ret)) for o in rets])

    def inline_call(self, fn, call, st):
        """value-number the callee body; in-place updates of parameters are written back to the
        caller's lvalues (this is how util.axpy(y, a, x) becomes y := y + a*x from its own source)"""
        b = self.model.bind(call, fn)
        env = {}
        back = {}
        for p, node in b.items():
            if isinstance(node, list) and p.startswith("*") and not p.startswith("**"):
                env[p[1:]] = tuple(self.ev(x_, st) for x_ in node)     # f(a, b) bound to `*args`: the tuple of the arguments
                continue
            if isinstance(node, (list, dict)):
                raise Unrecognised("inline of varargs call", call)
            env[p] = self.ev(node, st)
            k = self.key_of(node)
            if k is not None:
                back[p] = k
        # a method called on self shares the object's attributes with the caller
        is_self_call = isinstance(call.func, ast.Attribute) and isinstance(call.func.value, ast.Name) and call.func.value.id == "self" and fn.cls is not None
        if is_self_call:
            for k0, v0 in st.env.items():
                if k0 == "self" or k0.startswith("self."):
                    env.setdefault(k0, v0)
        sub = type(self)(self.model, fn, self.real, self.scalars, self.inline, self.max_depth, self.depth + 1,
                         self.call_hook, self.name_hook if is_self_call else None, self.loop_hook)
        env.update({k0: v0 for k0, v0 in st.env.items() if k0.startswith("#len:")})      # facts about values hold in the helper too
        outs = [o_ for o_ in sub.run(fn.body, State(env, list(st.conds))) if o_.status != "raise"]
        if len(outs) > 1 and len(outs) <= 8 and all(o_.status == "return" and o_.ret is not None for o_ in outs):
            # a pure helper with several return paths: its value is the conditional expression over its own path conditions (the
            # caller's final states are split on it again, so `h(x)` reads like the if/else it replaces)
            n0 = len(st.conds)
            for o_ in outs:
                for p_ in env:
                    if p_ in o_.env and o_.env[p_] is not env[p_] and o_.env[p_] != env[p_] and p_ in back and not p_.startswith("self"):
                        rebound_ = any(isinstance(x_, ast.Name) and x_.id == p_ and isinstance(x_.ctx, ast.Store) for x_ in ast.walk(fn.node))
                        if not rebound_:
                            raise Unrecognised("inlined helper %s updates its argument on some path" % fn.qual, call)

            def cond_of(o_):
                extra = o_.conds[n0:]
                return extra[0] if len(extra) == 1 else (T.app("and", *extra) if extra else TRUE)

            def merge(vals):
                if all(is_tuple(v) for v, _ in vals) and len({len(v) for v, _ in vals}) == 1:
                    return tuple(merge([(v[i], c) for v, c in vals]) for i in range(len(vals[0][0])))
                acc = self._as_term(vals[-1][0])
                for v, c in reversed(vals[:-1]):
                    acc = T.app("ifexp", c, self._as_term(v), acc)
                return acc
            return merge([(o_.ret, cond_of(o_)) for o_ in outs])
        if len(outs) != 1:
            raise Unrecognised("inlined helper %s has %d paths" % (fn.qual, len(outs)), call)
        o = outs[0]
        if len(o.conds) != len(st.conds):
            raise Unrecognised("inlined helper %s branches" % fn.qual, call)
        # parameters the callee *rebinds* (`axis = axis % ndim`) never change the caller's object; only in-place updates are written back
        rebound = set()
        for n_ in ast.walk(fn.node):
            tg_ = n_.targets if isinstance(n_, ast.Assign) else ([n_.target] if isinstance(n_, (ast.AnnAssign, ast.For)) else [])
            for t_ in tg_:
                for x_ in ast.walk(t_):
                    if isinstance(x_, ast.Name) and isinstance(x_.ctx, ast.Store):
                        rebound.add(x_.id)
        for p, k in back.items():
            if p in rebound:
                continue
            if o.env.get(p) is not env[p] and o.env.get(p) != env[p]:
                st.update_in_place(k, o.env[p])
        if is_self_call:
            for k0, v0 in o.env.items():
                if k0.startswith("self.") and (k0 not in st.env or st.env[k0] is not v0):
                    st.env[k0] = v0
        st.events.extend(o.events)
        return o.ret if o.status == "return" and o.ret is not None else NONE

    def do_copyto(self, call, args, st, out_node=None):
        k = self.key_of(out_node if out_node is not None else call.args[0])
        if k is None:
            raise Unrecognised("copyto into a non-name", call)
        st.update_in_place(k, args[1])
        return NONE

    def method_call(self, f, e, args, kw, st):
        attr = f.attr
        kbase = self.key_of(f.value)
        if kbase in ("np", "xp", "numpy", "math", "backend", "util", "sp", "signal", "pywt", "thresh", "fourier",
                     "interp", "conv", "block", "wavelet", "linop", "prox", "nb", "time", "warnings"):
            return None
        if kbase is not None and (kbase.split(".")[0] in ("np", "xp", "numpy", "sp") or self.is_xp(kbase.split(".")[0])):
            return None
        if attr in ("copy", "item", "squeeze", "tolist", "get") and not e.args and not kw:
            return self.ev(f.value, st)
        if attr in ("conj", "conjugate") and not e.args:
            v = self.ev(f.value, st)
            return T.conj(v) if isinstance(v, T.Poly) else None
        if attr == "astype":
            v = self.ev(f.value, st)
            dt = args[0] if args else kw.get("dtype")
            extra = [T.app("kw:" + kk, self._as_term(vv)) for kk, vv in sorted(kw.items()) if kk not in ("dtype", "copy")]
            return T.app("astype", self._as_term(v), self._as_term(dt), *extra) if dt is not None else v
        if attr in ("reshape", "ravel", "flatten", "transpose", "swapaxes", "view"):
            v = self.ev(f.value, st)
            if attr == "reshape" and isinstance(v, T.Poly) and len(args) == 1 and isinstance(args[0], T.Poly):
                va = v.single_atom()
                if va is not None and va[0] == "app" and va[1] in ("ravel", "flatten") and len(va[2]) == 1:
                    inner = T.dec(va[2][0])
                    if isinstance(inner, T.Poly) and args[0] == T.app("attr:shape", inner, real=True):
                        return inner  # x.ravel().reshape(x.shape) = x
            # keywords change the meaning (ravel(order="K") walks memory order, reshape(order="F") ...): they are part of the term;
            # the default order="C" is dropped so that spelling it out is not a difference
            kws = [T.app("kw:" + kk, self._as_term(vv)) for kk, vv in sorted(kw.items())
                   if not (kk == "order" and vv == T.sym("'C'", real=True))]
            return T.app(attr, self._as_term(v), *[self._as_term(a) for a in args], *kws)
        if attr == "sum" and isinstance(f.value, (ast.Name, ast.Attribute, ast.Subscript, ast.Call, ast.BinOp)):
            v = self.ev(f.value, st)
            if isinstance(v, T.Poly):   # x.sum(...) is np.sum(x, ...)
                extra = [T.app("kw:" + kk, self._as_term(vv)) for kk, vv in sorted(kw.items())] + [self._as_term(x) for x in args]
                return self.lin_sum(v, extra)
        if attr in ("max", "min", "sum", "mean", "any", "all") and isinstance(f.value, (ast.Name, ast.Attribute, ast.Subscript, ast.Call, ast.BinOp)):
            v = self.ev(f.value, st)
            return T.app(attr, self._as_term(v), *[self._as_term(a) for a in args],
                         *[T.app("kw:" + kk, self._as_term(vv)) for kk, vv in sorted(kw.items())])
        if attr == "append" and kbase is not None and is_tuple(st.env.get(kbase)):
            st.env[kbase] = st.env[kbase] + (args[0],)
            return NONE
        if attr == "append" and kbase is not None and isinstance(st.env.get(kbase), T.Poly) and is_seq(st.env[kbase]) and len(args) == 1:
            st.env[kbase] = concat(st.env[kbase], (args[0],))
            return NONE
        if attr == "extend" and kbase is not None and is_tuple(st.env.get(kbase)) and is_tuple(args[0]):
            st.env[kbase] = st.env[kbase] + args[0]
            return NONE
        if attr == "extend" and kbase is not None and len(args) == 1 and (is_tuple(st.env.get(kbase)) or (isinstance(st.env.get(kbase), T.Poly) and is_seq(st.env[kbase]))):
            st.env[kbase] = concat(st.env[kbase], args[0])   # x.extend(y) is x += y for a list
            return NONE
        if attr == "format":
            return T.sym("<str>", real=True)
        return None

    def lin_sum(self, p, extra=()):
        """sum is linear and homogeneous in scalar factors"""
        out = T.const(0)
        for m, c in p.t.items():
            sc, vec = [], []
            for a, ex in m:
                (sc if self.is_scalar_atom(a) else vec).append((a, ex))
            if not vec:
                inner = T.const(1)
            else:
                inner = T.Poly({frozenset(vec): T.ONE})
            s = T.app("sum", inner, *extra)
            out = T.add(out, T.mul(T.Poly({frozenset(sc): c}), s))
        return out

    def is_scalar_atom(self, a):
        if a[0] == "sym":
            return a[1] in self.scalars
        if a[0] == "app":
            if a[1] in ("sum", "norm", "vdot", "prod", "len", "size", "amin", "amax", "max_of", "min_of"):
                return True
            if a[1] in ("int", "ceil", "floor", "float") and len(a[2]) == 1 and a[2][0][0] == "P":
                inner = T.from_key(a[2][0][1])     # rounding of a scalar expression is a scalar
                return all(self.is_scalar_atom(x) for m in inner.t for x, _ in m)
            return False
        if a[0] == "cmp":
            return all(self.is_scalar_atom(x) for m, _ in a[1] for x, _ in m)
        return False

    def numpy_call(self, short, full, e, args, kw, st):
        P = T.Poly
        a0 = args[0] if args else None
        isP = isinstance(a0, P)
        if short == "sqrt" and isP:
            return T.power(a0, Fr(1, 2))
        if short == "square" and isP and len(args) == 1:
            return T.power(a0, 2)
        if short == "clip" and len(args) == 3 and isP and args[2] == NONE and not kw:
            return T.app("max", a0, self._as_term(args[1]))   # clip(a, lo, None) is maximum(a, lo)
        if short == "clip" and len(args) == 3 and isP and args[1] == NONE and not kw:
            return T.app("min", a0, self._as_term(args[2]))
        if short in ("abs", "absolute", "fabs") and isP:
            return T.abs_(a0)
        if short == "real" and isP:
            return T.real(a0)
        if short == "imag" and isP:
            return T.imag(a0)
        if short in ("conj", "conjugate") and isP:
            return T.conj(a0)
        if short in ("cos", "sin", "tan", "sinh", "cosh", "arccos", "arcsin", "log") and isP:
            return T.app(short, a0, real=T.is_real(a0))
        if short == "angle" and isP:
            return T.app("angle", a0, real=True)
        if short == "exp" and isP:
            if a0.is_zero():
                return T.const(1)
            return T.merge_exp(T.app("exp", a0, real=False) if not T.is_real(a0) else T.app("exp", a0, real=True))
        if short in ("ceil", "floor") and isP:
            return T.app(short, a0, real=True)
        if short == "int" and isP:
            return T.app("int", a0, real=True)
        if short == "float" and isP:
            return a0
        if short in ("fftshift", "ifftshift") and full.startswith("numpy.fft") and len(args) == 1 and isP and set(kw) == {"axes"} and kw["axes"] != NONE \
                and (is_tuple(kw["axes"]) or (isinstance(kw["axes"], P) and (is_seq(kw["axes"]) or T.show(kw["axes"], 40).startswith("fn:sigpy.util._normalize_axes(")))):
            # fftshift(x, axes) rolls every listed axis forwards by half its length (ifftshift: backwards by the same amount)
            src_ = "[__x.shape[__a] // 2 for __a in __ax]" if short == "fftshift" else "[-(__x.shape[__a] // 2) for __a in __ax]"
            sh_ = self.ev(ast.parse(src_, mode="eval").body, State({"__x": a0, "__ax": kw["axes"]}))
            args = [a0, sh_]
            kw = {"axis": kw["axes"]}
            short, full = "roll", "numpy.roll"
        if short == "roll" and full.startswith("numpy") and len(args) >= 2 and isP:
            ax = args[2] if len(args) >= 3 else kw.get("axis")
            sh = args[1]
            if is_tuple(sh) and is_tuple(ax) and len(sh) == len(ax) and set(kw) <= {"axis"}:
                out = a0      # rolling along several axes at once is rolling along them one after the other
                for s_, a_ in zip(sh, ax):
                    out = T.app("call:numpy.roll", self._as_term(out), self._as_term(s_), T.app("kw:axis", self._as_term(a_)))
                return out
            if ax is not None and not is_tuple(sh) and not is_tuple(ax):
                return T.app("call:numpy.roll", a0, self._as_term(sh), T.app("kw:axis", self._as_term(ax)))      # positional axis = keyword axis
        if short == "arange" and full.startswith("numpy") and len(args) == 2 and all(isinstance(x, P) for x in args) and not (set(kw) - {"dtype"}):
            # arange(a, b) is arange(b - a) + a  (unit step): one spelling for `arange(n) + 1` and `arange(1, n + 1)`
            n_ = T.sub(args[1], args[0])
            base = T.app("call:numpy.arange", n_, *[T.app("kw:" + kk, self._as_term(vv)) for kk, vv in sorted(kw.items())], real=True)
            return T.add(base, args[0])
        if short in ("multiply",) and len(args) == 2 and all(isinstance(x, P) for x in args):
            return T.mul(args[0], args[1])
        if short in ("add", "subtract", "divide", "true_divide") and len(args) == 2 and all(isinstance(x, P) for x in args) and not kw \
                and full.startswith("numpy"):
            return self.binop({"add": ast.Add(), "subtract": ast.Sub(), "divide": ast.Div(), "true_divide": ast.Div()}[short], args[0], args[1], e)
        if short == "matmul" and len(args) == 2 and all(isinstance(x, P) for x in args) and not kw:
            return self.binop(ast.MatMult(), args[0], args[1], e)   # np.matmul(a, b) is a @ b
        if short == "negative" and isP:
            return T.neg(a0)
        if short in ("vdot",) and len(args) == 2:
            return T.app("vdot", *args, real=False)
        if short == "norm" and args:
            pos = [self._as_term(x) for x in args]
            kw2 = dict(kw)
            if len(pos) == 1 and "ord" in kw2:
                pos.append(self._as_term(kw2.pop("ord")))   # norm(x, ord=1) is norm(x, 1)
            return T.app("norm", *pos, *[T.app("kw:" + kk, self._as_term(vv)) for kk, vv in sorted(kw2.items())], real=True)
        if short == "sum" and isP and not full.startswith("numpy.linalg"):
            extra = [T.app("kw:" + kk, self._as_term(vv)) for kk, vv in sorted(kw.items())] + [self._as_term(x) for x in args[1:]]
            return self.lin_sum(a0, extra)
        if short in ("expand_dims", "squeeze", "ascontiguousarray", "asarray", "array") and isP and short != "array":
            return a0
        if short == "column_stack" and is_tuple(a0):
            return a0
        if short in ("max", "min") and args and not kw and not full.startswith("numpy"):
            # max / min of known numbers is that number (sizes and ranks of concrete shapes)
            cand = list(args[0]) if (len(args) == 1 and is_tuple(args[0])) else list(args)
            frs = [x.as_fraction() if isinstance(x, P) else None for x in cand]
            if cand and all(fr is not None for fr in frs):
                return T.const(max(frs) if short == "max" else min(frs))
        if short in ("max", "min", "maximum", "minimum") and args:
            name = "max" if short.startswith("max") else "min"
            if len(args) == 1 and not kw:
                return T.app(name + "_of", self._as_term(a0))
            return T.app(name, *[self._as_term(x) for x in args], *[T.app("kw:" + kk, self._as_term(vv)) for kk, vv in sorted(kw.items())])
        if short == "sum" and is_tuple(a0) and all(isinstance(x, T.Poly) for x in a0) and not full.startswith("numpy"):
            out = T.const(0)
            for x in a0:
                out = T.add(out, x)
            return out
        if short == "len" and args:
            if is_tuple(a0):
                return T.const(len(a0))
            if isP:
                fa_ = a0.single_atom()
                if fa_ is not None and fa_[0] == "app" and fa_[1] in ("ravel", "flatten") and len(fa_[2]) == 1:
                    return T.app("attr:size", T.dec(fa_[2][0]), real=True)      # the length of a flattened array is the number of its elements
            sl_ = seq_len(a0)
            if sl_ is not None:
                return sl_
            if isP:
                ra_ = a0.single_atom()
                if ra_ is not None and ra_[0] == "app" and ra_[1] == "fn:sigpy.util.resize":
                    # len(resize(x, oshape)) is oshape[0] (the result has shape oshape: rule X1 of C09)
                    for x_ in ra_[2]:
                        kv = T.dec(x_)
                        ka = kv.single_atom() if isinstance(kv, T.Poly) else None
                        if ka is not None and ka[0] == "app" and ka[1] == "kw:oshape":
                            f0 = seq_first(T.dec(ka[2][0]))
                            if f0 is not None:
                                return f0
            if isP:
                aa = a0.single_atom()
                if aa is not None and aa[0] == "app" and aa[1] == "attr:shape" and len(aa[2]) == 1:
                    return T.app("attr:ndim", T.dec(aa[2][0]), real=True)          # len(x.shape) is x.ndim
                if aa is not None and aa[0] == "app" and aa[1] == "getitem" and len(aa[2]) == 2:
                    base, idx = T.dec(aa[2][0]), T.dec(aa[2][1])
                    ba = base.single_atom() if isinstance(base, T.Poly) else None
                    ia = idx.single_atom() if isinstance(idx, T.Poly) else None
                    if ba is not None and ba[0] == "app" and ba[1] == "attr:shape" and ia is not None and ia[0] == "app" and ia[1] == "slice":
                        lo, hi, stp = (T.dec(x) for x in ia[2])
                        flo = lo.as_fraction() if isinstance(lo, T.Poly) else None
                        if hi == NONE and stp == NONE and flo is not None and flo >= 0 and flo.denominator == 1:
                            return T.sub(T.app("attr:ndim", T.dec(ba[2][0]), real=True), T.const(flo))   # len(x.shape[k:]) is x.ndim - k
            return T.app("len", self._as_term(a0), real=True)
        if short in ("list", "tuple") and args:
            # container type is irrelevant to every question asked of these terms
            return a0
        if short == "zip":
            if args and all(is_tuple(x) for x in args):
                return tuple(tuple(col) for col in zip(*args))
            return T.app("zip", *[self._as_term(x) for x in args])
        if short == "enumerate" and is_tuple(a0):
            return tuple((T.const(i), x) for i, x in enumerate(a0))
        if short == "reversed" and is_tuple(a0):
            return tuple(reversed(a0))
        if short == "accumulate" and (full.startswith("itertools") or full in ("accumulate", "")) and is_tuple(a0) and len(args) == 1 and not kw and all(isinstance(x, T.Poly) for x in a0):
            acc, run_ = [], None
            for x in a0:          # running totals of a sequence of known length
                run_ = x if run_ is None else T.add(run_, x)
                acc.append(run_)
            return tuple(acc)
        if short == "sorted" and is_tuple(a0) and len(args) == 1 and not kw and all(isinstance(x, T.Poly) and x.as_fraction() is not None for x in a0):
            return tuple(sorted(a0, key=lambda x: x.as_fraction()))   # a tuple of known numbers
        if short == "reversed" and isP and not kw and len(args) == 1:
            return T.app("getitem", a0, REVERSE)  # same elements as seq[::-1]
        if short == "all" and isP and len(args) == 1 and not kw and not full.startswith("numpy"):
            # all(c for ..) is not any(not c for ..): one quantifier only, so `not all(x >= y ..)` and `any(x < y ..)` are one condition
            ca = a0.single_atom()
            if ca is not None and ca[0] == "app" and ca[1] == "comp" and len(ca[2]) == 2 and isinstance(T.dec(ca[2][0]), P):
                body = negate(T.dec(ca[2][0]))
                return T.app("not", T.app("call:any", T.app("comp", body, T.dec(ca[2][1]))))
        if short in ("any", "all") and len(args) == 1 and not kw and isP and small_array(a0) is not None:
            a0 = small_array(a0)            # np.any / np.all / any / all over an array of known elements
            full = short
        if short in ("any", "all") and is_tuple(a0) and len(args) == 1 and not kw and all(isinstance(x, T.Poly) for x in a0) \
                and not full.startswith("numpy"):
            is_and = short == "all"
            keep = []
            for v in a0:
                if v == (TRUE if is_and else FALSE):
                    continue
                if v == (FALSE if is_and else TRUE):
                    return v
                keep.append(v)
            if not keep:
                return TRUE if is_and else FALSE
            return keep[0] if len(keep) == 1 else T.app("and" if is_and else "or", *keep)
        if short == "range":
            ints = [x.as_fraction() if isinstance(x, T.Poly) else None for x in args]
            if args and all(i is not None and i.denominator == 1 for i in ints) and len(range(*[int(i) for i in ints])) <= 16:
                return tuple(T.const(i) for i in range(*[int(i) for i in ints]))
            if len(args) == 3 and ints[2] == -1 and all(isinstance(x, T.Poly) for x in args):
                # range(a, b, -1) lists -j for j in range(-a, -b): one spelling for descending ranges
                return T.app("comp", T.neg(T.sym("@0", real=True)), T.app("range", T.neg(args[0]), T.neg(args[1]), real=True))
            return T.app("range", *[self._as_term(x) for x in args], real=True)
        if short == "issubdtype" and len(args) == 2 and isinstance(a0, T.Poly):
            # the dtype of x.astype(np.complex64 / np.complex128) is a complex floating type
            aa = a0.single_atom()
            if aa is not None and aa[0] == "app" and aa[1] == "attr:dtype" and T.show(args[1], 60) in ("np.complexfloating", "numpy.complexfloating"):
                inner = T.dec(aa[2][0])
                ia = inner.single_atom() if isinstance(inner, T.Poly) else None
                if ia is not None and ia[0] == "app" and ia[1] == "astype" and len(ia[2]) >= 2 and \
                        T.show(T.dec(ia[2][1]), 40) in ("np.complex64", "np.complex128", "np.complex_", "complex"):
                    return TRUE
        if short == "isscalar" and args:
            return T.app("isscalar", self._as_term(a0), real=True)
        if short == "isinstance":
            return T.app("isinstance", *[self._as_term(x) for x in args], real=True)
        if short == "slice":
            parts = [self._as_term(x) for x in args]
            if len(parts) == 1:
                parts = [NONE, parts[0], NONE]
            while len(parts) < 3:
                parts.append(NONE)
            return T.app("slice", *parts)
        return None

    # ------------------------------------------------------------------ statements
    def run(self, stmts, st=None):
        st = st or State()
        stmts = list(stmts)
        # the source normalisations of the model (annotations dropped, `<dev>.xp.f(..)` read as `xp.f(..)`) apply to rule reference texts as well
        from .model import _InlineXp, _StripAnnotations
        for s_ in stmts:
            if not getattr(s_, "_sigverif_norm", False) and isinstance(s_, ast.AST):
                _InlineXp().visit(s_)
                try:
                    s_._sigverif_norm = True
                except AttributeError:
                    pass
        outs = self.block(stmts, [st])
        if self.depth == 0:
            outs = self.split_ifexp(outs)
            kept = []
            for o in outs:
                o.conds = absorb_disjunctions(o.conds)
                if o.conds is not None:
                    kept.append(o)      # (None: a disjunction all of whose members are refuted on this path -- the path cannot be taken)
            outs = kept
        return outs

    def split_ifexp(self, states, cap=256):
        """`x = a if c else b` means the same as `if c: x = a  else: x = b`: every final state that still carries a conditional
        expression is split into the two paths it stands for (the condition joins the path condition), so that both spellings give
        the same set of (path condition, post-state) pairs"""
        out = []
        work = list(states)
        guard = 0
        while work:
            st = work.pop(0)
            guard += 1
            if guard > 4 * cap or len(out) + len(work) > cap:
                out.append(st)
                continue
            atom = None
            for v in [st.ret] + list(st.env.values()):
                if isinstance(v, (T.Poly, tuple)):
                    found = T.apps(v, "ifexp")
                    if found:
                        atom = found[0]
                        break
            if atom is None:
                out.append(st)
                continue
            c, a, b = (T.dec(x) for x in atom[2])
            nc = negate(c) if isinstance(c, T.Poly) else None
            branches = []
            if isinstance(c, T.Poly) and any(c == k for k in st.conds):
                branches = [(None, a)]
            elif nc is not None and any(nc == k for k in st.conds):
                branches = [(None, b)]
            elif isinstance(c, T.Poly):
                branches = [(c, a), (nc, b)]
            else:
                out.append(st)
                continue
            for cond, val in branches:
                s2 = State(st.env, st.conds, st.events, st.alias)
                s2.status, s2._broke = st.status, st._broke
                if cond is not None:
                    s2.conds.append(cond)
                repl = val if isinstance(val, (T.Poly, tuple)) else None
                if repl is None:
                    out.append(st)
                    break
                try:
                    s2.ret = _replace_atom(st.ret, atom, repl) if isinstance(st.ret, (T.Poly, tuple)) else st.ret
                    s2.env = {k: (_replace_atom(v, atom, repl) if isinstance(v, (T.Poly, tuple)) else v) for k, v in st.env.items()}
                    s2.events = [tuple((_replace_atom(x, atom, repl) if isinstance(x, T.Poly) else x) for x in ev_) for ev_ in st.events]
                except TypeError:
                    out.append(st)
                    break
                work.append(s2)
        return out

    def block(self, stmts, states):
        for s in stmts:
            nxt = []
            for st in states:
                if st.status != "live":
                    nxt.append(st)
                else:
                    nxt.extend(self.stmt(s, st))
            states = nxt
            if len(states) > 512:
                raise Unrecognised("path explosion in value numbering (>512 paths)", s)
        return states

    def assign(self, tgt, val, st, node):
        if isinstance(tgt, (ast.Tuple, ast.List)):
            if is_tuple(val) and len(val) == len(tgt.elts):
                for t, v in zip(tgt.elts, val):
                    self.assign(t, v, st, node)
            else:
                vt = self._as_term(val)
                if isinstance(vt, T.Poly) and not any(isinstance(t, ast.Starred) for t in tgt.elts):
                    st.env["#len:" + repr(vt.key())] = T.const(len(tgt.elts))     # the unpacking succeeded: the sequence has exactly this length
                for i, t in enumerate(tgt.elts):
                    self.assign(t, T.app("getitem", vt, T.const(i)), st, node)
            return
        if isinstance(tgt, ast.Subscript):
            k = self.key_of(tgt.value)
            if k is None:
                raise Unrecognised("store into computed base", node)
            old = st.env.get(k, self.sym(k))
            if is_tuple(old) and not isinstance(tgt.slice, ast.Slice):
                i = self._int(tgt.slice, st, None)
                if i is not None and -len(old) <= i < len(old):
                    lst = list(old)
                    lst[i] = val
                    st.env[k] = tuple(lst)
                    return
            idx = self._as_term(expand_ellipsis(self.ev(tgt.slice, st), old))
            oa_ = old.single_atom() if isinstance(old, T.Poly) else None
            ia_ = idx.single_atom() if isinstance(idx, T.Poly) else None
            if oa_ is not None and oa_[0] == "app" and oa_[1] == "repeat" and len(oa_[2]) == 2 and ia_ is not None and ia_[0] == "app" and ia_[1] == "mod" \
                    and ia_[2][1] == oa_[2][1] and oa_[2][0][0] == "T" and len(oa_[2][0][1]) == 1:
                # ([e] * n)[k % n] = v is [e] * (k % n) + [v] + [e] * (n - k % n - 1): the index is in range by construction
                unit, n_ = T.dec(oa_[2][0]), T.dec(oa_[2][1])
                new_ = concat(concat(self.binop(ast.Mult(), unit, idx, node), (val,)),
                              self.binop(ast.Mult(), unit, T.sub(T.sub(n_, idx), T.const(1)), node))
                st.update_in_place(k, new_)
                return
            st.update_in_place(k, T.app("setitem", self._as_term(old), idx, self._as_term(val)))
            st.events.append(("setitem", k, idx, val, node))
            return
        k = self.key_of(tgt)
        if k is None:
            raise Unrecognised("assignment target %s" % unparse(tgt), node)
        st.env[k] = val

    def _unknown_helper(self, call):
        """the callee, if `call` is a call of a function/method the rules have never seen (introduced by a later edit)"""
        if self.model is None or self.func is None or KNOWN_FUNCS is None or self.depth >= self.max_depth or not isinstance(call, ast.Call):
            return None
        if self.call_hook is not None:
            pass
        tgt = self.model.resolve_call(self.func, call)
        if tgt[0] == "repo" and tgt[1].qual not in KNOWN_FUNCS and not tgt[1].name.startswith("__"):
            return tgt[1]
        return None

    def inline_states(self, fn, call, st, keep_raise=False):
        """statement-level inlining of an unknown helper that has several paths and/or updates self.*: the caller's state is forked
        once per (non-raising) path of the helper; returns [(state, returned value)].  With keep_raise the helper's raising paths are
        returned too (state.status == "raise"): they are raising paths of the caller."""
        b = self.model.bind(call, fn)
        env = {}
        back = {}
        for p, node in b.items():
            if isinstance(node, list) and p.startswith("*") and not p.startswith("**"):
                env[p[1:]] = tuple(self.ev(x_, st) for x_ in node)     # f(a, b) bound to `*args`: the tuple of the arguments
                continue
            if isinstance(node, (list, dict)):
                raise Unrecognised("inline of varargs call", call)
            env[p] = self.ev(node, st)
            k = self.key_of(node)
            if k is not None:
                back[p] = k
        is_self_call = isinstance(call.func, ast.Attribute) and isinstance(call.func.value, ast.Name) and call.func.value.id == "self" and fn.cls is not None
        if is_self_call:
            for k0, v0 in st.env.items():
                if k0 == "self" or k0.startswith("self."):
                    env.setdefault(k0, v0)
        sub = type(self)(self.model, fn, self.real, self.scalars, self.inline, self.max_depth, self.depth + 1,
                         self.call_hook, self.name_hook if is_self_call else None, self.loop_hook)
        env.update({k0: v0 for k0, v0 in st.env.items() if k0.startswith("#len:")})
        all_outs = sub.run(fn.body, State(env, list(st.conds), alias=st.alias if is_self_call else None))
        outs = [o_ for o_ in all_outs if o_.status != "raise"]
        raising = [o_ for o_ in all_outs if o_.status == "raise"] if keep_raise else []
        if (not outs and not raising) or len(outs) > 16 or len(raising) > 64:
            raise Unrecognised("inlined helper %s has %d paths" % (fn.qual, len(outs)), call)
        rebound = set()
        for n_ in ast.walk(fn.node):
            tg_ = n_.targets if isinstance(n_, ast.Assign) else ([n_.target] if isinstance(n_, (ast.AnnAssign, ast.For)) else [])
            for t_ in tg_:
                for x_ in ast.walk(t_):
                    if isinstance(x_, ast.Name) and isinstance(x_.ctx, ast.Store):
                        rebound.add(x_.id)
        res = []
        for o in outs:
            s2 = State(st.env, o.conds, st.events, st.alias)
            s2.events.extend(o.events)
            for p, k in back.items():
                if p in rebound:
                    continue
                if o.env.get(p) is not env[p] and o.env.get(p) != env[p]:
                    s2.update_in_place(k, o.env[p])
            if is_self_call:
                for k0, v0 in o.env.items():
                    if k0.startswith("self.") and (k0 not in st.env or st.env[k0] is not v0):
                        s2.env[k0] = v0
            res.append((s2, o.ret if o.status == "return" and o.ret is not None else NONE))
        for o in raising:
            s2 = State(st.env, o.conds, st.events, st.alias)
            s2.status = "raise"
            s2.ret = o.ret
            res.append((s2, None))
        return res

    def _undecided_ifexp(self, s, st):
        """the condition term of the first conditional expression in statement `s` (outside lambdas / comprehensions) that the path
        condition does not decide yet; None if there is none"""
        if not isinstance(s, (ast.Assign, ast.AugAssign, ast.AnnAssign, ast.Expr, ast.Return)):
            return None
        stack = [s]
        while stack:
            n = stack.pop()
            if isinstance(n, (ast.Lambda, ast.ListComp, ast.GeneratorExp, ast.SetComp, ast.DictComp, ast.FunctionDef)):
                continue
            if isinstance(n, ast.IfExp):
                try:
                    c = self._as_term(self.ev(n.test, st.fork()))
                except Unrecognised:
                    return None
                if is_tuple(c) or not isinstance(c, T.Poly) or c in (TRUE, FALSE) or c.as_fraction() is not None:
                    pass
                elif all(any(x == k for k in st.conds) for x in conjuncts(c)) or all(any(x == k for k in st.conds) for x in conjuncts(negate(c))):
                    pass
                elif T.apps(c, "ifexp"):
                    pass
                else:
                    return c
            stack.extend(ast.iter_child_nodes(n))
        return None

    def stmt(self, s, st):
        # `x = a if c else b` is `if c: x = a  else: x = b`: the statement is evaluated on both paths (so that effects inside an arm,
        # e.g. a call that is recorded as an event, belong to that path only)
        c_ = self._undecided_ifexp(s, st)
        if c_ is not None and len(st.conds) < 40:
            s1, s2 = st.fork(), st.fork()
            for x in conjuncts(c_):
                if not any(x == k for k in s1.conds):
                    s1.conds.append(x)
            for x in conjuncts(negate(c_)):
                if not any(x == k for k in s2.conds):
                    s2.conds.append(x)
            return self.stmt(s, s1) + self.stmt(s, s2)
        # a call of an unknown helper as a whole statement (or as the whole right-hand side) is read through path by path
        callnode = s.value if isinstance(s, (ast.Expr, ast.Assign, ast.Return)) and isinstance(getattr(s, "value", None), ast.Call) else None
        if callnode is not None:
            fn = self._unknown_helper(callnode)
            if fn is not None:
                try:
                    pairs = self.inline_states(fn, callnode, st.fork(), keep_raise=True)
                except Unrecognised:
                    pairs = None
                if pairs is not None and (len(pairs) > 1 or isinstance(s, ast.Return)
                                          or any(k.startswith("self.") for p_ in pairs for k in p_[0].env if p_[0].env.get(k) is not st.env.get(k))):
                    outs = []
                    for s2, rv in pairs:
                        if s2.status == "raise":
                            outs.append(s2)     # the helper raises on this path: so does the caller
                            continue
                        if isinstance(s, ast.Return):
                            # `return helper(...)`: the function returns on each of the helper's paths what the helper returns there
                            s2.ret = rv
                            s2.status = "return"
                        if isinstance(s, ast.Assign):
                            for t in s.targets:
                                self.assign(t, rv, s2, s)
                                tk = self.key_of(t) if isinstance(t, (ast.Name, ast.Attribute)) else None
                                if tk is not None:
                                    s2.rebind(tk)
                        outs.append(s2)
                    return outs
        if isinstance(s, ast.Assign):
            v = self.ev(s.value, st)
            srck = self.key_of(s.value) if isinstance(s.value, (ast.Name, ast.Attribute)) else None
            if srck is not None and not (srck in st.env or srck.startswith("self.")) and isinstance(v, T.Poly) and v.single_atom() is None:
                srck = None
            for t in s.targets:
                self.assign(t, v, st, s)
                tk = self.key_of(t) if isinstance(t, (ast.Name, ast.Attribute)) else None
                if tk is not None:
                    st.rebind(tk, srck if isinstance(v, T.Poly) else None)
                elif isinstance(t, (ast.Tuple, ast.List)):
                    for x in ast.walk(t):
                        kx = self.key_of(x) if isinstance(x, (ast.Name, ast.Attribute)) else None
                        if kx is not None:
                            st.rebind(kx)
            return [st]
        if isinstance(s, ast.AnnAssign):
            if s.value is not None:
                self.assign(s.target, self.ev(s.value, st), st, s)
            return [st]
        if isinstance(s, ast.AugAssign):
            v = self.ev(s.value, st)
            if isinstance(s.target, ast.Subscript):
                cur = self.ev(s.target, st)
                self.assign(s.target, self.binop(s.op, cur, v, s), st, s)
                return [st]
            k = self.key_of(s.target)
            if k is None:
                raise Unrecognised("augmented assignment target", s)
            cur = st.env.get(k)
            if cur is None:
                cur = self.ev(s.target, st)
            st.update_in_place(k, self.binop(s.op, cur, v, s))  # reaches every name bound to the same array without a copy
            return [st]
        if isinstance(s, ast.Expr):
            if isinstance(s.value, ast.Constant):
                return [st]
            self.ev(s.value, st)
            return [st]
        if isinstance(s, ast.Return):
            st.ret = None if s.value is None else self.ev(s.value, st)
            st.status = "return"
            return [st]
        if isinstance(s, ast.Raise):
            st.status = "raise"
            st.ret = s
            return [st]
        if isinstance(s, (ast.Pass, ast.Import, ast.ImportFrom, ast.Global, ast.Nonlocal)):
            return [st]
        if isinstance(s, ast.Break):
            st.status = "break"
            return [st]
        if isinstance(s, ast.Continue):
            st.status = "continue"
            return [st]
        if isinstance(s, ast.Assert):
            return [st]
        if isinstance(s, ast.With):
            for it in s.items:
                v = self.ev(it.context_expr, st)
                if it.optional_vars is not None:
                    self.assign(it.optional_vars, v, st, s)
            return self.block(s.body, [st])
        if isinstance(s, ast.If) and self.model is not None and self.func is not None:
            # `if not self._step(x): return` -- a helper with several paths / effects on self called inside the test: the statement is read as
            # `t = self._step(x); if not t: ...` on each path of the helper
            hc = None
            for n_ in ast.walk(s.test):
                if isinstance(n_, ast.Call) and not isinstance(n_.func, ast.Lambda):
                    fn_ = self._unknown_helper(n_)
                    if fn_ is not None:
                        hc = (n_, fn_)
                        break
            if hc is not None:
                call_, fn_ = hc
                try:
                    pairs = self.inline_states(fn_, call_, st.fork(), keep_raise=True)
                except Unrecognised:
                    pairs = None
                if pairs is not None and (len(pairs) > 1 or any(k_.startswith("self.") for p_ in pairs for k_ in p_[0].env if p_[0].env.get(k_) is not st.env.get(k_))):
                    tmp = "__helper_result_%d__" % (getattr(call_, "lineno", 0) * 1000 + getattr(call_, "col_offset", 0))

                    class _R(ast.NodeTransformer):
                        def visit_Call(self, node):
                            if node is call_:
                                return ast.copy_location(ast.Name(id=tmp, ctx=ast.Load()), node)
                            return self.generic_visit(node)
                    import copy as _copy
                    new_if = ast.copy_location(ast.If(test=_R().visit(_copy.deepcopy(s.test)) if False else None, body=s.body, orelse=s.orelse), s)
                    # (deepcopy loses node identity: replace by position instead)
                    t2 = _copy.deepcopy(s.test)
                    for a_, b_ in zip(ast.walk(s.test), ast.walk(t2)):
                        if a_ is call_:
                            target_copy = b_
                    class _R2(ast.NodeTransformer):
                        def visit_Call(self, node):
                            if node is target_copy:
                                return ast.copy_location(ast.Name(id=tmp, ctx=ast.Load()), node)
                            return self.generic_visit(node)
                    new_if.test = _R2().visit(t2)
                    ast.fix_missing_locations(new_if)
                    outs_ = []
                    for s2, rv in pairs:
                        if s2.status == "raise":
                            outs_.append(s2)
                            continue
                        s2.env[tmp] = rv
                        res_ = self.stmt(new_if, s2)
                        for r_ in res_:
                            r_.env.pop(tmp, None)
                        outs_.extend(res_)
                    return outs_
        if isinstance(s, ast.If):
            c = self._as_term(self.ev(s.test, st))
            if isinstance(c, T.Poly) and T.apps(c, "ifexp") and not getattr(st, "_splitting", False):
                # the test reads a value that is a conditional expression: decide it on each of the paths that expression stands for
                parts = self.split_ifexp([st])
                if len(parts) > 1:
                    outs_ = []
                    for p_ in parts:
                        outs_.extend(self.stmt(s, p_))
                    return outs_
            if is_tuple(c):
                c = TRUE if len(c) > 0 else FALSE  # truthiness of a sequence of known length
            nc = negate(c)
            if all(any(x == k for k in st.conds) for x in conjuncts(c)):
                return self.block(s.body, [st])
            if all(any(x == k for k in st.conds) for x in conjuncts(nc)):
                return self.block(s.orelse, [st])
            if any(negate(x) == k for x in conjuncts(c) for k in st.conds):
                return self.block(s.orelse, [st])  # one conjunct is already known to be false
            if any(negate(x) == k for x in conjuncts(nc) for k in st.conds):
                return self.block(s.body, [st])
            if c == TRUE:
                return self.block(s.body, [st])
            if c == FALSE:
                return self.block(s.orelse, [st])
            fr = c.as_fraction() if isinstance(c, T.Poly) else None
            if fr is not None:  # truthiness of a numeric constant
                return self.block(s.body if fr != 0 else s.orelse, [st])
            s1, s2 = st.fork(), st.fork()
            for x in conjuncts(c):
                if not any(x == k for k in s1.conds):
                    s1.conds.append(x)
            for x in conjuncts(nc):
                if not any(x == k for k in s2.conds):
                    s2.conds.append(x)
            return self.block(s.body, [s1]) + self.block(s.orelse, [s2])
        if isinstance(s, (ast.FunctionDef,)):
            st.env[s.name] = Closure(s, st.env, self.func)
            return [st]
        if isinstance(s, (ast.For, ast.While)):
            # loops every rule can read: a list built by append is the comprehension it spells out (tried first, it is exact); then the
            # rule's own hook; then a loop over a sequence of statically known length (unrolled)
            r = append_loop(self, s, st)
            if r is not None:
                return r
            if self.loop_hook is not None:
                r = self.loop_hook(self, s, st)
                if r is not None:
                    return r
            if self.loop_hook is not unroll_loop:
                r = unroll_loop(self, s, st)
                if r is not None:
                    return r
            raise Unrecognised("loop inside value-numbered region", s)
        if isinstance(s, ast.Try):
            # the repo uses try only as `try: body except Exception as e: raise ... from e`
            return self.block(s.body, [st])
        if isinstance(s, ast.Delete):
            return [st]
        raise Unrecognised("value numbering: unsupported statement %s" % type(s).__name__, s)


def iter_once_loop(vn, s, st):
    """loop hook: execute the body of a `for` loop once with the loop variable bound to a fresh symbol (one symbolic
    iteration): the post-state expresses the effect of a generic iteration on the pre-state"""
    if not isinstance(s, ast.For):
        return None
    if isinstance(s.target, ast.Name) is False and not isinstance(s.target, (ast.Tuple, ast.List)):
        return None
    vn._iter_count = getattr(vn, "_iter_count", 0) + 1
    sym = T.sym("ITER%d" % vn._iter_count)
    it = vn.ev(s.iter, st)
    st.events.append(("loop", vn._as_term(it), s))
    vn.assign(s.target, T.app("elem", vn._as_term(it), sym), st, s)
    outs = vn.block(list(s.body), [st])
    for o in outs:
        if o.status in ("break", "continue"):
            o.status = "live"
    return outs


def iter_once_while(vn, s, st):
    """`while` loops: one symbolic iteration of the body; `break` / `continue` resume after the loop.  The loop test is
    recorded as an event, not as a path condition (the state after the loop is the state after a generic last iteration)."""
    if isinstance(s, ast.For):
        return iter_once_loop(vn, s, st)
    if not isinstance(s, ast.While):
        return None
    st.events.append(("while", vn._as_term(vn.ev(s.test, st)), s))
    outs = vn.block(list(s.body), [st])
    for o in outs:
        if o.status in ("break", "continue"):
            o.events.append((o.status, None, s))
            o.status = "live"
    return outs


INT_APPS = {"attr:ndim", "attr:size", "len", "floordiv", "ceil", "floor", "int", "prod"}


def is_int_term(p, depth=0):
    """provably integer-valued: integer combinations of sizes (x.shape[k], len, ndim, size), ceil/floor/int and floor divisions / max / min of such"""
    if not isinstance(p, T.Poly) or depth > 6:
        return False
    for m, c in p.t.items():
        if c[1] != 0 or c[0].denominator != 1:
            return False
        for a, e in m:
            if e.denominator != 1 or e < 0 or a[0] != "app":
                return False
            if a[1] in ("attr:ndim", "attr:size", "len", "ceil", "floor", "int"):
                continue
            args = [T.dec(x) for x in a[2]]
            if a[1] == "getitem" and len(args) == 2 and isinstance(args[0], T.Poly) and isinstance(args[1], T.Poly):
                ba = args[0].single_atom()
                ia = args[1].single_atom()
                if ba is not None and ba[0] == "app" and ba[1] == "attr:shape" and not (ia is not None and ia[0] == "app" and ia[1] == "slice"):
                    continue
                return False
            if a[1] in ("floordiv", "mod", "max", "min") and all(is_int_term(x, depth + 1) for x in args):
                continue
            return False
    return True


def _pure_const_expr(n, depth=0):
    """immutable constant expressions a module-level name may stand for: literals, np.<name> / math.<name>, slice(..) of such, tuples and arithmetic of such"""
    if depth > 4:
        return False
    if isinstance(n, ast.Constant):
        return not isinstance(n.value, (bytes, type(Ellipsis)))
    if isinstance(n, ast.Attribute):
        return isinstance(n.value, ast.Name) and n.value.id in ("np", "math")
    if isinstance(n, ast.Tuple):
        return all(_pure_const_expr(x, depth + 1) for x in n.elts)
    if isinstance(n, ast.UnaryOp):
        return _pure_const_expr(n.operand, depth + 1)
    if isinstance(n, ast.BinOp):
        return _pure_const_expr(n.left, depth + 1) and _pure_const_expr(n.right, depth + 1)
    if isinstance(n, ast.Call) and isinstance(n.func, ast.Name) and n.func.id == "slice" and not n.keywords:
        return all(_pure_const_expr(x, depth + 1) for x in n.args)
    return False


def small_array(v):
    """the elements of np.array((e0, .., ek)) built from a tuple of known scalar terms (k <= 8), else None"""
    a = v.single_atom() if isinstance(v, T.Poly) else None
    if a is not None and a[0] == "app" and a[1] in ("call:numpy.array", "call:numpy.asarray") and len(a[2]) == 1 and a[2][0][0] == "T":
        t = T.dec(a[2][0])
        if 0 < len(t) <= 8 and all(isinstance(x, T.Poly) for x in t):
            return t
    return None


def small_array_pair(a, b):
    """operands of an elementwise operation on small arrays (a known constant broadcasts); None when the rule does not apply"""
    sa, sb = small_array(a), small_array(b)
    if sa is None and sb is None:
        return None
    if sa is None:
        if not (isinstance(a, T.Poly) and a.as_fraction() is not None):
            return None
        sa = (a,) * len(sb)
    if sb is None:
        if not (isinstance(b, T.Poly) and b.as_fraction() is not None):
            return None
        sb = (b,) * len(sa)
    return (sa, sb) if len(sa) == len(sb) else None


def seq_len(v):
    """length of a sequence-valued term when it follows from its construction: tuples, concatenations, repetitions, comprehensions
    without filters, x.shape (= x.ndim) and its tail slices; None when unknown"""
    if isinstance(v, tuple):
        return T.const(len(v))
    a = v.single_atom() if isinstance(v, T.Poly) else None
    if a is None or a[0] != "app":
        return None
    args = [T.dec(x) for x in a[2]]
    if a[1] == "concat":
        tot = T.const(0)
        for x in args:
            n = seq_len(x)
            if n is None:
                return None
            tot = T.add(tot, n)
        return tot
    if a[1] == "repeat" and len(args) == 2 and isinstance(args[1], T.Poly):
        n = seq_len(args[0])
        return None if n is None else T.mul(n, args[1])
    if a[1] == "comp" and len(args) == 2:
        return seq_len(args[1])
    if a[1] == "attr:shape" and len(args) == 1:
        return T.app("attr:ndim", args[0], real=True)
    if a[1] == "getitem" and len(args) == 2 and isinstance(args[1], T.Poly):
        ia = args[1].single_atom()
        if ia is not None and ia[0] == "app" and ia[1] == "slice":
            lo, hi, stp = (T.dec(x) for x in ia[2])
            flo = lo.as_fraction() if isinstance(lo, T.Poly) else None
            n = seq_len(args[0])
            if n is not None and hi == NONE and stp == NONE and flo is not None and flo >= 0 and flo.denominator == 1:
                return T.sub(n, T.const(flo))
            if n is not None and idx_is_reverse(args[1]):
                return n
    return None


def seq_first(v):
    """first element of a sequence-valued term when its construction shows it"""
    if isinstance(v, tuple):
        return v[0] if v and isinstance(v[0], T.Poly) else None
    a = v.single_atom() if isinstance(v, T.Poly) else None
    if a is not None and a[0] == "app" and a[1] == "concat" and a[2]:
        return seq_first(T.dec(a[2][0]))
    return None


def idx_is_reverse(i):
    return isinstance(i, T.Poly) and i == REVERSE


def append_loop(vn, s, st):
    """`acc = []; for t in it: [tmp = ...;] acc.append(E)`  is the comprehension `[E for t in it]` (optionally extending a list built so
    far).  Recognised only when the body consists of plain temporaries and appends to lists the value numbering already tracks."""
    if not isinstance(s, ast.For) or s.orelse:
        return None
    accs = []
    assigned_so_far = set()
    for b in s.body:
        if isinstance(b, ast.Assign) and all(isinstance(t, ast.Name) for t in b.targets):
            # a plain temporary is written before it is read in every iteration; a name that is read first (it carries a value from the
            # previous iteration or from before the loop, like `vec = vec[n:]`) makes the loop more than a comprehension
            reads = {x.id for x in ast.walk(b.value) if isinstance(x, ast.Name)}
            for t in b.targets:
                if t.id in reads and t.id not in assigned_so_far:
                    return None
                if t.id in st.env and t.id not in assigned_so_far and any(
                        isinstance(x, ast.Name) and x.id == t.id and isinstance(x.ctx, ast.Load)
                        for prev in s.body[:s.body.index(b)] for x in ast.walk(prev)):
                    return None
            assigned_so_far |= {t.id for t in b.targets}
            continue
        if isinstance(b, ast.Expr) and isinstance(b.value, ast.Call) and isinstance(b.value.func, ast.Attribute) and b.value.func.attr == "append" \
                and len(b.value.args) == 1 and not b.value.keywords:
            k = vn.key_of(b.value.func.value)
            cur = st.env.get(k) if k is not None else None
            if k is None or not (is_tuple(cur) or is_seq(cur)):
                return None
            accs.append(k)
            continue
        return None
    if not accs:
        return None
    targets = []
    try:
        vn._flat_targets(s.target, targets)
    except Unrecognised:
        return None
    it = vn.ev(s.iter, st)
    if is_tuple(it) and len(it) <= 16:
        return None  # statically known length: unrolled like the comprehension over it would be
    sub = State(st.env, st.conds, alias=st.alias)
    for i, t in enumerate(targets):
        sub.env[t] = T.sym("@%d" % i, real=True)
    added = {k: [] for k in accs}
    for b in s.body:
        if isinstance(b, ast.Assign):
            v = vn.ev(b.value, sub)
            for t in b.targets:
                sub.env[t.id] = v
        else:
            k = vn.key_of(b.value.func.value)
            added[k].append(vn._as_term(vn.ev(b.value.args[0], sub)))
    itt = vn._as_term(it)
    for k, elts in added.items():
        if len(elts) != 1:
            return None
        elt = elts[0]
        if len(targets) == 1 and elt == T.sym("@0", real=True):
            comp = itt
        else:
            comp = (vn._normalise_comp("comp", elt, itt, len(targets)) if isinstance(elt, T.Poly) and isinstance(itt, T.Poly) else None) or T.app("comp", elt, itt)
        old = st.env[k]
        st.env[k] = comp if (is_tuple(old) and len(old) == 0) else concat(old, comp)
    # temporaries assigned in the body are not defined in terms of a generic iteration afterwards: forget them
    for b in s.body:
        if isinstance(b, ast.Assign):
            for t in b.targets:
                st.env.pop(t.id, None)
    for t in targets:
        st.env.pop(t, None)
    return [st]


def unroll_loop(vn, s, st):
    """loop hook: unroll `for` loops whose iterable evaluates to a python tuple of statically known
    length (symbolic elements); other loops are not handled here (returns None)"""
    if not isinstance(s, ast.For):
        return None
    it = vn.ev(s.iter, st)
    if not is_tuple(it) or len(it) > 16:
        return None
    states = [st]
    for elem in it:
        nxt = []
        for cur in states:
            if cur.status != "live":
                nxt.append(cur)
                continue
            if getattr(cur, "_broke", None) is s:
                nxt.append(cur)
                continue
            vn.assign(s.target, elem, cur, s)
            outs = vn.block(list(s.body), [cur])
            for o in outs:
                if o.status == "break":
                    o.status = "live"
                    o._broke = s
                elif o.status == "continue":
                    o.status = "live"
            nxt.extend(outs)
        states = nxt
    if s.orelse:
        states = vn.block(list(s.orelse), states)
    return states


def _replace_atom(t, old_atom, new_term):
    """structural replacement of one application atom by a term"""
    def rb(p):
        if isinstance(p, tuple):
            return tuple(rb(x) for x in p)
        if not isinstance(p, T.Poly):
            return p
        if isinstance(new_term, tuple):
            if p.single_atom() == old_atom:
                return new_term  # a sequence-valued replacement can only stand where the atom is a whole argument
        out = T.Poly()
        for m, c in p.t.items():
            term = T.Poly({frozenset(): c})
            for a, e in m:
                term = T.mul_raw(term, T.power(ra(a), e))
            out = T.add(out, term)
        return out

    def ra(a):
        if a == old_atom:
            if isinstance(new_term, tuple):
                raise TypeError("sequence inside arithmetic")
            return new_term
        if a[0] == "app":
            args = [rb(T.dec(x)) for x in a[2]]
            if a[1] == "concat":
                acc = args[0]
                for x in args[1:]:
                    acc = concat(acc, x)
                return acc if isinstance(acc, T.Poly) else T.app("concat", acc)
            # a real-valued application stays real; otherwise realness is recomputed from the new arguments
            return T.app(a[1], *args, real=True if a[3] else None)
        if a[0] == "cmp":
            inner = rb(T.from_key(a[1]))
            return inner if len(inner.t) == 1 else T.atom_poly(("cmp", inner.key()))
        return T.atom_poly(a)

    return rb(t)


def _dotted_of(v):
    """'self.A.H' for the term attr:H(self.A) / a plain symbol name for a symbol; None otherwise"""
    a = v.single_atom() if isinstance(v, T.Poly) else None
    if a is None:
        return None
    if a[0] == "sym" and not a[3] and not a[1].startswith(("'", '"', "<", "@", "$")):
        return a[1]
    if a[0] == "app" and a[1].startswith("attr:") and len(a[2]) == 1:
        b = _dotted_of(T.dec(a[2][0]))
        return None if b is None else b + "." + a[1][5:]
    return None


def _is_strlit(v):
    a = v.single_atom() if isinstance(v, T.Poly) else None
    return a is not None and a[0] == "sym" and a[1][:1] in ("'", '"')


def _is_constructed(v):
    if isinstance(v, T.Poly):
        if v.as_fraction() is not None:
            return True
        a = v.single_atom()
        return a is not None and a[0] == "app" and (a[1].startswith("new:") or a[1].startswith("call:numpy.")
                                                     or a[1] in ("argsort", "not", "loopval"))
    return False


def cond_text(conds):
    return " and ".join(T.show(c, 120) for c in conds) or "always"
