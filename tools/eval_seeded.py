#!/venv/bin/python
"""Confirm an independently written seeded change and run the checks against it.

usage: tools/eval_seeded.py <PID> <k> [--wt /tmp/seed/wt_<PID>] [--src /tmp/seed/out/<PID>/<k>] [--no-tests]
(<src> holds patch.diff, demo.py, notes.md as delivered by the independent sub-agent)
Steps (all in the scratch worktree <wt>, never in /repo):
  1. git apply <src>/patch.diff ; run the full test-suite (must be the baseline 125 passes) ; run the demo (must FAIL)
  2. git checkout -- . ; run the demo (must PASS)
  3. copy <wt>/sigpy with the patch applied to a mkdtemp dir and run all 20 checks with --repo ; report which fire
  4. store patch.diff, demo.py, meta.json (incl. what was run and which checks caught it) under /verif/seeded/<PID>-m<k>/
"""
import json, os, re, shutil, subprocess, sys, tempfile

ROOT = os.path.dirname(os.path.dirname(os.path.abspath(__file__)))
PY = "/venv/bin/python"


def sh(cmd, cwd, env=None, timeout=1800):
    e = dict(os.environ)
    e.update(env or {})
    r = subprocess.run(cmd, shell=True, cwd=cwd, capture_output=True, text=True, env=e, timeout=timeout)
    return r.returncode, (r.stdout + r.stderr)


def main():
    a = sys.argv[1:]
    pid, k = a[0], a[1]
    wt = "/tmp/seed/wt_" + pid
    if "--wt" in a:
        wt = a[a.index("--wt") + 1]
    src = "/tmp/seed/out/%s/%s" % (pid, k)
    if "--src" in a:
        src = a[a.index("--src") + 1]
    run_tests = "--no-tests" not in a
    ident = a[a.index("--id") + 1] if "--id" in a else k
    diff = os.path.join(src, "patch.diff")
    demo = os.path.join(src, "demo.py")
    metaf = os.path.join(src, "notes.md")
    for p in (diff, demo):
        if not os.path.exists(p):
            print("MISSING", p)
            return 2
    env = {"PYTHONPATH": wt, "NUMBA_DISABLE_JIT": os.environ.get("NUMBA_DISABLE_JIT", "0"),
           "OMP_NUM_THREADS": "1", "OPENBLAS_NUM_THREADS": "1", "MKL_NUM_THREADS": "1", "NUMBA_NUM_THREADS": "1"}
    sh("git checkout -- . ", wt)
    rc, o = sh("git apply --check %s" % diff, wt)
    if rc != 0:
        print("PATCH DOES NOT APPLY:", o[:300])
        return 2
    sh("git apply %s" % diff, wt)
    rc, o = sh("%s -c 'import sigpy, sigpy.mri, sigpy.mri.rf'" % PY, wt, env)
    imports = rc == 0
    tests = None
    if run_tests:
        rc, o = sh("%s -m pytest -q -p no:cacheprovider --timeout=900 --continue-on-collection-errors 2>&1 | tail -3" % PY, wt, env)
        m = re.search(r"(\d+) passed", o)
        tests = int(m.group(1)) if m else -1
        failed = re.search(r"(\d+) failed", o)
        tests_failed = int(failed.group(1)) if failed else 0
    rc_with, o_with = sh("%s %s" % (PY, demo), wt, env, timeout=900)
    # checks against the patched tree
    tmp = tempfile.mkdtemp(prefix="sigverif-seeded-")
    caught = {}
    try:
        shutil.copytree(os.path.join(wt, "sigpy"), os.path.join(tmp, "sigpy"), ignore=shutil.ignore_patterns("__pycache__"))
        sh("git checkout -- .", wt)
        rc_without, o_without = sh("%s %s" % (PY, demo), wt, env, timeout=900)
        procs = {}
        for i in range(1, 21):
            c = "C%02d" % i
            procs[c] = subprocess.Popen([os.path.join(ROOT, "bin", "check"), c, "--repo", tmp], stdout=subprocess.PIPE, stderr=subprocess.STDOUT, text=True,
                                        env=dict(os.environ, SIGVERIF_NO_EVIDENCE="1"))
        for c, p in procs.items():
            o, _ = p.communicate()
            if p.returncode != 0:
                lines = [l for l in o.splitlines() if l.startswith("  sigpy") or l.startswith("ANALYSIS-ERROR")]
                caught[c] = (p.returncode, lines[:3])
    finally:
        shutil.rmtree(tmp, ignore_errors=True)
    meta = {}
    if os.path.exists(metaf):
        meta = {"author_notes": open(metaf).read()[:4000]}
    ok_confirm = imports and rc_with != 0 and rc_without == 0 and (tests in (None, 125) and (not run_tests or tests_failed == 0))
    print("== %s %s  confirm=%s (imports=%s tests=%s demo_with=%s demo_without=%s)" % (pid, k, ok_confirm, imports, tests, rc_with, rc_without))
    print("   notes  :", " ".join(meta.get("author_notes", "").split())[:300])
    own = caught.get(pid)
    print("   own check %s: %s" % (pid, "exit %s %s" % (own[0], (own[1][0][:230] if own[1] else "")) if own else "SILENT (exit 0)"))
    others = {c: v for c, v in caught.items() if c != pid}
    if others:
        print("   also:", ", ".join("%s(exit %s)" % (c, v[0]) for c, v in sorted(others.items())))
    if ok_confirm:
        dst = os.path.join(ROOT, "seeded", "%s-%s" % (pid, ident))
        os.makedirs(dst, exist_ok=True)
        shutil.copy(diff, os.path.join(dst, "patch.diff"))
        shutil.copy(demo, os.path.join(dst, "demo.py"))
        if os.path.exists(metaf):
            shutil.copy(metaf, os.path.join(dst, "notes.md"))
        old = {}
        if os.path.exists(os.path.join(dst, "meta.json")):
            old = json.load(open(os.path.join(dst, "meta.json")))
        meta = {k2: v for k2, v in old.items() if k2 in ("needs_to_manifest", "summary", "first_seen_caught_by")}
        if "first_seen_caught_by" not in meta:
            meta["first_seen_caught_by"] = sorted(c for c, v in caught.items() if v[0] == 1)
        meta.update({
            "breaks_property": pid,
            "confirmed": {"imports": imports, "tests_passed_with_change": tests, "demo_exit_with_change": rc_with, "demo_exit_without_change": rc_without,
                          "how": "applied in a scratch git worktree of /repo (never in /repo); full pytest suite; demo with and without the change"},
            "caught_by": {c: {"exit": v[0], "report": v[1][:2]} for c, v in sorted(caught.items())},
            "own_check_catches": bool(own and own[0] == 1),
        })
        json.dump(meta, open(os.path.join(dst, "meta.json"), "w"), indent=1)
    return 0


if __name__ == "__main__":
    sys.exit(main())
