#!/venv/bin/python
"""Quick look: which checks fire on a seeded patch (no test-suite / demo confirmation; that is tools/eval_seeded.py).
usage: tools/quick_seed.py <patch.diff> [PID ...]   (default: all 20 checks)"""
import os, shutil, subprocess, sys, tempfile
HERE = os.path.dirname(os.path.abspath(__file__))
def main():
    diff = os.path.abspath(sys.argv[1]); pids = sys.argv[2:] or ["C%02d" % i for i in range(1, 21)]
    tmp = tempfile.mkdtemp(prefix="sigverif-qs-")
    try:
        shutil.copytree("/repo/sigpy", os.path.join(tmp, "sigpy"), ignore=shutil.ignore_patterns("__pycache__"))
        r = subprocess.run(["patch", "-p1", "-s", "-i", diff], cwd=tmp, capture_output=True, text=True)
        if r.returncode != 0:
            print("PATCH FAILED", r.stdout[:300], r.stderr[:300]); return 2
        procs = {c: subprocess.Popen([os.path.join(HERE, "..", "bin", "check"), c, "--repo", tmp], stdout=subprocess.PIPE, stderr=subprocess.STDOUT, text=True,
                                     env=dict(os.environ, SIGVERIF_NO_EVIDENCE="1", OMP_NUM_THREADS="1")) for c in pids}
        fired = []
        for c, p in procs.items():
            o, _ = p.communicate()
            if p.returncode != 0:
                fired.append(c)
                lines = [l for l in o.splitlines() if l.startswith("  sigpy") or l.startswith("ANALYSIS-ERROR")]
                print("%s exit %d: %s" % (c, p.returncode, (lines[0][:330] if lines else "")))
        print("fired:", fired or "NONE")
    finally:
        shutil.rmtree(tmp, ignore_errors=True)
if __name__ == "__main__":
    sys.exit(main())
