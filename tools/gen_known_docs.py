#!/venv/bin/python
"""Freeze what the pinned tree's docstrings say about parameters (run deliberately, on the pinned tree only):
  array_params     {function qual: [parameters documented as arrays]}          (C02 M1: which parameters must not be written)
  solution_params  {class qual: [constructor parameters documented as the solution / variable array]}   (C15 T3)
Rules read the docstring first and fall back to this table, so rewriting or deleting documentation does not blind (or break) them."""
import ast, json, os, re, sys
sys.path.insert(0, os.path.join(os.path.dirname(os.path.abspath(__file__)), ".."))
from sigverif.model import Model

M = Model("/repo")
arr = {}
for q, f in sorted(M.funcs.items()):
    doc = f.docstring or ""
    ps = [p for p in f.params if (lambda m: m and "array" in m.group(1).lower())(re.search(r"^\s*%s\s*\(([^)]*)\)" % re.escape(p), doc, re.M))]
    if ps:
        arr[q] = ps
sol = {}
for q, c in sorted(M.classes.items()):
    cdoc = ast.get_docstring(c.node) or ""
    init = M.method(c, "__init__", inherit=False)
    if init is None:
        continue
    ps = []
    for p in init.params:
        m = re.search(r"^\s*%s\s*\(([^)]*)\)\s*:\s*(.*)$" % re.escape(p), cdoc, re.M)
        desc = (m.group(1) + " " + m.group(2)).lower() if m else ""
        if "array" in desc and ("solution" in desc or "variable" in desc):
            ps.append(p)
    if ps:
        sol[q] = ps
out = os.path.join(os.path.dirname(os.path.abspath(__file__)), "..", "sigverif", "known_docs.json")
json.dump({"array_params": arr, "solution_params": sol}, open(out, "w"), indent=1, sort_keys=True)
print("array_params: %d functions; solution_params: %d classes" % (len(arr), len(sol)))
