#!/venv/bin/python
"""Regenerate /verif/MANIFEST.json from the claim table below (keeps it schema-valid at all times)."""
import json, os, importlib, sys
ROOT = os.path.dirname(os.path.dirname(os.path.abspath(__file__)))
sys.path.insert(0, ROOT)
from sigverif.claims import CLAIMS, NOT_APPLICABLE  # noqa

def main():
    checks = []
    for pid in sorted(CLAIMS):
        c = CLAIMS[pid]
        checks.append({
            "property_id": pid,
            "quick_cmd": "bin/check %s --tier quick" % pid,
            "thorough_cmd": "bin/check %s --tier thorough" % pid,
            "evidence_file": "/verif/evidence/%s.json" % pid,
            "replay_cmd_template": "bin/check %s --replay {path}" % pid,
            "engine": c["engine"],
            "level_claimed": {"category": c.get("category", "other"), "text": c["text"], "design_ref": c["design_ref"]},
            "level_note": c["note"],
            "technique": c["technique"],
        })
    man = {
        "version": 1,
        "setup_cmd": "bin/setup",
        "hooks": {
            "guard": "SIGPY_VERIF",
            "enable": "no hooks: the checks parse /repo's source text and never build, import or run sigpy",
            "baseline_off_cmd": "cd /repo && /venv/bin/python -m pytest -ra -q -p no:cacheprovider --timeout=900 --continue-on-collection-errors",
            "source_commits": [],
            "add_only": True,
        },
        "engines": [
            {"name": "E1 repository model", "path": "sigverif/model.py", "serves_properties": sorted(CLAIMS), "kind_free_text": "ast-based module/class/function tables, import and call resolution, CPU-build pruning"},
            {"name": "E2 alias/effect analysis", "path": "sigverif/effects.py", "serves_properties": ["C02", "C12", "C13", "C15"], "kind_free_text": "flow-sensitive may-alias + mutation summaries to a fixpoint over the call graph"},
            {"name": "E3 term algebra + value numbering", "path": "sigverif/terms.py, sigverif/vn.py", "serves_properties": ["C01", "C05", "C06", "C07", "C08", "C09", "C11", "C12", "C13", "C14", "C17", "C19", "C20"], "kind_free_text": "canonical polynomial normal form with conj/rational exponents; path-sensitive global value numbering"},
            {"name": "E4 operator descriptors", "path": "sigverif/linopdesc.py", "serves_properties": ["C01", "C03", "C04", "C10", "C16"], "kind_free_text": "ctor -> attribute -> primitive-argument flow and shape summaries per Linop class"},
            {"name": "E5 axis tags / raw-axes typestate / kernel loop-nest summaries", "path": "sigverif/axestate.py, sigverif/kernelsum.py", "serves_properties": ["C01", "C03", "C07", "C09", "C17"], "kind_free_text": "interprocedural taint of un-normalised axes; which-dimension-does-this-integer-index inference; canonical loop-nest summaries of the numba kernels"},
            {"name": "E6 path enumeration", "path": "sigverif/paths.py", "serves_properties": ["C03", "C11", "C14", "C15", "C18"], "kind_free_text": "statement-level path enumeration: must-pass-through, dominance, pairing"},
            {"name": "abstract domains", "path": "sigverif/domains.py, sigverif/linearity.py, sigverif/zerodiff.py", "serves_properties": ["C02", "C11", "C15", "C18", "C20"], "kind_free_text": "C-linearity lattice {Z,K,L,A,N}; shape provenance; binary-valued arrays; endpoint-zero; must-alias stale-snapshot analysis"},
            {"name": "bytecode cross-check", "path": "sigverif/bytecode.py", "serves_properties": ["C02", "C12", "C13", "C15"], "kind_free_text": "thorough tier: dis-derived store counts per code object (compiled, never executed) must agree with the AST-derived mutation sites"},
        ],
        "checks": checks,
        "not_applicable": [{"property_id": p, "reason": r} for p, r in sorted(NOT_APPLICABLE.items()) if p not in CLAIMS],
        "notes": "Static analysis only (stdlib ast). Exit 0 held / 1 VIOLATION / 2 ANALYSIS-ERROR. See DESIGN.md.",
    }
    with open(os.path.join(ROOT, "MANIFEST.json"), "w") as fh:
        json.dump(man, fh, indent=1)
    print("MANIFEST.json: %d checks, %d not_applicable" % (len(checks), len(man["not_applicable"])))

if __name__ == "__main__":
    main()
