#!/venv/bin/python
"""Run all 20 checks against an independently written behaviour-preserving refactor; every check must stay silent (exit 0).

usage: tools/eval_benign.py <PID> <k> [--confirm]     (<src> = /tmp/seed/benign/<PID>/r<k>: patch.diff, demo.py, notes.md)
--confirm additionally re-establishes, in the scratch worktree /tmp/seed/wt_<PID>, that the suite passes with the refactor and that
demo.py prints the same digest with and without it.  Confirmed refactors are stored under /verif/selftest/benign_indep/<PID>-r<k>/.
"""
import json, os, re, shutil, subprocess, sys, tempfile
ROOT = os.path.dirname(os.path.dirname(os.path.abspath(__file__)))
PY = "/venv/bin/python"
ENV = {"OMP_NUM_THREADS": "1", "OPENBLAS_NUM_THREADS": "1", "MKL_NUM_THREADS": "1", "NUMBA_NUM_THREADS": "1"}


def sh(cmd, cwd, env=None, timeout=3600):
    e = dict(os.environ); e.update(ENV); e.update(env or {})
    r = subprocess.run(cmd, shell=True, cwd=cwd, capture_output=True, text=True, env=e, timeout=timeout)
    return r.returncode, r.stdout + r.stderr


def main():
    pid, k = sys.argv[1], sys.argv[2]
    a = sys.argv
    src = a[a.index("--src") + 1] if "--src" in a else "/tmp/seed/benign/%s/r%s" % (pid, k)
    dstdir = a[a.index("--dst") + 1] if "--dst" in a else "benign_indep"
    ident = a[a.index("--id") + 1] if "--id" in a else "%s-r%s" % (pid, k)
    diff = os.path.join(src, "patch.diff")
    if not os.path.exists(diff):
        print("MISSING", diff); return 2
    tmp = tempfile.mkdtemp(prefix="sigverif-bn-")
    alarms = {}
    try:
        shutil.copytree("/repo/sigpy", os.path.join(tmp, "sigpy"), ignore=shutil.ignore_patterns("__pycache__"))
        r = subprocess.run(["patch", "-p1", "-s", "-i", diff], cwd=tmp, capture_output=True, text=True)
        if r.returncode != 0:
            print("PATCH FAILED", (r.stdout + r.stderr)[:300]); return 2
        procs = {}
        for i in range(1, 21):
            c = "C%02d" % i
            procs[c] = subprocess.Popen([os.path.join(ROOT, "bin", "check"), c, "--repo", tmp], stdout=subprocess.PIPE, stderr=subprocess.STDOUT, text=True,
                                        env=dict(os.environ, SIGVERIF_NO_EVIDENCE="1", SIGVERIF_NO_INHERIT="1"))
        for c, p in procs.items():
            o, _ = p.communicate()
            if p.returncode != 0:
                alarms[c] = (p.returncode, [l for l in o.splitlines() if l.startswith("  sigpy") or l.startswith("ANALYSIS-ERROR")][:3])
    finally:
        shutil.rmtree(tmp, ignore_errors=True)
    conf = None
    if "--confirm" in sys.argv:
        wt = a[a.index("--wt") + 1] if "--wt" in a else "/tmp/seed/wt_" + pid
        env = {"PYTHONPATH": wt}
        sh("git checkout -- .", wt)
        _, d0 = sh("%s %s 2>/dev/null" % (PY, os.path.join(src, "demo.py")), wt, env, 900)
        rc, o = sh("git apply %s" % diff, wt)
        _, d1 = sh("%s %s 2>/dev/null" % (PY, os.path.join(src, "demo.py")), wt, env, 900)
        _, o = sh("%s -m pytest -q -p no:cacheprovider --timeout=900 --continue-on-collection-errors 2>&1 | tail -3" % PY, wt, env)
        sh("git checkout -- .", wt)
        m = re.search(r"(\d+) passed", o)
        failed = re.search(r"(\d+) failed", o)
        if "DIGEST" in d0 and "--digest-lines" in sys.argv:
            # demos of feature additions print extra PASS/FAIL lines that exist only with the patch: compare the DIGEST lines
            d0 = "\n".join(l for l in d0.splitlines() if l.startswith("DIGEST"))
            d1 = "\n".join(l for l in d1.splitlines() if l.startswith("DIGEST"))
        conf = {"digest_pristine": d0.strip()[-80:], "digest_refactored": d1.strip()[-80:], "same_digest": d0.strip() == d1.strip() and bool(d0.strip()),
                "tests_passed": int(m.group(1)) if m else -1, "tests_failed": int(failed.group(1)) if failed else 0}
    print("== %s r%s  alarms=%s %s" % (pid, k, sorted(alarms) or "none", ("confirm=%s" % conf) if conf else ""))
    for c, (rc, lines) in sorted(alarms.items()):
        print("   %s exit %d: %s" % (c, rc, (lines[0][:300] if lines else "")))
    if conf and conf["same_digest"] and conf["tests_passed"] == 125 and conf["tests_failed"] == 0:
        dst = os.path.join(ROOT, "selftest", dstdir, ident)
        os.makedirs(dst, exist_ok=True)
        for f in ("patch.diff", "demo.py", "notes.md"):
            if os.path.exists(os.path.join(src, f)):
                shutil.copy(os.path.join(src, f), os.path.join(dst, f))
        json.dump({"id": ident, "anchored_at_property": pid, "confirmed": conf, "alarms_when_first_run": {c: v[1][:1] for c, v in alarms.items()}},
                  open(os.path.join(dst, "meta.json"), "w"), indent=1)
    return 1 if alarms else 0

if __name__ == "__main__":
    sys.exit(main())
