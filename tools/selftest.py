#!/venv/bin/python
"""Checker self-test (not a MANIFEST command): every seeded defect in selftest/mutants/<PID>.txt must make the <PID> check
report a VIOLATION (exit 1); every benign refactor in selftest/benign/*.txt must leave all listed checks silent (exit 0).
Each variant is applied to a scratch copy of /repo/sigpy in a mkdtemp directory that is removed afterwards.  16 workers.

Line format:  relpath|old text|new text      (\\n escapes; lines starting with # are comments; `#expect=0` after a line marks
a mutant that is algebraically behaviour-preserving and must NOT be reported)
"""
import concurrent.futures, glob, os, sys
HERE = os.path.dirname(os.path.abspath(__file__))
sys.path.insert(0, HERE)
import mutate

def load(path):
    out = []
    for ln in open(path):
        ln = ln.rstrip("\n")
        if not ln.strip() or ln.startswith("#"):
            continue
        parts = ln.split("|")
        if len(parts) != 3:
            print("bad line in %s: %r" % (path, ln[:60])); continue
        out.append(tuple(p.encode().decode("unicode_escape") for p in parts))
    return out

def main():
    only = set(a.upper() for a in sys.argv[1:])
    jobs = []
    for f in sorted(glob.glob(os.path.join(HERE, "..", "selftest", "mutants", "C*.txt"))):
        pid = os.path.basename(f)[:-4]
        if only and pid not in only: continue
        for i, (rel, old, new) in enumerate(load(f)):
            jobs.append(("mutant", pid, i, rel, old, new, [pid]))
    for f in sorted(glob.glob(os.path.join(HERE, "..", "selftest", "benign", "*.txt"))):
        name = os.path.basename(f)[:-4]
        pids = name.split("__")[0].split("_")
        if only and not (set(pids) & only): continue
        for i, (rel, old, new) in enumerate(load(f)):
            jobs.append(("benign", name, i, rel, old, new, pids))
    bad = 0
    def work(j):
        kind, name, i, rel, old, new, pids = j
        return j, mutate.run(pids, rel, old, new, count=None)
    with concurrent.futures.ThreadPoolExecutor(16) as ex:
        for j, res in ex.map(work, jobs):
            kind, name, i, rel, old, new, pids = j
            for pid, rc, out in res:
                want = 1 if kind == "mutant" else 0
                ok = rc == want
                if kind == "mutant" and rc == 0 and "#expect=0" in new:
                    ok = True
                if not ok:
                    bad += 1
                    print("SELFTEST-FAIL %s %s[%d] check %s: exit %s (want %s)  %s: %r -> %r" % (kind, name, i, pid, rc, want, rel, old[:50], new[:50]))
                    if rc not in (0, 1):
                        print("     " + out.strip().splitlines()[0][:200] if out.strip() else "")
    print("selftest: %d variants, %d unexpected" % (len(jobs), bad))
    return 1 if bad else 0

if __name__ == "__main__":
    sys.exit(main())
