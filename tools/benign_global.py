#!/venv/bin/python
"""Developer helper: whole-tree behaviour-preserving rewrites; every check must stay silent (exit 0) on each.

  unparse     every module re-emitted by ast.unparse (formatting, parentheses, quotes, comments all change)
  rename      every function-local variable that is not a parameter gets a `_r` suffix (alpha-renaming)
  flipif      every two-armed `if c: A else: B` becomes `if not c: B else: A`
  flipcmp     every `a < b` becomes `b > a` (and <=, >, >= likewise)
  hoistret    every `return <call or arithmetic>` becomes `_ret = ...; return _ret`
  renpriv     every private module-level function `_f` is renamed `_f_p`, with all its references in the package
  renparam    every parameter `p` of a private module-level function becomes `p_q` (in its body and in keyword arguments of its call sites)
  annotate    every parameter and return gets a (string) type annotation; simple assignments in undecorated functions become annotated assignments
  logdbg      every undecorated function starts with a `logging` debug call (module-level logger added)
  docstr      every function and class gets a new docstring (existing ones are replaced)
  fstr        every `"..{}..".format(..)` with plain fields becomes an f-string
  npfull      `import numpy as np` becomes `import numpy`, every `np.` becomes `numpy.`
  ternary     every `x = a if c else b` becomes a two-armed if statement
  comp2loop   every `x = [f(a) for a in s]` (one generator, undecorated function) becomes `x = []; for _cv in s: x.append(f(_cv))`
  kwcalls     every call of a module-level function of the same module passes its positional arguments by keyword
"""
import ast, os, shutil, subprocess, sys, tempfile, builtins
HERE = os.path.dirname(os.path.abspath(__file__))


class Renamer(ast.NodeTransformer):
    """rename locals (names stored in a function that are neither parameters, globals/nonlocals, nor used by nested functions/comprehension scopes)"""
    def visit_FunctionDef(self, node):
        # innermost-first
        self.generic_visit(node)
        params = {a.arg for a in node.args.args + node.args.kwonlyargs + node.args.posonlyargs}
        if node.args.vararg: params.add(node.args.vararg.arg)
        if node.args.kwarg: params.add(node.args.kwarg.arg)
        stored, banned = set(), set()
        nested_used = set()
        for n in ast.walk(node):
            if n is node:
                continue
            if isinstance(n, (ast.FunctionDef, ast.Lambda, ast.ClassDef)):
                for m in ast.walk(n):
                    if isinstance(m, ast.Name):
                        nested_used.add(m.id)
                    if isinstance(m, ast.arg):
                        nested_used.add(m.arg)
            if isinstance(n, (ast.Global, ast.Nonlocal)):
                banned |= set(n.names)
        for n in ast.walk(node):
            if isinstance(n, ast.Name) and isinstance(n.ctx, ast.Store):
                stored.add(n.id)
            if isinstance(n, (ast.FunctionDef, ast.ClassDef)) and n is not node:
                banned.add(n.name)
            if isinstance(n, ast.ExceptHandler) and n.name:
                banned.add(n.name)
            if isinstance(n, (ast.Import, ast.ImportFrom)):
                for a in n.names:
                    banned.add((a.asname or a.name).split(".")[0])
        todo = {v for v in stored if v not in params and v not in banned and v not in nested_used and not hasattr(builtins, v) and not v.endswith("_r")}
        for n in ast.walk(node):
            if isinstance(n, ast.Name) and n.id in todo:
                n.id = n.id + "_r"
        return node


class FlipIf(ast.NodeTransformer):
    """`if c: A else: B` -> `if not c: B else: A` (two-armed ifs that are not elif chains)"""
    def visit_If(self, node):
        self.generic_visit(node)
        if node.orelse and not (len(node.orelse) == 1 and isinstance(node.orelse[0], ast.If)) and not isinstance(node.test, ast.UnaryOp):
            return ast.If(test=ast.UnaryOp(op=ast.Not(), operand=node.test), body=node.orelse, orelse=node.body)
        return node


class FlipCompare(ast.NodeTransformer):
    """a < b -> b > a, a <= b -> b >= a (single comparisons)"""
    MAP = {ast.Lt: ast.Gt, ast.Gt: ast.Lt, ast.LtE: ast.GtE, ast.GtE: ast.LtE}

    def visit_Compare(self, node):
        self.generic_visit(node)
        if len(node.ops) == 1 and type(node.ops[0]) in self.MAP:
            return ast.Compare(left=node.comparators[0], ops=[self.MAP[type(node.ops[0])]()], comparators=[node.left])
        return node


class HoistReturn(ast.NodeTransformer):
    """`return f(..)` -> `_ret = f(..); return _ret`"""
    def visit_FunctionDef(self, node):
        self.generic_visit(node)
        node.body = self._block(node.body)
        return node

    def _block(self, stmts):
        out = []
        for s in stmts:
            for fld in ("body", "orelse", "finalbody"):
                b = getattr(s, fld, None)
                if isinstance(b, list) and b and isinstance(b[0], ast.stmt):
                    setattr(s, fld, self._block(b))
            if isinstance(s, ast.Return) and isinstance(s.value, (ast.Call, ast.BinOp)):
                out.append(ast.Assign(targets=[ast.Name(id="_ret", ctx=ast.Store())], value=s.value))
                out.append(ast.Return(value=ast.Name(id="_ret", ctx=ast.Load())))
            else:
                out.append(s)
        return out


PRIVATE = set()


def _decorated(node):
    return bool(getattr(node, "decorator_list", None))


class Annotate(ast.NodeTransformer):
    def __init__(self):
        self.in_decorated = 0

    def visit_FunctionDef(self, node):
        dec = _decorated(node)
        self.in_decorated += dec
        self.generic_visit(node)
        self.in_decorated -= dec
        for a in node.args.posonlyargs + node.args.args + node.args.kwonlyargs:
            if a.arg not in ("self", "cls") and a.annotation is None:
                a.annotation = ast.Constant("Any")
        if node.returns is None and node.name != "__init__":
            node.returns = ast.Constant("Any")
        return node

    def visit_Assign(self, node):
        if not self.in_decorated and self.depth_ok and len(node.targets) == 1 and isinstance(node.targets[0], ast.Name):
            return ast.AnnAssign(target=node.targets[0], annotation=ast.Constant("Any"), value=node.value, simple=1)
        return node

    depth_ok = True

    def visit_ClassDef(self, node):
        old = self.depth_ok
        self.depth_ok = False           # class attributes keep their plain form
        for i, b in enumerate(node.body):
            if isinstance(b, ast.FunctionDef):
                self.depth_ok = True
                node.body[i] = self.visit(b)
                self.depth_ok = False
        self.depth_ok = old
        return node


class LogDebug(ast.NodeTransformer):
    def __init__(self):
        self.in_decorated = 0

    def visit_FunctionDef(self, node):
        dec = _decorated(node)
        self.in_decorated += dec
        self.generic_visit(node)
        self.in_decorated -= dec
        if not dec and not self.in_decorated:
            call = ast.Expr(ast.Call(ast.Attribute(ast.Name("_sigpy_log", ast.Load()), "debug", ast.Load()), [ast.Constant("enter %s"), ast.Constant(node.name)], []))
            k = 1 if (node.body and isinstance(node.body[0], ast.Expr) and isinstance(node.body[0].value, ast.Constant) and isinstance(node.body[0].value.value, str)) else 0
            node.body.insert(k, call)
        return node

    def visit_Module(self, node):
        self.generic_visit(node)
        k = 0
        while k < len(node.body) and ((isinstance(node.body[k], ast.Expr) and isinstance(node.body[k].value, ast.Constant)) or
                                      (isinstance(node.body[k], ast.ImportFrom) and node.body[k].module == "__future__")):
            k += 1
        node.body[k:k] = ast.parse("import logging as _logging_mod\n_sigpy_log = _logging_mod.getLogger(__name__)\n").body
        return node


class DocStr(ast.NodeTransformer):
    def _doc(self, node):
        self.generic_visit(node)
        d = ast.Expr(ast.Constant("Rewritten documentation of %s.\n\n    Args: see the user guide.\n    " % node.name))
        if node.body and isinstance(node.body[0], ast.Expr) and isinstance(node.body[0].value, ast.Constant) and isinstance(node.body[0].value.value, str):
            node.body[0] = d
        else:
            node.body.insert(0, d)
        return node
    visit_FunctionDef = _doc
    visit_ClassDef = _doc


class FString(ast.NodeTransformer):
    def visit_Call(self, node):
        self.generic_visit(node)
        f = node.func
        if isinstance(f, ast.Attribute) and f.attr == "format" and isinstance(f.value, ast.Constant) and isinstance(f.value.value, str) \
                and not any(isinstance(a, ast.Starred) for a in node.args) and not any(k.arg is None for k in node.keywords):
            import string
            try:
                fields = list(string.Formatter().parse(f.value.value))
            except ValueError:
                return node
            kw = {k.arg: k.value for k in node.keywords}
            parts, auto = [], 0
            for lit, name, spec, conv in fields:
                if lit:
                    parts.append(ast.Constant(lit))
                if name is None:
                    continue
                if spec or conv:
                    return node
                if name == "":
                    if auto >= len(node.args):
                        return node
                    val = node.args[auto]; auto += 1
                elif name.isdigit():
                    if int(name) >= len(node.args):
                        return node
                    val = node.args[int(name)]
                elif name in kw:
                    val = kw[name]
                else:
                    return node
                parts.append(ast.FormattedValue(value=val, conversion=-1, format_spec=None))
            return ast.JoinedStr(parts)
        return node


class NpFull(ast.NodeTransformer):
    def visit_Import(self, node):
        for a in node.names:
            if a.name == "numpy" and a.asname == "np":
                a.asname = None
        return node

    def visit_Name(self, node):
        if node.id == "np":
            node.id = "numpy"
        return node


class Ternary(ast.NodeTransformer):
    def visit_Assign(self, node):
        if len(node.targets) == 1 and isinstance(node.targets[0], ast.Name) and isinstance(node.value, ast.IfExp):
            t = node.targets[0]
            return ast.If(test=node.value.test, body=[ast.Assign([ast.Name(t.id, ast.Store())], node.value.body, lineno=node.lineno)],
                          orelse=[ast.Assign([ast.Name(t.id, ast.Store())], node.value.orelse, lineno=node.lineno)])
        return node


class Comp2Loop(ast.NodeTransformer):
    def __init__(self):
        self.in_decorated = 0
        self.n = 0
        self.in_func = 0

    def visit_FunctionDef(self, node):
        dec = _decorated(node)
        self.in_decorated += dec
        self.in_func += 1
        self.generic_visit(node)
        self.in_func -= 1
        self.in_decorated -= dec
        return node

    def visit_Lambda(self, node):
        return node

    def visit_Assign(self, node):
        v = node.value
        if self.in_func and not self.in_decorated and len(node.targets) == 1 and isinstance(node.targets[0], ast.Name) and isinstance(v, ast.ListComp) \
                and len(v.generators) == 1 and not v.generators[0].is_async \
                and not any(isinstance(x, (ast.ListComp, ast.GeneratorExp, ast.SetComp, ast.DictComp, ast.Lambda, ast.NamedExpr)) for x in ast.walk(v.elt)) \
                and not any(isinstance(x, ast.Name) and x.id == node.targets[0].id for x in ast.walk(v)):
            g = v.generators[0]
            names = {x.id for x in ast.walk(g.target) if isinstance(x, ast.Name)}
            self.n += 1
            ren = {nm: "_cv%d_%s" % (self.n, nm) for nm in names}

            class R(ast.NodeTransformer):
                def visit_Name(self, x):
                    if x.id in ren:
                        return ast.copy_location(ast.Name(ren[x.id], x.ctx), x)
                    return x
            tgt = R().visit(g.target)
            elt = R().visit(v.elt)
            ifs = [R().visit(c) for c in g.ifs]
            t = node.targets[0].id
            body = [ast.Expr(ast.Call(ast.Attribute(ast.Name(t, ast.Load()), "append", ast.Load()), [elt], []))]
            for c in reversed(ifs):
                body = [ast.If(test=c, body=body, orelse=[])]
            return [ast.Assign([ast.Name(t, ast.Store())], ast.List([], ast.Load()), lineno=node.lineno),
                    ast.For(target=tgt, iter=g.iter, body=body, orelse=[], lineno=node.lineno)]
        return node


class KwCalls(ast.NodeTransformer):
    def __init__(self):
        self.funcs = {}

    def visit_Module(self, node):
        for n in node.body:
            if isinstance(n, ast.FunctionDef) and not n.decorator_list and not n.args.vararg and not n.args.kwarg and not n.args.posonlyargs:
                self.funcs[n.name] = [a.arg for a in n.args.args]
        shadow = set()
        for n in ast.walk(node):
            if isinstance(n, ast.arg) and n.arg in self.funcs:
                shadow.add(n.arg)
            if isinstance(n, ast.Name) and isinstance(n.ctx, ast.Store) and n.id in self.funcs:
                shadow.add(n.id)
        for k in shadow:
            self.funcs.pop(k, None)
        self.generic_visit(node)
        return node

    def visit_Call(self, node):
        self.generic_visit(node)
        if isinstance(node.func, ast.Name) and node.func.id in self.funcs and node.args and not any(isinstance(a, ast.Starred) for a in node.args) \
                and not any(k.arg is None for k in node.keywords):
            ps = self.funcs[node.func.id]
            if len(node.args) <= len(ps):
                node.keywords = [ast.keyword(arg=p, value=a) for p, a in zip(ps, node.args)] + node.keywords
                node.args = []
        return node


def collect_private(root):
    """names of private (single leading underscore) functions defined at module level anywhere in the package"""
    for r, _, files in os.walk(root):
        for fn in files:
            if fn.endswith(".py"):
                t = ast.parse(open(os.path.join(r, fn)).read())
                for n in t.body:
                    if isinstance(n, ast.FunctionDef) and n.name.startswith("_") and not n.name.startswith("__"):
                        PRIVATE.add(n.name)


class RenamePrivate(ast.NodeTransformer):
    def visit_FunctionDef(self, node):
        self.generic_visit(node)
        if node.name in PRIVATE:
            node.name += "_p"
        return node

    def visit_Name(self, node):
        if node.id in PRIVATE:
            node.id += "_p"
        return node

    def visit_Attribute(self, node):
        self.generic_visit(node)
        if node.attr in PRIVATE:
            node.attr += "_p"
        return node


class RenameParams(ast.NodeTransformer):
    """parameters of private module-level functions get a suffix; keyword arguments at call sites of those functions follow"""
    def visit_Module(self, node):
        for n in node.body:
            if isinstance(n, ast.FunctionDef) and n.name in PRIVATE and not n.args.vararg and not n.args.kwarg:
                params = {a.arg for a in n.args.args + n.args.kwonlyargs}
                # skip functions that contain nested scopes using the same names (closures): keep the transformation simple and safe
                if any(isinstance(x, (ast.FunctionDef, ast.Lambda, ast.ClassDef, ast.ListComp, ast.GeneratorExp, ast.SetComp, ast.DictComp)) for x in ast.walk(n) if x is not n):
                    continue
                PARAMS_OF[n.name] = params
                for a in n.args.args + n.args.kwonlyargs:
                    a.arg += "_q"
                for x in ast.walk(n):
                    if isinstance(x, ast.Name) and x.id in params:
                        x.id += "_q"
        return node


class RenameKeywords(ast.NodeTransformer):
    def visit_Call(self, node):
        self.generic_visit(node)
        f = node.func
        nm = f.id if isinstance(f, ast.Name) else (f.attr if isinstance(f, ast.Attribute) else None)
        if nm in PARAMS_OF:
            for k in node.keywords:
                if k.arg in PARAMS_OF[nm]:
                    k.arg += "_q"
        return node


PARAMS_OF = {}


NEW_KINDS = {"annotate": Annotate, "logdbg": LogDebug, "docstr": DocStr, "fstr": FString, "npfull": NpFull, "ternary": Ternary, "comp2loop": Comp2Loop, "kwcalls": KwCalls}


def transform(kind, src):
    tree = ast.parse(src)
    if kind == "renparam":
        tree = RenameKeywords().visit(tree)
    elif kind == "renpriv":
        tree = RenamePrivate().visit(tree)
    elif kind == "rename":
        tree = Renamer().visit(tree)
    elif kind == "flipif":
        tree = FlipIf().visit(tree)
    elif kind == "flipcmp":
        tree = FlipCompare().visit(tree)
    elif kind == "hoistret":
        tree = HoistReturn().visit(tree)
    elif kind in NEW_KINDS:
        tree = NEW_KINDS[kind]().visit(tree)
    ast.fix_missing_locations(tree)
    return ast.unparse(tree) + "\n"


def main():
    kinds = [a for a in sys.argv[1:] if not a.startswith("--")] or ["unparse", "rename", "flipif", "flipcmp", "hoistret", "renpriv", "renparam", "annotate", "logdbg", "docstr", "fstr", "npfull", "ternary", "comp2loop", "kwcalls"]
    collect_private("/repo/sigpy")
    bad = 0
    for kind in kinds:
        tmp = tempfile.mkdtemp(prefix="sigverif-benign-")
        try:
            shutil.copytree("/repo/sigpy", os.path.join(tmp, "sigpy"), ignore=shutil.ignore_patterns("__pycache__"))
            if kind == "renparam":
                PARAMS_OF.clear()
                for root, _, files in os.walk(os.path.join(tmp, "sigpy")):
                    for fn in files:
                        if fn.endswith(".py"):
                            p = os.path.join(root, fn)
                            t = RenameParams().visit(ast.parse(open(p).read()))
                            ast.fix_missing_locations(t)
                            open(p, "w").write(ast.unparse(t) + "\n")
            for root, _, files in os.walk(os.path.join(tmp, "sigpy")):
                for fn in files:
                    if fn.endswith(".py"):
                        p = os.path.join(root, fn)
                        s = open(p).read()
                        s2 = transform(kind, s)
                        compile(s2, p, "exec")
                        open(p, "w").write(s2)
            procs = {}
            for i in range(1, 21):
                c = "C%02d" % i
                procs[c] = subprocess.Popen([os.path.join(HERE, "..", "bin", "check"), c, "--repo", tmp], stdout=subprocess.PIPE, stderr=subprocess.STDOUT, text=True,
                                            env=dict(os.environ, SIGVERIF_NO_EVIDENCE="1", SIGVERIF_NO_INHERIT="1"))
            for c, p in procs.items():
                o, _ = p.communicate()
                if p.returncode != 0:
                    bad += 1
                    print("BENIGN-GLOBAL-FAIL %s %s exit %s" % (kind, c, p.returncode))
                    for l in o.splitlines():
                        if l.startswith("  sigpy") or l.startswith("ANALYSIS-ERROR"):
                            print("     " + l[:400])
            if "--keep" in sys.argv:
                print("kept", tmp); tmp = None
        finally:
            if tmp:
                shutil.rmtree(tmp, ignore_errors=True)
    print("benign_global: %d unexpected" % bad)
    return 1 if bad else 0

if __name__ == "__main__":
    sys.exit(main())
