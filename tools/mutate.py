#!/venv/bin/python
"""Developer helper: run a check against a scratch copy of /repo/sigpy with one textual edit applied.

usage: tools/mutate.py <PID[,PID..]> <relpath> <old> <new> [--count N]
The copy lives in a mkdtemp directory outside /repo and /verif and is removed afterwards.
"""
import os, shutil, subprocess, sys, tempfile

def run(pids, rel, old, new, repo="/repo", count=1, quiet=False):
    tmp = tempfile.mkdtemp(prefix="sigverif-mut-")
    try:
        shutil.copytree(os.path.join(repo, "sigpy"), os.path.join(tmp, "sigpy"), ignore=shutil.ignore_patterns("__pycache__"))
        p = os.path.join(tmp, rel)
        s = open(p).read()
        if s.count(old) < 1:
            return [("?", 99, "pattern not found: %r" % old)]
        if count and s.count(old) != count:
            return [("?", 98, "pattern occurs %d times, expected %d" % (s.count(old), count))]
        s2 = s.replace(old, new)
        compile(s2, p, "exec")
        open(p, "w").write(s2)
        out = []
        for pid in pids:
            r = subprocess.run([os.path.join(os.path.dirname(__file__), "..", "bin", "check"), pid, "--repo", tmp],
                               capture_output=True, text=True, env=dict(os.environ, SIGVERIF_NO_EVIDENCE="1"))
            out.append((pid, r.returncode, r.stdout + r.stderr))
        return out
    finally:
        shutil.rmtree(tmp, ignore_errors=True)

if __name__ == "__main__":
    a = sys.argv[1:]
    cnt = 1
    if "--count" in a:
        i = a.index("--count"); cnt = int(a[i+1]); del a[i:i+2]
    for pid, rc, out in run(a[0].split(","), a[1], a[2].encode().decode("unicode_escape"), a[3].encode().decode("unicode_escape"), count=cnt):
        print("== %s exit=%s" % (pid, rc)); print(out.strip()[:3000])
