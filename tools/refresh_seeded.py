#!/venv/bin/python
"""Regression over the stored seeded changes: apply each /verif/seeded/<id>/patch.diff to a scratch copy of /repo/sigpy (never to /repo),
run the checks with --repo and record which report a violation.

usage: tools/refresh_seeded.py [--all-checks] [--write] [ID ...]
  default: only the check of the property the change breaks is run; --all-checks runs all 20
  --write: update caught_by / own_check_catches in meta.json (the confirmation block written by eval_seeded.py is left alone)
exit 1 if a stored change is not reported as a VIOLATION (exit 1) by the check of the property it breaks.
"""
import json, os, re, shutil, subprocess, sys, tempfile
from concurrent.futures import ThreadPoolExecutor
HERE = os.path.dirname(os.path.abspath(__file__))
ROOT = os.path.dirname(HERE)


def one(sid, all_checks):
    d = os.path.join(ROOT, "seeded", sid)
    meta = json.load(open(os.path.join(d, "meta.json")))
    pid = meta.get("breaks_property", sid.split("-")[0])
    tmp = tempfile.mkdtemp(prefix="sigverif-rs-")
    res = {}
    try:
        shutil.copytree("/repo/sigpy", os.path.join(tmp, "sigpy"), ignore=shutil.ignore_patterns("__pycache__"))
        r = subprocess.run(["patch", "-p1", "-s", "-i", os.path.join(d, "patch.diff")], cwd=tmp, capture_output=True, text=True)
        if r.returncode != 0:
            return sid, pid, None, "patch failed: " + (r.stdout + r.stderr)[:200]
        pids = ["C%02d" % i for i in range(1, 21)] if all_checks else [pid]
        for c in pids:
            p = subprocess.run([os.path.join(ROOT, "bin", "check"), c, "--repo", tmp], capture_output=True, text=True,
                               env=dict(os.environ, SIGVERIF_NO_EVIDENCE="1", OMP_NUM_THREADS="1"))
            if p.returncode != 0:
                lines = [l for l in (p.stdout + p.stderr).splitlines() if l.startswith("  sigpy") or l.startswith("  line") or l.startswith("ANALYSIS-ERROR")]
                res[c] = {"exit": p.returncode, "report": [l[:400] for l in lines[:2]]}
    finally:
        shutil.rmtree(tmp, ignore_errors=True)
    return sid, pid, res, None


def main():
    a = sys.argv[1:]
    all_checks = "--all-checks" in a
    write = "--write" in a
    ids = [x for x in a if not x.startswith("--")] or sorted(x for x in os.listdir(os.path.join(ROOT, "seeded")) if os.path.isdir(os.path.join(ROOT, "seeded", x)))
    bad = 0
    with ThreadPoolExecutor(max_workers=int(os.environ.get("SIGVERIF_JOBS", "8"))) as ex:
        for sid, pid, res, err in ex.map(lambda s: one(s, all_checks), ids):
            if err:
                print("%-8s ERROR %s" % (sid, err))
                bad += 1
                continue
            own = res.get(pid)
            ok = own is not None and own["exit"] == 1
            rule = ""
            if own and own["report"]:
                r0 = own["report"][0]
                m = re.search(r"\[[A-Za-z0-9_.-]+\]", r0)
                rule = m.group(0) if m else r0[:40]
            print("%-8s breaks %s: %s %s%s" % (sid, pid, "VIOLATION" if ok else ("exit %s" % own["exit"] if own else "SILENT"), rule,
                                             ("  also " + ",".join(sorted(c for c in res if c != pid))) if len(res) > (1 if own else 0) else ""))
            if not ok:
                bad += 1
            if write:
                mp = os.path.join(ROOT, "seeded", sid, "meta.json")
                meta = json.load(open(mp))
                if all_checks:
                    meta["caught_by"] = res
                else:
                    cb = meta.get("caught_by", {})
                    cb.pop(pid, None)
                    if own:
                        cb[pid] = own
                    meta["caught_by"] = dict(sorted(cb.items()))
                meta["own_check_catches"] = ok
                json.dump(meta, open(mp, "w"), indent=1)
    print("refresh_seeded: %d changes, %d not reported by the check of their property" % (len(ids), bad))
    return 1 if bad else 0


if __name__ == "__main__":
    sys.exit(main())
