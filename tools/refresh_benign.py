#!/venv/bin/python
"""Regression over the stored, independently written behaviour-preserving refactors (selftest/benign_indep/<id>/patch.diff and the
near-misses selftest/near_miss/<id>/patch.diff, the structural refactors selftest/structural and the algebraic / vectorised rewrites selftest/algebraic): each is applied to a scratch copy of /repo/sigpy (never to /repo) and all 20 checks must
stay silent (exit 0).  A refactor whose meta.json carries "documented_limitation" is expected to be reported by exactly the checks listed
there (DESIGN.md section 9.6) and is counted separately.

usage: tools/refresh_benign.py [ID ...]
exit 1 if any check raises an alarm that is not a documented limitation.
"""
import json, os, shutil, subprocess, sys, tempfile
from concurrent.futures import ThreadPoolExecutor
HERE = os.path.dirname(os.path.abspath(__file__))
ROOT = os.path.dirname(HERE)
DIRS = [os.path.join(ROOT, "selftest", "benign_indep"), os.path.join(ROOT, "selftest", "near_miss"), os.path.join(ROOT, "selftest", "structural"),
        os.path.join(ROOT, "selftest", "algebraic"), os.path.join(ROOT, "selftest", "maintenance")]


def one(path):
    sid = os.path.basename(path)
    meta = json.load(open(os.path.join(path, "meta.json"))) if os.path.exists(os.path.join(path, "meta.json")) else {}
    tmp = tempfile.mkdtemp(prefix="sigverif-rb-")
    alarms = {}
    try:
        shutil.copytree("/repo/sigpy", os.path.join(tmp, "sigpy"), ignore=shutil.ignore_patterns("__pycache__"))
        r = subprocess.run(["patch", "-p1", "-s", "-i", os.path.join(path, "patch.diff")], cwd=tmp, capture_output=True, text=True)
        if r.returncode != 0:
            return sid, None, meta, "patch failed: " + (r.stdout + r.stderr)[:200]
        for i in range(1, 21):
            c = "C%02d" % i
            p = subprocess.run([os.path.join(ROOT, "bin", "check"), c, "--repo", tmp], capture_output=True, text=True,
                               env=dict(os.environ, SIGVERIF_NO_EVIDENCE="1", SIGVERIF_NO_INHERIT="1", OMP_NUM_THREADS="1"))
            if p.returncode != 0:
                lines = [l for l in (p.stdout + p.stderr).splitlines() if l.startswith("  sigpy") or l.startswith("  line") or l.startswith("ANALYSIS-ERROR")]
                alarms[c] = (p.returncode, lines[0][:300] if lines else "")
    finally:
        shutil.rmtree(tmp, ignore_errors=True)
    return sid, alarms, meta, None


def main():
    want = [a for a in sys.argv[1:] if not a.startswith("--")]
    paths = []
    for d in DIRS:
        if os.path.isdir(d):
            paths += [os.path.join(d, x) for x in sorted(os.listdir(d)) if os.path.exists(os.path.join(d, x, "patch.diff")) and (not want or x in want)]
    bad = lim = 0
    with ThreadPoolExecutor(max_workers=int(os.environ.get("SIGVERIF_JOBS", "4"))) as ex:
        for sid, alarms, meta, err in ex.map(one, paths):
            if err:
                print("%-10s ERROR %s" % (sid, err)); bad += 1; continue
            expected = set((meta.get("documented_limitation") or {}).get("checks", []))
            extra = set(alarms) - expected
            if extra:
                bad += 1
                print("%-10s FALSE ALARM by %s" % (sid, ", ".join(sorted(extra))))
                for c in sorted(extra):
                    print("     %s exit %d: %s" % (c, alarms[c][0], alarms[c][1]))
            elif alarms:
                lim += 1
                print("%-10s documented limitation (%s)" % (sid, ", ".join(sorted(alarms))))
            else:
                print("%-10s silent" % sid)
    print("refresh_benign: %d refactors, %d false alarms, %d documented limitations" % (len(paths), bad, lim))
    return 1 if bad else 0


if __name__ == "__main__":
    sys.exit(main())
