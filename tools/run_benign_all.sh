#!/bin/sh
# runs all 20 checks against every independently written benign refactor under /tmp/seed/benign (developer helper)
cd "$(dirname "$0")/.."
ls -d /tmp/seed/benign/C*/r* 2>/dev/null | sed 's#/tmp/seed/benign/##; s#/r# #' | xargs -P 6 -L 1 sh -c '/venv/bin/python tools/eval_benign.py $0 $1 2>&1 | cut -c1-360' > /tmp/seed/benign_summary.txt
grep -c "alarms=none" /tmp/seed/benign_summary.txt
grep "^==" /tmp/seed/benign_summary.txt | grep -v "alarms=none" | sort
