#!/venv/bin/python
"""Developer helper: freeze, per property, the functions / methods its anchors point at.

properties.jsonl anchors carry `where` strings with line ranges of the tree the properties were written against (the first commit of /repo).
This tool maps those ranges to the qualified names of the functions and methods defined there in that commit and writes sigverif/anchor_funcs.json.
The shared rules start their call-graph reachability from these functions (a whole anchor FILE is used only when a property gives no range in it)."""
import ast, json, os, re, subprocess, sys
ROOT = os.path.dirname(os.path.dirname(os.path.abspath(__file__)))
repo = "/repo"
first = subprocess.run(["git", "-C", repo, "rev-list", "--max-parents=0", "HEAD"], capture_output=True, text=True).stdout.split()[0]


def defs(path):
    src = subprocess.run(["git", "-C", repo, "show", "%s:%s" % (first, path)], capture_output=True, text=True).stdout
    mod = path[:-3].replace("/", ".")
    out = []
    tree = ast.parse(src)
    for n in tree.body:
        if isinstance(n, ast.FunctionDef):
            out.append((mod + "." + n.name, n.lineno, n.end_lineno))
        elif isinstance(n, ast.ClassDef):
            for m in n.body:
                if isinstance(m, ast.FunctionDef):
                    out.append(("%s.%s.%s" % (mod, n.name, m.name), m.lineno, m.end_lineno))
    return out


def main():
    res = {}
    for ln in open(os.path.join(ROOT, "properties.jsonl")):
        o = json.loads(ln)
        wh = []

        def walk(x):
            if isinstance(x, dict):
                for k, v in x.items():
                    if k == "where" and isinstance(v, str):
                        wh.append(v)
                    else:
                        walk(v)
            elif isinstance(x, list):
                for y in x:
                    walk(y)
        walk(o["anchors"])
        ranges = {}
        for w in wh:
            for part in w.split(";"):
                part = part.strip()
                if ":" not in part:
                    continue
                path, rs = part.split(":", 1)
                for r in rs.split(","):
                    m = re.match(r"\s*(\d+)(?:-(\d+))?", r)
                    if m:
                        lo = int(m.group(1))
                        hi = int(m.group(2) or lo)
                        ranges.setdefault(path.strip(), []).append((lo, hi))
        quals = set()
        unranged = []
        for path in o["anchors"].get("files", []):
            ds = defs(path)
            if path in ranges:
                for q, lo, hi in ds:
                    if any(not (hi < a or lo > b) for a, b in ranges[path]):
                        quals.add(q)
            else:
                unranged.append(path)
        if not quals:
            for path in unranged:
                quals |= {q for q, _, _ in defs(path)}
        else:
            # a file named without a range contributes the functions / classes that USE the ranged functions (the operator classes wrapping them)
            shorts = {q.rsplit(".", 1)[1] for q in quals}
            for path in unranged:
                src = subprocess.run(["git", "-C", repo, "show", "%s:%s" % (first, path)], capture_output=True, text=True).stdout
                mod = path[:-3].replace("/", ".")
                tree = ast.parse(src)
                for n in tree.body:
                    def uses(node):
                        return any(isinstance(c, ast.Call) and ((isinstance(c.func, ast.Name) and c.func.id in shorts) or (isinstance(c.func, ast.Attribute) and c.func.attr in shorts))
                                   for c in ast.walk(node))
                    if isinstance(n, ast.FunctionDef) and uses(n):
                        quals.add(mod + "." + n.name)
                    elif isinstance(n, ast.ClassDef) and uses(n):
                        for m in n.body:
                            if isinstance(m, ast.FunctionDef):
                                quals.add("%s.%s.%s" % (mod, n.name, m.name))
        res[o["id"]] = sorted(quals)
    json.dump({"pinned_commit": first, "anchors": res}, open(os.path.join(ROOT, "sigverif", "anchor_funcs.json"), "w"), indent=1)
    for k, v in res.items():
        print(k, len(v))


if __name__ == "__main__":
    main()
