"""C14 / n1: equivalence demonstration for the restructured default-solver selection
and primal-dual set-up of LinearLeastSquares.  Prints a SHA256 digest of everything
observable; the digest must be identical on the pristine and on the changed tree."""
import hashlib
import itertools
import re
import warnings
import zlib

import numpy as np

import sigpy as sp
from sigpy import app, linop, prox

warnings.simplefilter("ignore")
H = hashlib.sha256()
N_REC = [0]
STATS = {}


def fmt_num(v):
    v = complex(v)
    return "%.9e%+.9ej" % (v.real, v.imag)


def rec(tag, obj):
    """Feed tag + canonical description of obj to the digest."""
    N_REC[0] += 1
    H.update(("|" + tag + "=").encode())
    if obj is None or isinstance(obj, (str, bool, int)):
        H.update(repr(obj).encode())
    elif isinstance(obj, (float, complex, np.number)):
        H.update((type(obj).__name__ + ":" + fmt_num(obj)).encode())
    elif isinstance(obj, np.ndarray):
        H.update(("%s%s[" % (obj.dtype.str, obj.shape)).encode())
        H.update(",".join(fmt_num(v) for v in obj.ravel()).encode())
    elif isinstance(obj, (list, tuple)):
        for i, o in enumerate(obj):
            rec("%s.%d" % (tag, i), o)
    else:
        H.update(repr(obj).encode())


def describe_prox(p):
    if isinstance(p, prox.Stack):
        return "Stack(" + ",".join(describe_prox(q) for q in p.proxs) + ")"
    if isinstance(p, prox.Conj):
        return "Conj(" + describe_prox(p.prox) + ")"
    if isinstance(p, prox.L2Reg):
        return "L2Reg(%r,%s,y=%s,proxh=%s)" % (
            p.shape,
            fmt_num(p.lamda),
            "None" if p.y is None else hashlib.md5(
                np.ascontiguousarray(p.y).tobytes()).hexdigest(),
            "None" if p.proxh is None else describe_prox(p.proxh),
        )
    return re.sub(r" at 0x[0-9a-f]+", "", repr(p))  # no memory addresses


def run_case(tag, make):
    """make() -> (kwargs, watched arrays).  Records result or exception."""
    np.random.seed(4321)
    args, kwargs, watched = make()
    try:
        a = app.LinearLeastSquares(*args, show_pbar=False, **kwargs)
        rec(tag + ".solver", a.solver)
        rec(tag + ".alg", type(a.alg).__name__)
        if isinstance(a.alg, sp.alg.PrimalDualHybridGradient):
            rec(tag + ".proxg", describe_prox(a.alg.proxg))
            rec(tag + ".proxfc", describe_prox(a.alg.proxfc))
            rec(tag + ".A", repr(a.alg.A))
            rec(tag + ".gp", a.alg.gamma_primal)
            rec(tag + ".gd", a.alg.gamma_dual)
            rec(tag + ".tau0", a.alg.tau)
            rec(tag + ".sigma0", a.alg.sigma)
            rec(tag + ".u0", a.alg.u)
        out = a.run()
        rec(tag + ".out", out)
        rec(tag + ".same_x", out is a.x)
        rec(tag + ".iter", a.alg.iter)
        if isinstance(a.alg, sp.alg.PrimalDualHybridGradient):
            rec(tag + ".tau", a.alg.tau)
            rec(tag + ".sigma", a.alg.sigma)
            rec(tag + ".u", a.alg.u)
            rec(tag + ".resid", a.alg.resid)
        rec(tag + ".app_tau", a.tau)
        rec(tag + ".app_sigma", a.sigma)
        rec(tag + ".app_alpha", a.alpha)
    except Exception as e:  # noqa
        chain = [type(e).__name__]
        c = e.__cause__
        while c is not None:
            chain.append(type(c).__name__)
            c = c.__cause__
        rec(tag + ".exc", ">".join(chain))
        STATS[">".join(chain)] = STATS.get(">".join(chain), 0) + 1
    else:
        key = "ok:%s/%s" % (kwargs.get("solver"), a.solver)
        STATS[key] = STATS.get(key, 0) + 1
    for k, w in enumerate(watched):
        rec(tag + ".in%d" % k, w)


def data(dtype, m, n, seed):
    rng = np.random.RandomState(seed)
    cplx = np.issubdtype(dtype, np.complexfloating)

    def r(*s):
        v = rng.standard_normal(s)
        if cplx:
            v = v + 1j * rng.standard_normal(s)
        return v.astype(dtype)

    _A = (np.eye(m, n) + 0.2 * r(m, n)).astype(dtype)
    return _A, r(m, 1), r(n, 1), r(n, 1), r(n + 2, n)


def main():
    solvers = [None, "ConjugateGradient", "GradientMethod",
               "PrimalDualHybridGradient", "ADMM"]
    case = 0
    for dtype, (m, n) in itertools.product(
        [np.float64, np.complex128, np.float32, np.complex64],
        [(7, 5), (4, 4), (3, 6), (1, 1)],
    ):
        _A, y, z, x0, _G = data(dtype, m, n, 100 + case)
        A = linop.MatMul([n, 1], _A)
        Gs = {
            "none": None,
            "dense": linop.MatMul([n, 1], _G),
            "fd": linop.FiniteDifference([n, 1], axes=[0]),
            "id": linop.Identity([n, 1]),
        }
        for solver, lamda, use_z, pname, gname, step, use_x0 in itertools.product(
            solvers, [0, 0.3], [False, True], ["none", "l1", "l2", "box"],
            ["none", "dense", "fd", "id"], ["default", "tau", "sigma", "both",
                                            "tau_arr"],
            [False, True],
        ):
            # keep the sweep affordable: thin out combinations deterministically
            case += 1
            pick = zlib.crc32(repr((case, pname, gname, step)).encode())
            if solver != "PrimalDualHybridGradient" and solver is not None:
                if step != "default" or pick % 4:
                    continue
            elif pick % 5 and not (step == "tau_arr" and pick % 2):
                continue

            def make():
                G = Gs[gname]
                gshape = [n, 1] if G is None else G.oshape
                if pname == "none":
                    P = None
                elif pname == "l1":
                    P = prox.L1Reg(gshape, 0.05)
                elif pname == "l2":
                    P = prox.L2Reg(gshape, 0.2)
                else:
                    P = prox.BoxConstraint(gshape, -0.2, 0.4)
                yy, zz, xx = y.copy(), z.copy(), x0.copy()
                kw = dict(lamda=lamda, proxg=P, G=G, solver=solver, max_iter=12)
                watched = [yy]
                if use_z:
                    kw["z"] = zz
                    watched.append(zz)
                if use_x0:
                    kw["x"] = xx
                    watched.append(xx)
                if step in ("tau", "both"):
                    kw["tau"] = 0.3
                if step in ("sigma", "both"):
                    kw["sigma"] = 0.7
                if step == "tau_arr":
                    t = (0.1 + 0.05 * np.arange(n)).reshape(n, 1)
                    t = t.astype(np.zeros(1, dtype).real.dtype)
                    kw["tau"] = t
                    watched.append(t)
                return (A, yy), kw, watched

            run_case("c%d" % case, make)

    # invalid or unusual configurations
    _A, y, z, x0, _G = data(np.float64, 6, 4, 7)
    A = linop.MatMul([4, 1], _A)
    G = linop.MatMul([4, 1], _G)
    bad = [
        dict(solver="NoSuchSolver"),
        dict(solver="PrimalDualHybridGradient", lamda=None),
        dict(solver="PrimalDualHybridGradient", lamda=None, G=G),
        dict(solver=None, lamda=None, G=G, proxg=prox.L1Reg(G.oshape, 0.1)),
        dict(solver="PrimalDualHybridGradient", lamda=np.array([0.1, 0.2])),
        dict(solver="PrimalDualHybridGradient", lamda=np.array([0.1])),
        dict(solver="PrimalDualHybridGradient", lamda=-0.5),
        dict(solver="PrimalDualHybridGradient", lamda=-0.5, G=G,
             proxg=prox.L1Reg(G.oshape, 0.1)),
        dict(solver="PrimalDualHybridGradient", lamda=float("nan")),
        dict(solver="PrimalDualHybridGradient", G=linop.MatMul([5, 1],
                                                                np.ones((3, 5)))),
        dict(solver="PrimalDualHybridGradient", G=G, proxg=prox.L1Reg([4, 1], 1)),
        dict(solver="PrimalDualHybridGradient", G=G, proxg=object()),
        dict(solver="PrimalDualHybridGradient", proxg=object()),
        dict(solver="PrimalDualHybridGradient", proxg=lambda a, v: v * 0.5),
        dict(solver="PrimalDualHybridGradient", proxg=lambda a, v: v * 0.5,
             lamda=0.2),
        dict(solver=None, proxg=lambda a, v: v * 0.5),
        dict(solver=None, G=G),
        dict(solver="ConjugateGradient", proxg=prox.L1Reg([4, 1], 1)),
        dict(solver="GradientMethod", G=G),
        dict(solver="PrimalDualHybridGradient", z=0.25, lamda=0.4),
        dict(solver="PrimalDualHybridGradient", z=0.25, lamda=0.4, G=G),
        dict(solver="PrimalDualHybridGradient", tau=0, G=G),
        dict(solver="PrimalDualHybridGradient", sigma=np.arange(1, 13) / 10.0,
             G=G, proxg=prox.L1Reg(G.oshape, 0.1), lamda=0.1),
    ]
    for k, kw in enumerate(bad):
        for rep in range(2):  # repeated calls

            def make():
                yy = y.copy()
                kk = dict(kw)
                kk.setdefault("max_iter", 8)
                return (A, yy), kk, [yy]

            run_case("bad%d.%d" % (k, rep), make)

    # boolean y (unary minus is not defined) together with a mismatching G
    def make():
        yy = np.ones((6, 1), dtype=bool)
        return (A, yy), dict(solver="PrimalDualHybridGradient",
                             G=linop.MatMul([5, 1], np.ones((3, 5)))), [yy]

    run_case("booly", make)

    def make():
        yy = np.ones((6, 1), dtype=bool)
        return (A, yy), dict(solver="PrimalDualHybridGradient", G=G), [yy]

    run_case("booly2", make)

    for k in sorted(STATS):
        print("  %-60s %d" % (k, STATS[k]))
    print("records:", N_REC[0])
    print("digest:", H.hexdigest())


if __name__ == "__main__":
    main()
