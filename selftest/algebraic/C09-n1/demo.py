"""C09 / n1 equivalence demo: array_to_blocks (CPU gather kernels, 1-D/2-D/3-D)
and the ArrayToBlocks / BlocksToArray linops built on it.

Prints a SHA256 digest over all results (values rounded to 10 significant
digits, dtypes, shapes, exception types for invalid inputs, and a digest of
the caller's input arrays after each call).  The digest must be identical on
the pristine tree and on the tree with the n1 rewrite applied.
"""
import hashlib
import itertools

import numpy as np

import sigpy as sp

H = hashlib.sha256()
COUNT = [0]


def _fmt(a):
    a = np.asarray(a)
    if a.dtype.kind in "biu":
        return a.astype(np.int64).tobytes()
    if a.dtype.kind == "c":
        a = a.astype(np.complex128).ravel()
        vals = np.stack([a.real, a.imag], -1).ravel()
    else:
        vals = a.astype(np.float64).ravel()
    return ",".join("%.9e" % (v + 0.0) for v in vals).encode()


def record(tag, obj):
    COUNT[0] += 1
    H.update(tag.encode())
    if isinstance(obj, BaseException):
        H.update(("EXC:" + type(obj).__name__).encode())
    elif isinstance(obj, np.ndarray):
        H.update(("%s|%s|%s|" % (obj.dtype, obj.shape,
                                  obj.flags["C_CONTIGUOUS"])).encode())
        H.update(_fmt(obj))
    else:
        H.update(repr(obj).encode())


def call(tag, f, *args, inputs=()):
    try:
        out = f(*args)
    except BaseException as e:  # noqa
        out = e
        while isinstance(out, RuntimeError) and out.__cause__ is not None:
            out = out.__cause__
    record(tag, out)
    for k, a in enumerate(inputs):
        record(tag + "/in%d" % k, a)
    return out


def make(shape, dtype, rng):
    n = int(np.prod(shape))
    if np.dtype(dtype).kind == "c":
        x = rng.standard_normal(n) + 1j * rng.standard_normal(n)
    elif np.dtype(dtype).kind == "f":
        x = rng.standard_normal(n) * 1e3
    elif np.dtype(dtype).kind == "b":
        x = rng.standard_normal(n) > 0
    else:
        x = rng.randint(-1000, 1000, size=n)
    return np.asarray(x).astype(dtype).reshape(shape)


def main():
    rng = np.random.RandomState(12345)
    dtypes = [np.float32, np.float64, np.complex64, np.complex128,
              np.int32, np.int64, np.bool_]
    axis_cfgs = [(6, 1, 1), (6, 2, 1), (6, 2, 2), (6, 3, 2), (5, 3, 2),
                 (7, 2, 2), (7, 3, 3), (8, 2, 3), (9, 4, 2), (5, 5, 1),
                 (4, 5, 1), (1, 1, 1), (3, 3, 7)]

    # ---- sweep of valid configurations, 1-3 block dims, batch dims
    for D in (1, 2, 3):
        if D == 1:
            combos = [(c,) for c in axis_cfgs]
        elif D == 2:
            combos = list(itertools.product(axis_cfgs, repeat=2))
        else:
            combos = [c for c in itertools.product(axis_cfgs[:9], repeat=3)
                      if (c[0][0] + c[1][1] + c[2][2]) % 3 == 0]
        for ci, cfg in enumerate(combos):
            N = [c[0] for c in cfg]
            B = [c[1] for c in cfg]
            S = [c[2] for c in cfg]
            batches = [[], [2], [2, 1, 3]] if D < 3 else [[], [2]]
            batch = batches[ci % len(batches)]
            dtype = dtypes[ci % len(dtypes)]
            x = make(batch + N, dtype, rng)
            tag = "a2b D=%d N=%s B=%s S=%s batch=%s %s" % (
                D, N, B, S, batch, np.dtype(dtype).name)
            y = call(tag, sp.array_to_blocks, x, B, S, inputs=(x,))
            # repeated call gives the same thing
            call(tag + " again", sp.array_to_blocks, x, tuple(B), tuple(S),
                 inputs=(x,))
            # round trip through the scatter
            if isinstance(y, np.ndarray) and y.size > 0:
                call(tag + " b2a", sp.blocks_to_array, y, batch + N, B, S,
                     inputs=(y,))

    # ---- non-contiguous / unusual inputs
    base = make([7, 9, 8], np.complex64, rng)
    views = {
        "T": base.T,
        "step": base[::2, 1::3, ::-1],
        "real": base.real,
        "F": np.asfortranarray(make([5, 6, 7], np.float64, rng)),
        "bcast": np.broadcast_to(make([6], np.float32, rng), (3, 4, 6)),
    }
    for name, v in views.items():
        for B, S in [([2], [1]), ([3, 2], [2, 3]), ([2, 2, 3], [1, 2, 2]),
                     ([1, 4], [3, 1])]:
            if any(b > n for b, n in zip(B, v.shape[-len(B):])):
                continue
            call("view %s B=%s S=%s" % (name, B, S), sp.array_to_blocks,
                 v, B, S, inputs=(np.array(v),))

    # ---- linops (forward, adjoint of the scatter, normal)
    for ishape, B, S in [([6], [2], [2]), ([7], [3], [2]), ([2, 7, 6], [3, 2],
                         [2, 2]), ([5, 6, 7], [2, 3, 3], [2, 2, 3]),
                         ([3, 8, 5], [2, 5], [3, 1])]:
        for dtype in (np.float32, np.complex128):
            x = make(ishape, dtype, rng)
            A = sp.linop.ArrayToBlocks(ishape, B, S)
            tag = "linop %s %s %s %s" % (ishape, B, S, np.dtype(dtype).name)
            y = call(tag + " A", A, x, inputs=(x,))
            call(tag + " A.H.H", A.H.H, x, inputs=(x,))
            call(tag + " A.N", A.N, x, inputs=(x,))
            Rl = sp.linop.BlocksToArray(ishape, B, S)
            call(tag + " R.H", Rl.H, x, inputs=(x,))
            call(tag + " R", Rl, y, inputs=(y,))
            record(tag + " repr", repr(A) + repr(A.H) + repr(Rl.H))

    # ---- invalid / degenerate inputs
    x1 = make([6], np.float64, rng)
    x2 = make([4, 6], np.float64, rng)
    x4 = make([2, 3, 4, 5], np.float32, rng)
    bad = [
        ("len mismatch", x2, [2, 2], [1]),
        ("ndim 4", x4, [1, 1, 1, 1], [1, 1, 1, 1]),
        ("ndim 0", x1, [], []),
        ("stride 0", x1, [2], [0]),
        ("stride 0 2d", x2, [2, 2], [1, 0]),
        ("blk > N", x1, [7], [1]),
        ("blk > N big stride", x1, [9], [2]),
        ("blk > N 2d", x2, [5, 2], [1, 1]),
        ("neg stride -> neg count", x1, [2], [-3]),
        ("neg stride i==b", x1, [6], [-2]),
        ("neg stride i<b", make([3], np.float64, rng), [5], [-1]),
        ("blk 0", x1, [0], [1]),
        ("more blk dims than array dims", x1, [2, 2], [1, 1]),
        ("float blk", x1, [2.0], [1]),
        ("float stride", x1, [2], [1.0]),
        ("list input", [0.0, 1.0, 2.0, 3.0], [2], [1]),
        ("numpy int params", x2, np.array([2, 3]), np.array([1, 2])),
        ("tuple params", x2, (2, 3), (2, 2)),
    ]
    for name, x, B, S in bad:
        keep = (np.array(x),) if isinstance(x, np.ndarray) else ()
        call("bad " + name, sp.array_to_blocks, x, B, S, inputs=keep)
        if isinstance(x, np.ndarray):
            call("bad linop " + name,
                 lambda: sp.linop.ArrayToBlocks(list(x.shape), B, S)(x))

    print("results hashed:", COUNT[0])
    print("DIGEST", H.hexdigest())


if __name__ == "__main__":
    main()
