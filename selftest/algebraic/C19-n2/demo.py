"""C19 / n2 equivalence demo: dzls (least-squares linear-phase beta design) and
everything built on it (dzrf ftype="ls" for every ptype, the SLR round trip
through abrm_hp, dz_gslider_b/rf, dz_hadamard_b, dz_recursive_rf, b1sel) must
give identical results on the pristine and on the rewritten tree.
Prints a SHA256 digest."""
import hashlib
import warnings

import numpy as np

import sigpy.mri.rf as rf
from sigpy.mri.rf import slr

warnings.simplefilter("ignore")
H = hashlib.sha256()
COUNT = {"values": 0, "exceptions": 0, "exc_tags": []}


def r10(v):
    """Round to 10 significant digits, canonical text (nan/inf/-0 safe)."""
    v = np.asarray(v)
    if np.iscomplexobj(v):
        return r10(v.real) + "|" + r10(v.imag)
    v = v.astype(np.float64).ravel()
    return ",".join(
        "nan" if np.isnan(t) else "%.9e" % (t + 0.0) if t != 0 else "0"
        for t in v)


def put(tag, val):
    if isinstance(val, BaseException):
        s = "%s: EXC %s" % (tag, type(val).__name__)
        COUNT["exceptions"] += 1
        COUNT["exc_tags"].append(s)
    elif isinstance(val, (tuple, list)):
        for i, v in enumerate(val):
            put("%s[%d]" % (tag, i), v)
        return
    else:
        v = np.asarray(val)
        s = "%s: %s %s %s" % (tag, v.dtype, v.shape, r10(v))
        COUNT["values"] += 1
    H.update(s.encode())
    H.update(b"\n")


def call(tag, fn, *args, **kw):
    """Call fn, record result or exception type, and the inputs afterwards."""
    try:
        out = fn(*args, **kw)
    except Exception as e:  # noqa
        out = e
    put(tag, out)
    for i, a in enumerate(args):
        if isinstance(a, np.ndarray):
            put("%s.arg%d_after" % (tag, i), a)
    return out


def main():
    rng = np.random.RandomState(78)

    # --- dzls directly ------------------------------------------------------
    for n in [4, 6, 8, 10, 16, 22, 32, 50, 64, 100, 128, 200, 256, 512]:
        for tb in [2, 3, 4, 6.5, 8, 12]:
            for (d1, d2) in [(0.01, 0.01), (0.02, 0.005), (0.1, 0.1)]:
                for rep in range(2):
                    call("dzls n=%d tb=%g d=%g,%g rep%d" % (n, tb, d1, d2, rep),
                         slr.dzls, n, tb, d1, d2)
    call("dzls defaults", slr.dzls)
    call("dzls np.int64", slr.dzls, np.int64(64), 4)
    call("dzls np.int32", slr.dzls, np.int32(32), np.float32(4))
    # invalid / unusual sizes
    for n in [-4, -1, 0, 1, 2, 3, 5, 7, 33, 63, 65, 127]:
        call("dzls n=%d" % n, slr.dzls, n, 2)
    for n in [64.0, 64.5, 64.9, 63.5, 63.0, 10.0, 2.0]:
        call("dzls float n=%r" % n, slr.dzls, n, 4)
    call("dzls tb=0", slr.dzls, 64, 0)
    call("dzls tb>n", slr.dzls, 16, 40)
    call("dzls neg tb", slr.dzls, 64, -4)
    call("dzls d2=0", slr.dzls, 64, 4, 0.01, 0.0)
    call("dzls str", slr.dzls, "64", 4)
    call("dzls None", slr.dzls, None, 4)
    call("dzls array n", slr.dzls, np.array([64, 32]), 4)

    # --- designs built on it, and the design -> hard-pulse simulation trip ----
    for ptype in ["st", "ex", "se", "inv", "sat"]:
        for (n, tb) in [(16, 2), (32, 4), (64, 8), (100, 5), (128, 16)]:
            for cancel in [False, True]:
                pulse = call("dzrf ls %s %d %d %s" % (ptype, n, tb, cancel),
                             rf.dzrf, n, tb, ptype, "ls", 0.01, 0.005, cancel)
                if isinstance(pulse, np.ndarray):
                    xx = np.linspace(-n / 2, n / 2, 41)
                    call("abrm_hp of it", rf.sim.abrm_hp,
                         pulse, np.ones(n) * 2 * np.pi / n, xx)
                    call("abrm of it", rf.sim.abrm, pulse, xx, True)
    call("dzrf ls odd n", rf.dzrf, 65, 4, "ex", "ls")
    call("gslider_b", slr.dz_gslider_b, 128, 5, 2, 12)
    call("gslider_rf", slr.dz_gslider_rf, 128, 3, np.pi / 2, np.pi, 8)
    call("hadamard_b", slr.dz_hadamard_b, 128, 4, 2, 16)
    call("hadamard_b bad g", slr.dz_hadamard_b, 128, 5, 1, 12)
    call("recursive", slr.dz_recursive_rf, 2, 4, 40, True, 8)
    call("recursive gre", slr.dz_recursive_rf, 3, 4, 64, False)
    call("b1sel", rf.b1sel.dz_b1_rf, 2e-6, 4, "ex", np.pi / 4, 0.5, 5)

    print("recorded %d arrays, %d exceptions" % (
        COUNT["values"], COUNT["exceptions"]))
    if "-v" in __import__("sys").argv:
        for t in COUNT["exc_tags"]:
            print("   ", t)
    print("DIGEST", H.hexdigest())


if __name__ == "__main__":
    main()
