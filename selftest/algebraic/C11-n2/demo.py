"""C11 / round 5 / n2 - equivalence demo (thresh.l1_proj re-spelled:
no else-branch, arange(1, n+1), `s > st` instead of `(s - st) > 0`, .size).

Prints a SHA256 digest of: every result (values rounded to 10 significant
digits, dtype, shape, whether it aliases the input), exception types (and the
cause type when the call goes through a Prox object) for invalid inputs, and a
digest of the caller's arrays after each call.
"""
import hashlib
import warnings

import numpy as np

warnings.simplefilter("ignore")

from sigpy import prox, thresh  # noqa: E402

H = hashlib.sha256()
NREC = [0]


def put(s):
    H.update((s + "\n").encode())
    NREC[0] += 1


def fmt(a):
    a = np.asarray(a)
    flat = a.ravel()
    if np.iscomplexobj(flat):
        vals = np.stack([flat.real, flat.imag], -1).ravel()
    else:
        vals = flat
    vals = np.asarray(vals, dtype=np.float64) + 0.0  # -0.0 -> 0.0
    body = ",".join("%.9e" % v for v in vals)
    return "%s|%s|%s" % (a.dtype, a.shape, body)


def run(tag, f, x, eps_repr):
    before = fmt(x) if isinstance(x, np.ndarray) else repr(x)
    for rep in range(2):
        try:
            y = f(x)
            alias = bool(isinstance(x, np.ndarray) and np.shares_memory(x, y))
            put("%s#%d eps=%s OK %s alias=%s" % (tag, rep, eps_repr, fmt(y), alias))
        except Exception as e:  # noqa
            c = e.__cause__
            put("%s#%d eps=%s EXC %s|%s|%s" % (tag, rep, eps_repr, type(e).__name__,
                                               type(c).__name__, str(c)))
    after = fmt(x) if isinstance(x, np.ndarray) else repr(x)
    put("%s input unchanged=%s %s" % (tag, before == after, after))


rng = np.random.RandomState(2)


def data(shape, dtype):
    x = np.asarray(rng.randn(*shape))
    if np.issubdtype(dtype, np.complexfloating):
        x = x + 1j * np.asarray(rng.randn(*shape))
    elif np.issubdtype(dtype, np.integer):
        x = np.round(4 * x)
        if np.issubdtype(dtype, np.unsignedinteger):
            x = np.abs(x)
    return x.astype(dtype)


dtypes = [np.float64, np.float32, np.complex128, np.complex64, np.int64, np.int32, np.uint8]
shapes = [[1], [2], [7], [64], [3, 4], [2, 3, 2], [1, 1], [5, 1], [0], [2, 0], []]

for shape in shapes:
    for dt in dtypes:
        x = data(shape, dt)
        n1 = float(np.sum(np.abs(x.astype(np.complex128))))
        eps_list = [0.05, 0.5, 1.0, 3.0, 1e3, 1e-12, n1, np.nextafter(n1, np.inf),
                    np.nextafter(n1, -np.inf), 0.5 * n1, 0.999999 * n1, 0.0, -1.0,
                    float("inf"), float("nan"), 2, np.float32(0.7),
                    np.array(0.8), np.array([0.8]), np.array([0.5, 0.9])]
        for eps in eps_list:
            tag = "l1_proj/%s/%s" % (shape, np.dtype(dt).name)
            run(tag, lambda v, e=eps: thresh.l1_proj(e, v), x, repr(eps))
        for eps in (0.05, 1.0, n1, 0.5 * n1, 0.0, np.array([0.8])):
            P = prox.L1Proj(shape, eps)
            run("L1Proj/%s/%s" % (shape, np.dtype(dt).name), lambda v, P=P: P(0.7, v), x, repr(eps))

# structured inputs: ties, zeros, single spike, exact boundary, sign patterns
special = [
    np.zeros(6), np.ones(6), -np.ones(6), np.array([1.0, -1.0, 1.0, -1.0]),
    np.array([2.0, 2.0, 2.0, 1.0, 1.0, 0.0, 0.0]), np.array([5.0, 0, 0, 0]),
    np.array([0.25, 0.25, 0.25, 0.25]), np.array([3.0, 1.0]), np.array([1e-300, 2e-300, 3e-300]),
    np.array([1e300, 1e300, -1e300]), np.array([1e308, 1e308]), np.array([np.inf, 1.0]),
    np.array([np.nan, 1.0, 2.0]), np.array([1.0, np.inf, -np.inf]),
    np.array([1j, -1j, 1.0, -1.0]), np.array([3 + 4j, 0, 5j, -5]),
    np.array([[1.0, 2.0], [2.0, 1.0]]), np.array([[0.5 + 0.5j, 0.5 - 0.5j], [0, 1]]),
    np.array([4.9e-324, 4.9e-324, 1e-323]), np.array([1.0, 1.0 + 2.3e-16, 1.0 - 1.2e-16]),
    np.array([3, 3, 3, 1], dtype=np.int64), np.array([200, 100, 55], dtype=np.uint8),
    np.array([-128, 127, 0], dtype=np.int8),
    np.float32([1.0, 1.0000001, 0.9999999, 0.5]),
]
for i, x in enumerate(special):
    n1 = float(np.sum(np.abs(x.astype(np.complex128)))) if np.all(np.isfinite(x)) else 1.0
    for eps in (1e-320, 1e-3, 0.5, 1.0, 2.0, 4.0, n1, n1 / 2, n1 / 3, 1e300, 0.0, -2.0):
        run("special/%d" % i, lambda v, e=eps: thresh.l1_proj(e, v), x, repr(eps))
        run("specialP/%d" % i, lambda v, e=eps: prox.L1Proj(list(v.shape), e)(1.0, v), x, repr(eps))

# non-contiguous / negative-stride / Fortran-ordered / broadcast views
base = data([6, 8], np.float64)
views = {
    "T": base.T, "step": base[::2, ::3], "neg": base[::-1, ::-1], "F": np.asfortranarray(base),
    "col": base[:, 2], "bcast": np.broadcast_to(base[0], (3, 8)), "cplx-real-view": data([5], np.complex128).real,
}
for name, v in views.items():
    for eps in (0.1, 1.0, 5.0, 1e3):
        run("view/%s" % name, lambda a, e=eps: thresh.l1_proj(e, a), v, repr(eps))
put("base after views " + fmt(base))

# invalid inputs
for bad in ([1.0, -2.0, 3.0], (1.0, 2.0), None, 2.5, "abc", np.float64(2.0)):
    run("bad/%r" % (bad,), lambda v: thresh.l1_proj(1.0, v), bad, "1.0")
    run("badP/%r" % (bad,), lambda v: prox.L1Proj([3], 1.0)(1.0, v), bad, "1.0")
for bad_eps in (None, "x", [1.0], [0.5, 0.9], 1j):
    run("badeps/%r" % (bad_eps,), lambda v, e=bad_eps: thresh.l1_proj(e, v),
        np.array([1.0, -2.0, 0.5]), repr(bad_eps))
run("obj", lambda v: thresh.l1_proj(1.0, v), np.array([1.0, 2.0, -3.0], dtype=object), "1.0")

# users of l1_proj through combinators
for shape in ([6], [2, 3]):
    for dt in (np.float64, np.complex128):
        x = data(shape, dt)
        C = prox.Conj(prox.L1Proj(shape, 0.8))  # prox of 0.8 * ||.||_inf
        for alpha in (0.1, 1.0, 7.0):
            run("Conj(L1Proj)/%s/%s" % (shape, np.dtype(dt).name), lambda v, a=alpha: C(a, v), x, repr(alpha))
        L = prox.L2Reg(shape, 0.5, y=0.3, proxh=prox.L1Proj(shape, 1.2))
        run("L2Reg(proxh=L1Proj)/%s/%s" % (shape, np.dtype(dt).name), lambda v: L(0.9, v), x, "1.2")
S = prox.Stack([prox.L1Proj([2, 3], 0.7), prox.L1Proj([4], 50.0), prox.L1Proj([1], 0.1)])
run("Stack(L1Proj x3)", lambda v: S(1.0, v), data([11], np.complex128), "-")

print("records:", NREC[0])
print("DIGEST", H.hexdigest())
